import Btdht.Proofs.Dht
/-
Timed reasoning about the bootstrap worker (C15, timed clause).
Part 1: when the worker waits and for what (`BPhase.waits`, `BPhase.due`), step boundaries.
-/
namespace Btdht

/-- the worker has nothing to do at `now` (it waits for a deadline or for ever) -/
def BPhase.waits : BPhase → Nat → Prop
  | .awaitStart, _ => True
  | .forever, _ => True
  | .sleeping w, now => now < w
  | .bootstrapped c, now => now < c
  | .initial _ rl nl sl _ active _ _, now =>
    (∀ p ∈ active, now < p.deadline) ∧
    (if rl.isEmpty && nl.isEmpty then active ≠ [] else ∃ t, sl = some t ∧ now < t)
  | .bucketStart _, _ => False
  | .buckets _ active, now => active ≠ [] ∧ ∀ p ∈ active, now < p.deadline

/-- the instant the worker waits for (as in `DState.nextDeadline`) -/
def BPhase.due : BPhase → Option Nat
  | .sleeping w => some w
  | .bootstrapped c => some c
  | .initial _ _ _ sl _ active _ _ => minOpt sl (pendingMin active)
  | .buckets _ active => pendingMin active
  | _ => none

theorem nextDeadline_eq (s : DState) : s.nextDeadline = minOpt (s.h.timer.earliest.map (·.deadline)) s.phase.due := by
  unfold DState.nextDeadline BPhase.due
  cases s.phase <;> rfl

theorem filter_length_eq_all {α} (p : α → Bool) (l : List α) (h : ¬ (l.filter p).length < l.length) : ∀ x ∈ l, p x = true := by
  have hle := List.length_filter_le p l
  have : (l.filter p).length = l.length := by omega
  exact List.filter_eq_self.mp (List.length_filter_eq_length_iff.mp this |> fun h => List.filter_eq_self.mpr h)

theorem firstRoundSend_some (s : DState) (tid : Tid) (rl nl : List Addr) (count : Nat) (active : List Pending)
    (responses stopAt now : Nat) (h : ¬ (rl.isEmpty && nl.isEmpty) = true) :
    s.firstRoundSend tid rl nl count active responses stopAt now ≠ none := by
  unfold DState.firstRoundSend pickFirstRound
  simp only
  cases hp : rl ++ nl with
  | nil =>
    simp only [List.append_eq_nil_iff] at hp
    simp [hp.1, hp.2] at h
  | cons d rest => simp

/-- a worker that has nothing to do at `now` is in a waiting phase with no answer queued -/
theorem bStep_none (s : DState) (now : Nat) (h : s.bStep now = none) : s.ready = [] ∧ s.phase.waits now := by
  unfold DState.bStep at h
  split at h
  · simp at h
  · rename_i hr
    refine ⟨hr, ?_⟩
    unfold DState.bStepMain at h
    cases hph : s.phase with
    | awaitStart => trivial
    | forever => trivial
    | sleeping w =>
      simp only [hph] at h
      split at h
      · simp at h
      · simp only [BPhase.waits]; omega
    | bootstrapped c =>
      simp only [hph] at h
      split at h
      · simp at h
      · simp only [BPhase.waits]; omega
    | bucketStart k => simp only [hph] at h; split at h <;> simp at h
    | initial tid rl nl sl count active responses stopAt =>
      simp only [hph] at h
      simp only [BPhase.waits]
      split at h
      · simp at h
      · rename_i hlive
        have hall := filter_length_eq_all _ _ hlive
        refine ⟨fun p hp => by simpa using hall p hp, ?_⟩
        split at h
        · rename_i he
          rw [if_pos he]
          split at h
          · simp at h
          · rename_i hne; simpa using hne
        · rename_i he
          rw [if_neg he]
          split at h
          · split at h
            · exact absurd h (firstRoundSend_some s _ _ _ _ _ _ _ _ he)
            · rename_i t hlt; exact ⟨t, rfl, by omega⟩
          · split at h
            · simp at h
            · exact absurd h (firstRoundSend_some s _ _ _ _ _ _ _ _ he)
    | buckets k active =>
      simp only [hph] at h
      simp only [BPhase.waits]
      split at h
      · simp at h
      · rename_i hne
        split at h
        · simp at h
        · rename_i hlive
          have hall := filter_length_eq_all _ _ hlive
          refine ⟨?_, fun p hp => by simpa using hall p hp⟩
          intro he; subst he; simp at hne

/-- a step boundary: the worker waits, no answer is queued for it, and the handler has seen the
worker's latest published state -/
structure Boundary (s : DState) : Prop where
  ready : s.ready = []
  waits : s.phase.waits s.clock
  seen : s.seenVersion = s.pubVersion

-- ---------------------------------------------------------------- Part 2: induction over one step

/-- fold a ghost state over the events of one instant -/
def scanE {γ : Type} (scan : γ → Nat → DEv → γ) (g : γ) (t : Nat) (evs : List DEv) : γ :=
  evs.foldl (fun g e => scan g t e) g

/-- ... over time-stamped events -/
def scanS {γ : Type} (scan : γ → Nat → DEv → γ) (g : γ) (evs : List (Nat × DEv)) : γ :=
  evs.foldl (fun g e => scan g e.1 e.2) g

theorem scanE_append {γ} (scan : γ → Nat → DEv → γ) (g : γ) (t : Nat) (a b : List DEv) :
    scanE scan g t (a ++ b) = scanE scan (scanE scan g t a) t b := by
  simp [scanE, List.foldl_append]

theorem scanS_append {γ} (scan : γ → Nat → DEv → γ) (g : γ) (a b : List (Nat × DEv)) :
    scanS scan g (a ++ b) = scanS scan (scanS scan g a) b := by
  simp [scanS, List.foldl_append]

theorem scanS_stamp {γ} (scan : γ → Nat → DEv → γ) (g : γ) (t : Nat) (evs : List DEv) :
    scanS scan g (stamp t evs) = scanE scan g t evs := by
  simp [scanS, scanE, stamp, List.foldl_map]

/-- obligations of a clock-related invariant with ghost state, under assumptions `A` on the events
of the run and `Ad` on the datagrams it is fed: each kind of transition taken at the node's current
instant re-establishes it; the clock moves (up to `T`) only at step boundaries and not beyond what
the worker waits for -/
structure ObS {γ : Type} (I : DState → γ → Prop) (scan : γ → Nat → DEv → γ) (A : Nat → DEv → Prop)
    (Ad : InTid → Body → Addr → Prop) (T : Nat) : Prop where
  clock : ∀ s g d, I s g → Boundary s → s.clock ≤ d → d ≤ T → (∀ b, s.phase.due = some b → d ≤ max b s.clock) →
    I { s with clock := d } g
  oracle : ∀ s g fr, I s g → I { s with frOracle := fr } g
  worker : ∀ s g r, I s g → s.bStep s.clock = some r → (∀ e ∈ r.2, A s.clock e) →
    I r.1 (scanE scan g s.clock r.2) ∧ r.1.clock = s.clock
  timer : ∀ s g r, I s g → s.fireOne s.clock = some r → I r.1 (scanE scan g s.clock r.2) ∧ r.1.clock = s.clock
  observe : ∀ s g, I s g → I (s.hObserve s.clock).1 (scanE scan g s.clock (s.hObserve s.clock).2) ∧
    (s.hObserve s.clock).1.clock = s.clock
  command : ∀ s g c, I s g → I (s.command c s.clock).1 (scanE scan g s.clock (s.command c s.clock).2) ∧
    (s.command c s.clock).1.clock = s.clock
  datagram : ∀ s g tid body src, I s g → Ad tid body src →
    I (s.datagram tid body src s.clock).1 (scanE scan g s.clock (s.datagram tid body src s.clock).2) ∧
    (s.datagram tid body src s.clock).1.clock = s.clock
  garbage : ∀ s g src, I s g → I s (scan g s.clock (.undecodable src))

theorem hObserve_hframe (s : DState) (now : Nat) : HFrame s (s.hObserve now).1 ∧
    (s.hObserve now).1.seenVersion = (s.hObserve now).1.pubVersion := by
  unfold DState.hObserve
  split
  · rename_i h; exact ⟨HFrame.refl s, h⟩
  · simp only
    split
    · have hb := bootstrapSuccess_hframe { s with seenVersion := s.pubVersion } now
      refine ⟨HFrame.trans (b := { s with seenVersion := s.pubVersion }) ⟨rfl, rfl, rfl, rfl, rfl, rfl, rfl, rfl, rfl⟩ hb.1, ?_⟩
      rw [hb.2.2, hb.1.version]
    · exact ⟨⟨rfl, rfl, rfl, rfl, rfl, rfl, rfl, rfl, rfl⟩, rfl⟩

-- punctuality: the fuel-bounded loops of a step do not run out of fuel

/-- the worker's loop ends because the worker has to wait, not because the fuel is used up -/
def bRunP (fuel : Nat) (s : DState) (now : Nat) : Prop := (DState.bRun fuel s now).1.bStep now = none

/-- ... in the `settle` that ends the instant `d` -/
def instantP (bf : Bool) (s : DState) (d : Nat) : Prop :=
  let s := { s with clock := d }
  let r0 : DState × List DEv := if bf then DState.bRun bFuel s d else (s, [])
  bRunP bFuel (DState.fireDue 1000 r0.1 d).1 d

/-- ... at every instant time passes through up to `t`, and afterwards nothing is due up to `t` -/
def advanceP (bf : Bool) : Nat → DState → Nat → Prop
  | 0, s, t => ∀ d, s.nextDeadline = some d → t < d
  | fuel + 1, s, t =>
    match s.nextDeadline with
    | none => True
    | some d => if d ≤ t then instantP bf s (max d s.clock) ∧ advanceP bf fuel (s.instant bf (max d s.clock)).1 t else True

/-- ... in a whole step -/
def stepP (s : DState) (ops : List DOp) (t : Nat) (bf hold : Bool) : Prop :=
  let t := max t s.clock
  let upTo := if hold then t - 1 else t
  advanceP bf advFuel s upTo ∧
  bRunP bFuel (({ (DState.advance bf advFuel s upTo).1 with clock := t }).inputs ops t).1 t

def DState.stepInP (s : DState) (i : DInput) : Prop := stepP { s with frOracle := i.fr } i.ops i.t i.bFirst i.hold

/-- every step of the run is punctual -/
def DState.runP : DState → List DInput → Prop
  | _, [] => True
  | s, i :: rest => s.stepInP i ∧ DState.runP (s.stepIn i).1 rest

section generic
variable {γ : Type} {I : DState → γ → Prop} {scan : γ → Nat → DEv → γ} {A : Nat → DEv → Prop}
  {Ad : InTid → Body → Addr → Prop} {T : Nat}

theorem bRun_s (ob : ObS I scan A Ad T) (fuel : Nat) (s : DState) (g : γ) (h : I s g)
    (ha : ∀ e ∈ (DState.bRun fuel s s.clock).2, A s.clock e) :
    I (DState.bRun fuel s s.clock).1 (scanE scan g s.clock (DState.bRun fuel s s.clock).2) ∧
    (DState.bRun fuel s s.clock).1.clock = s.clock := by
  induction fuel generalizing s g with
  | zero => exact ⟨h, rfl⟩
  | succ n ih =>
    unfold DState.bRun at ha ⊢
    cases hb : s.bStep s.clock with
    | none => exact ⟨h, rfl⟩
    | some r =>
      simp only [hb] at ha ⊢
      obtain ⟨h1, hc⟩ := ob.worker s g r h hb (fun e he => ha e (List.mem_append_left _ he))
      have := ih r.1 _ h1 (by rw [hc]; exact fun e he => ha e (List.mem_append_right _ he))
      rw [hc] at this
      rw [scanE_append]
      exact this

theorem fireDue_s (ob : ObS I scan A Ad T) (fuel : Nat) (s : DState) (g : γ) (h : I s g) :
    I (DState.fireDue fuel s s.clock).1 (scanE scan g s.clock (DState.fireDue fuel s s.clock).2) ∧
    (DState.fireDue fuel s s.clock).1.clock = s.clock := by
  induction fuel generalizing s g with
  | zero => exact ⟨h, rfl⟩
  | succ n ih =>
    unfold DState.fireDue
    cases hb : s.fireOne s.clock with
    | none => exact ⟨h, rfl⟩
    | some r =>
      simp only
      obtain ⟨h1, hc⟩ := ob.timer s g r h hb
      have := ih r.1 _ h1
      rw [hc] at this
      rw [scanE_append]
      exact this

theorem settle_s (ob : ObS I scan A Ad T) (s : DState) (g : γ) (h : I s g)
    (ha : ∀ e ∈ (s.settle s.clock).2, A s.clock e) (hp : bRunP bFuel s s.clock) :
    I (s.settle s.clock).1 (scanE scan g s.clock (s.settle s.clock).2) ∧
    (s.settle s.clock).1.clock = s.clock ∧ Boundary (s.settle s.clock).1 := by
  unfold DState.settle at ha ⊢
  simp only at ha ⊢
  obtain ⟨h1, c1⟩ := bRun_s ob bFuel s g h (fun e he => ha e (List.mem_append_left _ he))
  have h2 := ob.observe _ _ h1
  rw [c1] at h2
  have hf := hObserve_hframe (DState.bRun bFuel s s.clock).1 s.clock
  have hn := bStep_none _ _ hp
  rw [scanE_append]
  refine ⟨h2.1, h2.2, ⟨by rw [hf.1.ready]; exact hn.1, by rw [hf.1.phase, h2.2]; exact hn.2, hf.2⟩⟩

theorem minOpt_le_right (a : Option Nat) (b d : Nat) (h : minOpt a (some b) = some d) : d ≤ b := by
  cases a with
  | none => simp [minOpt] at h; omega
  | some x => simp [minOpt] at h; omega

theorem instant_s (ob : ObS I scan A Ad T) (bf : Bool) (s : DState) (g : γ) (d : Nat) (h : I s g) (hb : Boundary s)
    (hd : s.clock ≤ d) (hT : d ≤ T) (hdue : ∀ b, s.phase.due = some b → d ≤ max b s.clock)
    (hp : instantP bf s d) (ha : ∀ e ∈ (s.instant bf d).2, A d e) :
    I (s.instant bf d).1 (scanE scan g d (s.instant bf d).2) ∧ (s.instant bf d).1.clock = d ∧ Boundary (s.instant bf d).1 := by
  unfold DState.instant at ha ⊢
  unfold instantP at hp
  simp only at ha hp ⊢
  have h0 : I { s with clock := d } g := ob.clock s g d h hb hd hT hdue
  have hr0 : I (if bf then DState.bRun bFuel { s with clock := d } d else ({ s with clock := d }, [])).1
        (scanE scan g d (if bf then DState.bRun bFuel { s with clock := d } d else ({ s with clock := d }, [])).2) ∧
      (if bf then DState.bRun bFuel { s with clock := d } d else ({ s with clock := d }, [])).1.clock = d := by
    split
    · rename_i hbf
      refine bRun_s ob bFuel { s with clock := d } g h0 (fun e he => ha e ?_)
      simp only [hbf, if_true, List.append_assoc]
      exact List.mem_append_left _ he
    · exact ⟨h0, rfl⟩
  generalize (if bf then DState.bRun bFuel { s with clock := d } d else ({ s with clock := d }, [])) = r0 at hr0 ha hp
  obtain ⟨i0, c0⟩ := hr0
  have h1 := fireDue_s ob 1000 r0.1 _ i0
  rw [c0] at h1
  have h2 := settle_s ob (DState.fireDue 1000 r0.1 d).1 _ h1.1
    (by rw [h1.2]; exact fun e he => ha e (List.mem_append_right _ he)) (by rw [h1.2]; exact hp)
  rw [h1.2] at h2
  rw [scanE_append, scanE_append]
  exact h2

theorem mem_stamp (t : Nat) (evs : List DEv) (e : DEv) (h : e ∈ evs) : (t, e) ∈ stamp t evs := by
  unfold stamp; exact List.mem_map.mpr ⟨e, h, rfl⟩

theorem advance_s (ob : ObS I scan A Ad T) (bf : Bool) (fuel : Nat) (s : DState) (g : γ) (t : Nat) (h : I s g)
    (hb : Boundary s) (hcT : s.clock ≤ T) (htT : t ≤ T) (hp : advanceP bf fuel s t)
    (ha : ∀ e ∈ (DState.advance bf fuel s t).2, A e.1 e.2) :
    I (DState.advance bf fuel s t).1 (scanS scan g (DState.advance bf fuel s t).2) ∧
    Boundary (DState.advance bf fuel s t).1 ∧ s.clock ≤ (DState.advance bf fuel s t).1.clock ∧
    (DState.advance bf fuel s t).1.clock ≤ max s.clock t ∧
    ∀ d, (DState.advance bf fuel s t).1.nextDeadline = some d → t < d := by
  induction fuel generalizing s g with
  | zero => exact ⟨h, hb, Nat.le_refl _, Nat.le_max_left _ _, hp⟩
  | succ n ih =>
    unfold DState.advance at ha ⊢
    unfold advanceP at hp
    cases hnd : s.nextDeadline with
    | none => exact ⟨h, hb, Nat.le_refl _, Nat.le_max_left _ _, by simp [hnd]⟩
    | some d =>
      simp only [hnd] at ha hp ⊢
      by_cases hdt : d ≤ t
      · simp only [hdt, if_true] at ha hp ⊢
        have hdue : ∀ b, s.phase.due = some b → max d s.clock ≤ max b s.clock := by
          intro b hbd
          have := nextDeadline_eq s
          rw [hnd, hbd] at this
          have := minOpt_le_right _ _ _ this.symm
          omega
        obtain ⟨h1, c1, b1⟩ := instant_s ob bf s g (max d s.clock) h hb (Nat.le_max_right _ _) (by omega) hdue hp.1
          (fun e he => ha (max d s.clock, e) (List.mem_append_left _ (mem_stamp _ _ _ he)))
        obtain ⟨h2, b2, c2, c3, c4⟩ := ih _ _ h1 b1 (by rw [c1]; omega) hp.2 (fun e he => ha e (List.mem_append_right _ he))
        rw [c1] at c2 c3
        rw [scanS_append, scanS_stamp]
        refine ⟨h2, b2, ?_, ?_, c4⟩
        · show s.clock ≤ (DState.advance bf n _ t).1.clock; omega
        · show (DState.advance bf n _ t).1.clock ≤ _; omega
      · simp only [hdt, if_false] at ha hp ⊢
        exact ⟨h, hb, Nat.le_refl _, Nat.le_max_left _ _, by intro d' hd'; rw [hnd] at hd'; cases hd'; omega⟩

theorem input_s (ob : ObS I scan A Ad T) (s : DState) (g : γ) (op : DOp) (h : I s g)
    (hd : ∀ tid body src, op = .datagram tid body src → Ad tid body src)
    (ha : ∀ e ∈ (s.input op s.clock).2, A s.clock e) :
    I (s.input op s.clock).1 (scanE scan g s.clock (s.input op s.clock).2) ∧ (s.input op s.clock).1.clock = s.clock := by
  cases op with
  | adv => exact ⟨h, rfl⟩
  | cmd c => exact ob.command s g c h
  | datagram tid body src => exact ob.datagram s g tid body src h (hd tid body src rfl)
  | garbage src => exact ⟨ob.garbage s g src h, rfl⟩
  | worker => exact bRun_s ob bFuel s g h ha
  | timer1 =>
    show I ((s.fireOne s.clock).getD (s, [])).1 (scanE scan g s.clock ((s.fireOne s.clock).getD (s, [])).2) ∧
      ((s.fireOne s.clock).getD (s, [])).1.clock = s.clock
    cases hf : s.fireOne s.clock with
    | none => exact ⟨h, rfl⟩
    | some r => exact ob.timer s g r h hf
  | observe => exact ob.observe s g h

theorem inputs_s (ob : ObS I scan A Ad T) (ops : List DOp) (s : DState) (g : γ) (h : I s g)
    (hd : ∀ tid body src, .datagram tid body src ∈ ops → Ad tid body src)
    (ha : ∀ e ∈ (s.inputs ops s.clock).2, A s.clock e) :
    I (s.inputs ops s.clock).1 (scanE scan g s.clock (s.inputs ops s.clock).2) ∧ (s.inputs ops s.clock).1.clock = s.clock := by
  induction ops generalizing s g with
  | nil => exact ⟨h, rfl⟩
  | cons op rest ih =>
    unfold DState.inputs at ha ⊢
    simp only at ha ⊢
    obtain ⟨h1, c1⟩ := input_s ob s g op h (fun tid body src he => hd tid body src (he ▸ List.mem_cons_self))
      (fun e he => ha e (List.mem_append_left _ he))
    have := ih _ _ h1 (fun tid body src he => hd tid body src (List.mem_cons_of_mem _ he))
      (by rw [c1]; exact fun e he => ha e (List.mem_append_right _ he))
    rw [c1] at this
    rw [scanE_append]
    exact this

theorem minOpt_some_right (a : Option Nat) (b : Nat) : ∃ d, minOpt a (some b) = some d ∧ d ≤ b := by
  cases a with
  | none => exact ⟨b, rfl, Nat.le_refl _⟩
  | some x => exact ⟨min x b, rfl, Nat.min_le_right _ _⟩

theorem stepG_s (s : DState) (t : Nat) (ob : ObS I scan A Ad (max t s.clock)) (g : γ) (ops : List DOp) (bf hold : Bool)
    (h : I s g) (hb : Boundary s) (hp : stepP s ops t bf hold)
    (hd : ∀ tid body src, .datagram tid body src ∈ ops → Ad tid body src)
    (ha : ∀ e ∈ (s.stepG ops t bf hold).2, A e.1 e.2) :
    I (s.stepG ops t bf hold).1 (scanS scan g (s.stepG ops t bf hold).2) ∧ Boundary (s.stepG ops t bf hold).1 ∧
    (s.stepG ops t bf hold).1.clock = max t s.clock := by
  unfold DState.stepG at ha ⊢
  unfold stepP at hp
  simp only at ha hp ⊢
  generalize hu : (if hold = true then max t s.clock - 1 else max t s.clock) = upTo at ha hp ⊢
  have hup : upTo ≤ max t s.clock ∧ max t s.clock ≤ upTo + 1 := by rw [← hu]; split <;> omega
  obtain ⟨h1, b1, c1, c2, c3⟩ := advance_s ob bf advFuel s g upTo h hb (Nat.le_max_right _ _) hup.1 hp.1
    (fun e he => ha e (List.mem_append_left _ he))
  have hle : (DState.advance bf advFuel s upTo).1.clock ≤ max t s.clock := by omega
  have hdue : ∀ b, (DState.advance bf advFuel s upTo).1.phase.due = some b →
      max t s.clock ≤ max b (DState.advance bf advFuel s upTo).1.clock := by
    intro b hbd
    obtain ⟨d, hd1, hd2⟩ := minOpt_some_right ((DState.advance bf advFuel s upTo).1.h.timer.earliest.map (·.deadline)) b
    have := c3 d (by rw [nextDeadline_eq, hbd]; exact hd1)
    omega
  have h2 := ob.clock _ _ (max t s.clock) h1 b1 hle (Nat.le_refl _) hdue
  generalize hs1 : ({ (DState.advance bf advFuel s upTo).1 with clock := max t s.clock } : DState) = s1 at ha hp h2 ⊢
  have hc1 : s1.clock = max t s.clock := by rw [← hs1]
  rw [← hc1] at ha hp ⊢
  have h3 := inputs_s ob ops s1 _ h2 hd
    (fun e he => ha (_, e) (List.mem_append_right _ (mem_stamp _ _ _ (List.mem_append_left _ he))))
  have h4 := settle_s ob _ _ h3.1
    (by rw [h3.2]; exact fun e he => ha (_, e) (List.mem_append_right _ (mem_stamp _ _ _ (List.mem_append_right _ he))))
    (by rw [h3.2]; exact hp.2)
  rw [h3.2] at h4
  rw [scanS_append, scanS_stamp, scanE_append]
  exact ⟨h4.1, h4.2.2, h4.2.1⟩

end generic

end Btdht
