import Btdht.Proofs.BootFrame
/-
C15 timed clause, part 4: the progress invariant. "Bootstrapped is published and observed by `T2`"
is proved as a safety property: as long as no completion was observed, the worker's phase comes
with an absolute bound on the instant by which it is left, all bounds ≤ `T2`.
-/
namespace Btdht

/-- the longest back-off sleep: `2^9` s -/
def retryMax : Nat := Constants.BOOTSTRAP_RETRY_BASE ^ Constants.BOOTSTRAP_RETRY_MAX_EXP * 1000000000
/-- first-round sends that are not preceded by the throttle sleep -/
def freeSends : Nat := Constants.BOOTSTRAP_THROTTLE_AFTER + 1
/-- the longest a first round with `n` contacts lasts -/
def firstRoundMax (n : Nat) : Nat := Constants.INITIAL_TIMEOUT_ns + (n - freeSends) * throttleDelay
/-- the longest the 160 bucket rounds last -/
def sweepMax : Nat := maxBuckets * Constants.NODE_TIMEOUT_ns

/-- parameters: the responsive contact, the instant from which it is responsive, the number of
distinct node contacts, the instant of the current step -/
structure LP where
  c : Addr
  t0 : Nat
  N : Nat
  T : Nat

/-- the latest instant at which an attempt begins that only asks `c` after `t0` -/
def LP.T1 (P : LP) : Nat := P.t0 + firstRoundMax P.N + retryMax
/-- the latest instant of the completion -/
def LP.T2 (P : LP) : Nat := P.T1 + firstRoundMax P.N + sweepMax

/-- the first round is over by `lim - K` -/
def RoundEnds (clock : Nat) (nl : List Addr) (sl : Option Nat) (count : Nat) (active : List Pending) (K lim : Nat) : Prop :=
  clock + K ≤ lim ∧ (∀ p ∈ active, p.deadline + K ≤ lim) ∧
  (nl ≠ [] → sl.getD clock + ((nl.length - (if sl.isSome then 1 else 0)) - (freeSends - count)) * throttleDelay
    + Constants.INITIAL_TIMEOUT_ns + K ≤ lim)

/-- this first round was begun after `t0` and cannot end without a response: it has got one, or `c`
is still to be asked, or the exchange with `c` is under way and cannot time out in this step -/
def GoodC (P : LP) (clock : Nat) (nl : List Addr) (active : List Pending) (responses : Nat) : Prop :=
  P.t0 < clock ∧ (1 ≤ responses ∨ P.c ∈ nl ∨
    ∃ p ∈ active, p.addr = P.c ∧ P.T < p.deadline ∧ P.t0 + Constants.INITIAL_TIMEOUT_ns < p.deadline)

/-- what is known about the worker as long as no completion was observed -/
def PhaseOk (P : LP) (s : DState) : Prop :=
  match s.phase with
  | .awaitStart => False
  | .forever => False
  | .sleeping w => w ≤ P.T1 ∧ s.clock ≤ P.T1 ∧ s.pub ≠ .bootstrapped
  | .initial _ rl nl sl count active responses stopAt =>
    s.pub ≠ .bootstrapped ∧ rl = [] ∧ 1 ≤ stopAt ∧ (nl = [] → sl = none) ∧
    (∀ t, sl = some t → Constants.BOOTSTRAP_THROTTLE_AFTER < count ∧ s.clock ≤ t) ∧
    ((GoodC P s.clock nl active responses ∧ RoundEnds s.clock nl sl count active sweepMax P.T2) ∨
      RoundEnds s.clock nl sl count active retryMax P.T1)
  | .bucketStart k => k ≤ maxBuckets ∧ s.pub = .bootstrapping ∧ s.clock + (maxBuckets - k) * Constants.NODE_TIMEOUT_ns ≤ P.T2
  | .buckets k a => k < maxBuckets ∧ s.pub = .bootstrapping ∧ s.clock + (maxBuckets - 1 - k) * Constants.NODE_TIMEOUT_ns ≤ P.T2 ∧
    ∀ p ∈ a, p.deadline + (maxBuckets - 1 - k) * Constants.NODE_TIMEOUT_ns ≤ P.T2
  | .bootstrapped ck => s.pub = .bootstrapped ∧ s.seenVersion < s.pubVersion ∧ s.clock ≤ P.T2 ∧ s.clock < ck

/-- ghost state: the instant of the first observed completion -/
def liveScan (g : Option Nat) (t : Nat) (e : DEv) : Option Nat :=
  match g, e with
  | none, .bstate => some t
  | g, _ => g

/-- the progress invariant -/
structure Live (P : LP) (s : DState) (g : Option Nat) : Prop where
  noRouters : s.cfg.routersGiven = false ∧ s.cfg.routers = []
  contacts : (dedup s.cfg.nodes).length = P.N ∧ P.c ∈ dedup s.cfg.nodes
  ver : s.seenVersion ≤ s.pubVersion
  clk : s.clock ≤ P.T
  rdy : P.t0 < s.clock → ∀ e ∈ s.ready, e.1.addr = P.c → ∃ r, e.2.1 = .resp r
  done : ∀ t, g = some t → t ≤ P.T2
  live : g = none → PhaseOk P s

theorem setPub_phase' (s : DState) (p : BPub) : (s.setPub p).1.phase = s.phase ∧ (s.setPub p).1.pub = p ∧
    (s.pub ≠ p → (s.setPub p).1.pubVersion = s.pubVersion + 1) ∧ (s.setPub p).1.bseq = s.bseq := by
  unfold DState.setPub
  split
  · rename_i h; exact ⟨rfl, h, fun hn => absurd h hn, rfl⟩
  · exact ⟨rfl, rfl, fun _ => rfl, rfl⟩

theorem mem_dedup_ne_nil (l : List Addr) (a : Addr) (h : a ∈ dedup l) : l ≠ [] := by
  intro hl; subst hl; simp [dedup] at h

/-- without routers an attempt begins with a first round to the distinct node contacts -/
theorem beginAttempt_nodes (s : DState) (now : Nat) (hr : s.cfg.routersGiven = false ∧ s.cfg.routers = [])
    (hn : s.cfg.nodes ≠ []) :
    (s.beginAttempt now).1.pub = .initialContact ∧ ∃ tid, (s.beginAttempt now).1.phase =
      .initial tid [] (dedup s.cfg.nodes) none 0 [] 0 (min (dedup s.cfg.nodes).length Constants.MAX_INITIAL_RESPONSES) := by
  unfold DState.beginAttempt
  have hne : s.cfg.nodes.isEmpty = false := by cases h : s.cfg.nodes with | nil => exact absurd h hn | cons a b => rfl
  have hc : s.cfg.contacts = ([], dedup s.cfg.nodes) := by
    unfold BConfig.contacts
    simp only [hr.2]
    have : dedup ([] : List Addr) = [] := rfl
    rw [this]
    simp
  simp only [hr.1, hne, hc]
  simp [(setPub_phase' _ _).2.1]

theorem retryMax_val : retryMax = 512000000000 := by decide
theorem throttleDelay_val : throttleDelay = 500000000 := by decide
theorem freeSends_val : freeSends = 9 := by decide
theorem sweepMax_val : sweepMax = 80000000000 := by decide
theorem maxBuckets_val : maxBuckets = 160 := by decide
theorem initialTimeout_val : Constants.INITIAL_TIMEOUT_ns = 2500000000 := by decide
theorem nodeTimeout_val : Constants.NODE_TIMEOUT_ns = 500000000 := by decide
theorem throttleAfter_val : Constants.BOOTSTRAP_THROTTLE_AFTER = 8 := by decide

theorem retryDelay_le (a : Nat) : retryDelay a ≤ retryMax := by
  unfold retryDelay retryMax
  apply Nat.mul_le_mul_right
  apply Nat.pow_le_pow_right (by decide)
  exact Nat.min_le_right _ _

/-- an attempt begun at `now ≤ T1` meets its bound: it is a good one when begun after `t0` -/
theorem phaseOk_begin (P : LP) (s : DState) (g : Option Nat) (h : Live P s g) (hclk : s.clock ≤ P.T1) :
    PhaseOk P (s.beginAttempt s.clock).1 := by
  have hn := mem_dedup_ne_nil _ _ h.contacts.2
  obtain ⟨hpb, tid, hph⟩ := beginAttempt_nodes s s.clock h.noRouters hn
  have hcl := (beginAttempt_cr s s.clock).1
  unfold PhaseOk
  rw [hph]
  dsimp only
  have hN : 1 ≤ (dedup s.cfg.nodes).length := List.length_pos_of_mem h.contacts.2
  refine ⟨by rw [hpb]; simp, rfl, ?_, fun _ => rfl, ?_, ?_⟩
  · have : Constants.MAX_INITIAL_RESPONSES = 8 := rfl
    omega
  · intro t ht; cases ht
  · rw [hcl]
    have hne : dedup s.cfg.nodes ≠ [] := List.ne_nil_of_length_pos hN
    by_cases ht : P.t0 < s.clock
    · left
      refine ⟨⟨ht, Or.inr (Or.inl h.contacts.2)⟩, ?_⟩
      unfold RoundEnds
      simp only [LP.T2, LP.T1, firstRoundMax, h.contacts.1, Option.getD_none, Option.isSome_none] at hclk ⊢
      refine ⟨by omega, by simp, fun _ => ?_⟩
      simp only [Bool.false_eq_true, if_false, freeSends_val, throttleDelay_val] at hclk ⊢
      omega
    · right
      unfold RoundEnds
      simp only [LP.T1, firstRoundMax, h.contacts.1, Option.getD_none, Option.isSome_none] at hclk ⊢
      refine ⟨by omega, by simp, fun _ => ?_⟩
      simp only [Bool.false_eq_true, if_false, freeSends_val, throttleDelay_val] at hclk ⊢
      omega

/-- the end of a first round: without a response the back-off sleep ends by `T1`; otherwise the
bucket rounds begin -/
theorem phaseOk_finishInitial (P : LP) (s : DState) (r : Nat) (rem : List Pending)
    (hr : r = 0 → s.clock + retryMax ≤ P.T1) (hs : s.clock + sweepMax ≤ P.T2) :
    PhaseOk P (s.finishInitial r rem s.clock).1 := by
  unfold DState.finishInitial
  split
  · rename_i h0
    have hsp := (setPub_cr s .idle).1
    unfold PhaseOk
    dsimp only
    have := retryDelay_le (s.setPub .idle).1.attempt
    have := hr h0
    exact ⟨by omega, by omega, by rw [(setPub_phase' s .idle).2.1]; simp⟩
  · have hsp := setPub_phase' s .bootstrapping
    unfold PhaseOk
    dsimp only
    refine ⟨Nat.zero_le _, hsp.2.1, ?_⟩
    have hc := (setPub_cr s .bootstrapping).1
    simp only [sweepMax, Nat.sub_zero] at hs ⊢
    omega

theorem pickFirstRound_nodes (o nl : List Addr) (dst : Addr) (o' rl' nl' : List Addr)
    (h : pickFirstRound o [] nl = some (dst, o', rl', nl')) :
    dst ∈ nl ∧ rl' = [] ∧ nl' = nl.filter (· ≠ dst) := by
  unfold pickFirstRound at h
  cases nl with
  | nil => simp at h
  | cons d rest =>
    simp only [List.nil_append, Option.some.injEq, Prod.mk.injEq] at h
    obtain ⟨h1, _, h3, h4⟩ := h
    refine ⟨?_, ?_, ?_⟩
    · rw [← h1]
      cases o with
      | nil => simp
      | cons x xs =>
        simp only
        split
        · rename_i hc; simpa using hc
        · simp
    · rw [← h3]; rfl
    · rw [← h4, ← h1]

theorem length_filter_ne_lt (l : List Addr) (a : Addr) (h : a ∈ l) : (l.filter (· ≠ a)).length + 1 ≤ l.length := by
  have : (l.filter (· ≠ a)).length < l.length := List.length_filter_lt_length_iff_exists.mpr ⟨a, h, by simp⟩
  omega

/-- a first-round send keeps the bound on the end of the round -/
theorem roundEnds_send (clock : Nat) (nl nl' : List Addr) (sl : Option Nat) (count count' : Nat) (active active' : List Pending)
    (K lim : Nat) (h : RoundEnds clock nl sl count active K lim) (hne : nl ≠ [])
    (hlen : nl'.length + 1 ≤ nl.length) (hcount : count' ≤ count + 1)
    (hsl : (sl = none ∧ count ≤ Constants.BOOTSTRAP_THROTTLE_AFTER) ∨ (sl = some clock ∧ Constants.BOOTSTRAP_THROTTLE_AFTER < count))
    (hact : ∀ p ∈ active', p ∈ active ∨ p.deadline = clock + Constants.INITIAL_TIMEOUT_ns) :
    RoundEnds clock nl' none count' active' K lim := by
  obtain ⟨h1, h2, h3⟩ := h
  have h3 := h3 hne
  have hX : clock + (nl'.length - (freeSends - count')) * throttleDelay + Constants.INITIAL_TIMEOUT_ns + K ≤ lim := by
    simp only [freeSends_val, throttleAfter_val] at h3 hsl ⊢
    rcases hsl with ⟨hs, hc⟩ | ⟨hs, hc⟩
    · subst hs
      simp only [Option.getD_none, Option.isSome_none, Bool.false_eq_true, if_false, Nat.sub_zero] at h3
      have hb : nl'.length - (9 - count') ≤ nl.length - (9 - count) := by omega
      have := Nat.mul_le_mul_right throttleDelay hb
      omega
    · subst hs
      simp only [Option.getD_some, Option.isSome_some, if_true] at h3
      have hb : nl'.length - (9 - count') ≤ nl.length - 1 - (9 - count) := by omega
      have := Nat.mul_le_mul_right throttleDelay hb
      omega
  refine ⟨h1, ?_, ?_⟩
  · intro p hp
    rcases hact p hp with hp | hp
    · exact h2 p hp
    · rw [hp]; omega
  · intro _
    simp only [Option.getD_none, Option.isSome_none, Bool.false_eq_true, if_false, Nat.sub_zero]
    exact hX

/-- assumption on the events of the current step: a first-round query to `c` sent after `t0` does
not fail, and the step does not move time beyond its timeout -/
def LiveA (P : LP) (now : Nat) (e : DEv) : Prop :=
  ∀ tid id ok, e = .send P.c (.sym tid) (.req (.findNode id id none)) ok → P.t0 < now →
    ok = true ∧ P.T < now + Constants.INITIAL_TIMEOUT_ns

/-- assumption on the datagrams of the current step: after `t0`, `c` sends no error messages -/
def LiveAd (P : LP) (_tid : InTid) (body : Body) (src : Addr) : Prop :=
  P.t0 < P.T → src = P.c → ∀ code msg, body ≠ .err code msg

theorem phaseOk_send (P : LP) (s : DState) (tid : Tid) (nl : List Addr) (sl : Option Nat) (count : Nat)
    (active : List Pending) (resp stopAt : Nat) (r : DState × List DEv)
    (hph : s.phase = .initial tid [] nl sl count active resp stopAt) (hok : PhaseOk P s) (hne : nl ≠ [])
    (hsl : (sl = none ∧ count ≤ Constants.BOOTSTRAP_THROTTLE_AFTER) ∨ (∃ t, sl = some t ∧ t ≤ s.clock))
    (hr : s.firstRoundSend tid [] nl count active resp stopAt s.clock = some r)
    (ha : ∀ e ∈ r.2, LiveA P s.clock e) : PhaseOk P r.1 := by
  unfold PhaseOk at hok
  rw [hph] at hok
  dsimp only at hok
  obtain ⟨hpb, _, hst, _, hslc, hre⟩ := hok
  have hsl' : (sl = none ∧ count ≤ Constants.BOOTSTRAP_THROTTLE_AFTER) ∨ (sl = some s.clock ∧ Constants.BOOTSTRAP_THROTTLE_AFTER < count) := by
    rcases hsl with h | ⟨t, ht, hle⟩
    · exact Or.inl h
    · have := hslc t ht
      have : t = s.clock := by omega
      subst this
      exact Or.inr ⟨ht, (hslc _ ht).1⟩
  unfold DState.firstRoundSend at hr
  split at hr
  · simp at hr
  · rename_i dst o' rl' nl' hpick
    obtain ⟨hmem, hrl, hnl⟩ := pickFirstRound_nodes _ _ _ _ _ _ hpick
    simp only [Option.some.injEq] at hr
    subst hr
    have hlen := length_filter_ne_lt nl dst hmem
    rw [← hnl] at hlen
    unfold PhaseOk
    dsimp only
    refine ⟨hpb, hrl, hst, fun _ => rfl, ?_, ?_⟩
    · intro t ht; cases ht
    have hact : ∀ p ∈ (if (!s.h.failAddrs.contains dst) = true then active ++ [(⟨dst, tid, s.clock + Constants.INITIAL_TIMEOUT_ns⟩ : Pending)] else active),
        p ∈ active ∨ p.deadline = s.clock + Constants.INITIAL_TIMEOUT_ns := by
      intro p hp
      split at hp
      · rcases List.mem_append.mp hp with hp | hp
        · exact Or.inl hp
        · simp only [List.mem_singleton] at hp; subst hp; exact Or.inr rfl
      · exact Or.inl hp
    have hcount : (if (!s.h.failAddrs.contains dst) = true then count + 1 else count) ≤ count + 1 := by split <;> omega
    rcases hre with ⟨hg, hre⟩ | hre
    · left
      refine ⟨?_, roundEnds_send _ _ _ _ _ _ _ _ _ _ hre hne hlen hcount hsl' hact⟩
      obtain ⟨ht0, hg⟩ := hg
      refine ⟨ht0, ?_⟩
      rcases hg with hg | hg | ⟨p, hp, hpc, hpT, hpd⟩
      · exact Or.inl hg
      · by_cases hd : dst = P.c
        · right; right
          subst hd
          have := ha _ (List.mem_singleton.mpr rfl) tid s.h.selfId _ rfl ht0
          refine ⟨⟨P.c, tid, s.clock + Constants.INITIAL_TIMEOUT_ns⟩, ?_, rfl, this.2, ?_⟩
          · rw [this.1]; simp
          · show P.t0 + _ < s.clock + _; omega
        · right; left
          rw [hnl]
          exact List.mem_filter.mpr ⟨hg, by simpa using fun h => hd h.symm⟩
      · right; right
        refine ⟨p, ?_, hpc, hpT, hpd⟩
        split
        · exact List.mem_append_left _ hp
        · exact hp
    · right
      exact roundEnds_send _ _ _ _ _ _ _ _ _ _ hre hne hlen hcount hsl' hact

theorem roundEnds_mono (clock : Nat) (nl : List Addr) (sl : Option Nat) (count : Nat) (active active' : List Pending) (K lim : Nat)
    (h : RoundEnds clock nl sl count active K lim) (hsub : ∀ p ∈ active', p ∈ active) :
    RoundEnds clock nl sl count active' K lim :=
  ⟨h.1, fun p hp => h.2.1 p (hsub p hp), h.2.2⟩

theorem roundEnds_throttle (clock : Nat) (nl : List Addr) (count : Nat) (active : List Pending) (K lim : Nat)
    (h : RoundEnds clock nl none count active K lim) (hc : Constants.BOOTSTRAP_THROTTLE_AFTER < count) :
    RoundEnds clock nl (some (clock + throttleDelay)) count active K lim := by
  refine ⟨h.1, h.2.1, fun hne => ?_⟩
  have h3 := h.2.2 hne
  have hl : 1 ≤ nl.length := List.length_pos_iff.mpr hne
  simp only [freeSends_val, throttleAfter_val, Option.getD_none, Option.getD_some, Option.isSome_none, Option.isSome_some,
    Bool.false_eq_true, if_false, if_true, Nat.sub_zero] at h3 hc ⊢
  have h9 : 9 - count = 0 := by omega
  rw [h9, Nat.sub_zero] at h3 ⊢
  have : nl.length * throttleDelay = (nl.length - 1) * throttleDelay + throttleDelay := by
    have : nl.length = (nl.length - 1) + 1 := by omega
    conv => lhs; rw [this, Nat.add_mul, Nat.one_mul]
  omega

/-- dropping exchanges that timed out keeps what is known about a first round: the exchange with
`c` cannot time out in this step -/
theorem goodC_filter (P : LP) (clock : Nat) (nl : List Addr) (active : List Pending) (resp : Nat)
    (h : GoodC P clock nl active resp) (hc : clock ≤ P.T) :
    GoodC P clock nl (active.filter (fun p => clock < p.deadline)) resp := by
  obtain ⟨h0, h⟩ := h
  refine ⟨h0, ?_⟩
  rcases h with h | h | ⟨p, hp, h1, h2, h3⟩
  · exact Or.inl h
  · exact Or.inr (Or.inl h)
  · exact Or.inr (Or.inr ⟨p, List.mem_filter.mpr ⟨hp, by simp; omega⟩, h1, h2, h3⟩)

theorem phaseOk_main_initial (P : LP) (s : DState) (tid : Tid) (rl nl : List Addr) (sl : Option Nat) (count : Nat)
    (active : List Pending) (resp stopAt : Nat) (r : DState × List DEv) (hT : s.clock ≤ P.T)
    (hph : s.phase = .initial tid rl nl sl count active resp stopAt) (hok : PhaseOk P s)
    (hb : s.bStepMain s.clock = some r) (ha : ∀ e ∈ r.2, LiveA P s.clock e) : PhaseOk P r.1 := by
  have hok0 := hok
  unfold PhaseOk at hok
  rw [hph] at hok
  dsimp only at hok
  obtain ⟨hpb, hrl, hst, hnl, hslc, hre⟩ := hok
  subst hrl
  unfold DState.bStepMain at hb
  simp only [hph] at hb
  split at hb
  · -- exchanges timed out
    simp only [Option.some.injEq] at hb; subst hb
    unfold PhaseOk
    dsimp only
    refine ⟨hpb, rfl, hst, hnl, hslc, ?_⟩
    rcases hre with ⟨hg, hre⟩ | hre
    · exact Or.inl ⟨goodC_filter P _ _ _ _ hg hT, roundEnds_mono _ _ _ _ _ _ _ _ hre (fun p hp => (List.mem_filter.mp hp).1)⟩
    · exact Or.inr (roundEnds_mono _ _ _ _ _ _ _ _ hre (fun p hp => (List.mem_filter.mp hp).1))
  · split at hb
    · rename_i hemp
      have hnl0 : nl = [] := by simpa using hemp
      split at hb
      · rename_i hact
        have hact0 : active = [] := by simpa using hact
        simp only [Option.some.injEq] at hb; subst hb
        subst hnl0 hact0
        refine phaseOk_finishInitial P s resp [] (fun h0 => ?_) ?_
        · rcases hre with ⟨⟨_, hg⟩, _⟩ | hre
          · rcases hg with hg | hg | ⟨p, hp, _⟩
            · omega
            · simp at hg
            · simp at hp
          · exact hre.1
        · rcases hre with ⟨_, hre⟩ | hre
          · exact hre.1
          · have := hre.1; simp only [LP.T2]; omega
      · simp at hb
    · rename_i hemp
      have hne : nl ≠ [] := by intro h; subst h; simp at hemp
      split at hb
      · rename_i t
        split at hb
        · rename_i hle
          exact phaseOk_send P s tid nl _ count active resp stopAt r hph hok0 hne (Or.inr ⟨t, rfl, hle⟩) hb ha
        · simp at hb
      · split at hb
        · rename_i hc
          simp only [Option.some.injEq] at hb; subst hb
          unfold PhaseOk
          dsimp only
          refine ⟨hpb, rfl, hst, fun h => absurd h hne, ?_, ?_⟩
          · intro t ht
            simp only [Option.some.injEq] at ht
            exact ⟨hc, by omega⟩
          · rcases hre with ⟨hg, hre⟩ | hre
            · exact Or.inl ⟨hg, roundEnds_throttle _ _ _ _ _ _ hre hc⟩
            · exact Or.inr (roundEnds_throttle _ _ _ _ _ _ hre hc)
        · rename_i hc
          exact phaseOk_send P s tid nl _ count active resp stopAt r hph hok0 hne (Or.inl ⟨rfl, by omega⟩) hb ha

theorem bucketSend_spec (target : Bytes) (now : Nat) (acc : DState × List Pending × List DEv) (hd : Handle) (pub : BPub)
    (h : acc.1.pub = pub ∧ ∀ p ∈ acc.2.1, p.deadline = now + Constants.NODE_TIMEOUT_ns) :
    (bucketSend target now acc hd).1.pub = pub ∧
    ∀ p ∈ (bucketSend target now acc hd).2.1, p.deadline = now + Constants.NODE_TIMEOUT_ns := by
  obtain ⟨s, active, evs⟩ := acc
  unfold bucketSend
  simp only
  split
  · refine ⟨h.1, fun p hp => ?_⟩
    rcases List.mem_append.mp hp with hp | hp
    · exact h.2 p hp
    · simp only [List.mem_singleton] at hp; subst hp; rfl
  · exact ⟨h.1, h.2⟩

theorem bucketRound_spec (s : DState) (k now : Nat) :
    (s.bucketRound k now).1.pub = s.pub ∧
    ((s.bucketRound k now).1.phase = .bucketStart (k + 1) ∨
     ∃ a, (s.bucketRound k now).1.phase = .buckets k a ∧ ∀ p ∈ a, p.deadline = now + Constants.NODE_TIMEOUT_ns) := by
  unfold DState.bucketRound
  have hf := foldl_pred (fun (acc : DState × List Pending × List DEv) =>
      acc.1.pub = s.pub ∧ ∀ p ∈ acc.2.1, p.deadline = now + Constants.NODE_TIMEOUT_ns)
    (bucketSend (flipBit s.h.selfId k) now) (fun b a hb => bucketSend_spec _ now b a s.pub hb) (s.bucketPicks k now) (s, [], [])
    ⟨rfl, by simp⟩
  simp only
  split
  · exact ⟨hf.1, Or.inl rfl⟩
  · exact ⟨hf.1, Or.inr ⟨_, rfl, hf.2⟩⟩

theorem phaseOk_bucketRound (P : LP) (s : DState) (k : Nat) (hph : s.phase = .bucketStart k) (hok : PhaseOk P s)
    (hk : k < maxBuckets) : PhaseOk P (s.bucketRound k s.clock).1 := by
  unfold PhaseOk at hok
  rw [hph] at hok
  dsimp only at hok
  obtain ⟨_, hpub, hclk⟩ := hok
  obtain ⟨hp, hphase⟩ := bucketRound_spec s k s.clock
  have hc := (bucketRound_cr s k s.clock).1
  have hmul : (maxBuckets - k) * Constants.NODE_TIMEOUT_ns = (maxBuckets - 1 - k) * Constants.NODE_TIMEOUT_ns + Constants.NODE_TIMEOUT_ns := by
    have : maxBuckets - k = (maxBuckets - 1 - k) + 1 := by omega
    rw [this, Nat.add_mul, Nat.one_mul]
  have h1 : maxBuckets - (k + 1) = maxBuckets - 1 - k := by omega
  unfold PhaseOk
  rcases hphase with hphase | ⟨a, hphase, ha⟩
  · rw [hphase]
    dsimp only
    refine ⟨by omega, hp.trans hpub, ?_⟩
    rw [hc, h1]; omega
  · rw [hphase]
    dsimp only
    refine ⟨hk, hp.trans hpub, by rw [hc]; omega, fun p hpa => ?_⟩
    rw [ha p hpa]; omega

/-- without routers the end of the bucket rounds publishes `Bootstrapped`, whatever the table holds -/
theorem phaseOk_sweepDone (P : LP) (s : DState) (k : Nat) (hph : s.phase = .bucketStart k) (hok : PhaseOk P s)
    (hk : ¬ k < maxBuckets) (hr : s.cfg.routers = []) (hver : s.seenVersion ≤ s.pubVersion) :
    PhaseOk P (s.sweepDone s.clock).1 := by
  unfold PhaseOk at hok
  rw [hph] at hok
  dsimp only at hok
  obtain ⟨hk2, hpub, hclk⟩ := hok
  have hk3 : maxBuckets - k = 0 := by omega
  rw [hk3, Nat.zero_mul, Nat.add_zero] at hclk
  unfold DState.sweepDone
  have hd : (dedup s.cfg.routers).isEmpty = true := by rw [hr]; rfl
  simp only [hd, Bool.not_true, Bool.and_false, Bool.false_eq_true, if_false]
  have hsp := setPub_phase' s .bootstrapped
  have hcr := setPub_cr s .bootstrapped
  have hseen : (s.setPub .bootstrapped).1.seenVersion = s.seenVersion := by unfold DState.setPub; split <;> rfl
  have hv := hsp.2.2.1 (by rw [hpub]; simp)
  unfold PhaseOk
  dsimp only
  refine ⟨hsp.2.1, by rw [hseen, hv]; omega, by rw [hcr.1]; exact hclk, ?_⟩
  have : 0 < Constants.PERIODIC_CHECK_TIMEOUT_ns := by decide
  rw [hcr.1]; omega

theorem phaseOk_main_buckets (P : LP) (s : DState) (k : Nat) (active : List Pending) (r : DState × List DEv)
    (hph : s.phase = .buckets k active) (hok : PhaseOk P s) (hb : s.bStepMain s.clock = some r) : PhaseOk P r.1 := by
  unfold PhaseOk at hok
  rw [hph] at hok
  dsimp only at hok
  obtain ⟨hk, hpub, hclk, hdl⟩ := hok
  unfold DState.bStepMain at hb
  simp only [hph] at hb
  split at hb
  · simp only [Option.some.injEq] at hb; subst hb
    unfold PhaseOk
    dsimp only
    have h1 : maxBuckets - (k + 1) = maxBuckets - 1 - k := by omega
    exact ⟨by omega, hpub, by rw [h1]; exact hclk⟩
  · split at hb
    · simp only [Option.some.injEq] at hb; subst hb
      unfold PhaseOk
      dsimp only
      exact ⟨hk, hpub, hclk, fun p hp => hdl p (List.mem_filter.mp hp).1⟩
    · simp at hb

/-- every transition the worker makes on its own keeps the phase bounds -/
theorem phaseOk_main (P : LP) (s : DState) (g : Option Nat) (r : DState × List DEv) (h : Live P s g) (hok : PhaseOk P s)
    (hb : s.bStepMain s.clock = some r) (ha : ∀ e ∈ r.2, LiveA P s.clock e) : PhaseOk P r.1 := by
  cases hph : s.phase with
  | awaitStart => unfold PhaseOk at hok; rw [hph] at hok; exact hok.elim
  | forever => unfold PhaseOk at hok; rw [hph] at hok; exact hok.elim
  | sleeping w =>
    have hok' := hok
    unfold PhaseOk at hok'; rw [hph] at hok'; dsimp only at hok'
    unfold DState.bStepMain at hb
    simp only [hph] at hb
    split at hb
    · simp only [Option.some.injEq] at hb; subst hb
      exact phaseOk_begin P s g h hok'.2.1
    · simp at hb
  | bootstrapped ck =>
    have hok' := hok
    unfold PhaseOk at hok'; rw [hph] at hok'; dsimp only at hok'
    unfold DState.bStepMain at hb
    simp only [hph] at hb
    split at hb
    · omega
    · simp at hb
  | initial tid rl nl sl count active resp stopAt =>
    exact phaseOk_main_initial P s tid rl nl sl count active resp stopAt r h.clk hph hok hb ha
  | bucketStart k =>
    unfold DState.bStepMain at hb
    simp only [hph] at hb
    split at hb
    · rename_i hk
      simp only [Option.some.injEq] at hb; subst hb
      exact phaseOk_bucketRound P s k hph hok hk
    · rename_i hk
      simp only [Option.some.injEq] at hb; subst hb
      exact phaseOk_sweepDone P s k hph hok hk h.noRouters.2 h.ver
  | buckets k active => exact phaseOk_main_buckets P s k active r hph hok hb

theorem phaseOk_congr (P : LP) (s s' : DState) (h : PhaseOk P s) (h1 : s'.phase = s.phase) (h2 : s'.clock = s.clock)
    (h3 : s'.pub = s.pub) (h4 : s'.seenVersion = s.seenVersion) (h5 : s'.pubVersion = s.pubVersion) : PhaseOk P s' := by
  unfold PhaseOk at h ⊢
  rw [h1, h2, h3, h4, h5]
  exact h

theorem phaseOk_message_initial (P : LP) (s : DState) (p : Pending) (body : Body) (src : Addr)
    (tid : Tid) (rl nl : List Addr) (sl : Option Nat) (count : Nat) (active : List Pending) (resp stopAt : Nat)
    (hph : s.phase = .initial tid rl nl sl count active resp stopAt) (hok : PhaseOk P s)
    (hresp : P.t0 < s.clock → p.addr = P.c → ∃ r, body = .resp r) (hc : active.contains p = true) :
    PhaseOk P (s.workerMessage p body src s.clock).1 := by
  unfold PhaseOk at hok
  rw [hph] at hok
  dsimp only at hok
  obtain ⟨hpb, hrl, hst, hnl, hslc, hre⟩ := hok
  have hsub : ∀ q ∈ removePending active p, q ∈ active := fun q hq => (List.mem_filter.mp hq).1
  unfold DState.workerMessage
  simp only [hph, hc, if_true]
  cases body with
  | resp r =>
    simp only
    split
    · refine phaseOk_finishInitial P _ _ _ (fun h0 => by omega) ?_
      rcases hre with ⟨_, hre⟩ | hre
      · exact hre.1
      · have := hre.1; simp only [LP.T2]; omega
    · unfold PhaseOk
      dsimp only
      refine ⟨hpb, hrl, hst, hnl, hslc, ?_⟩
      rcases hre with ⟨hg, hre⟩ | hre
      · exact Or.inl ⟨⟨hg.1, Or.inl (by omega)⟩, roundEnds_mono _ _ _ _ _ _ _ _ hre hsub⟩
      · exact Or.inr (roundEnds_mono _ _ _ _ _ _ _ _ hre hsub)
  | req q =>
    simp only
    unfold PhaseOk
    dsimp only
    refine ⟨hpb, hrl, hst, hnl, hslc, ?_⟩
    rcases hre with ⟨hg, hre⟩ | hre
    · refine Or.inl ⟨⟨hg.1, ?_⟩, roundEnds_mono _ _ _ _ _ _ _ _ hre hsub⟩
      rcases hg.2 with h | h | ⟨pc, hp, h1, h2, h3⟩
      · exact Or.inl h
      · exact Or.inr (Or.inl h)
      · refine Or.inr (Or.inr ⟨pc, List.mem_filter.mpr ⟨hp, ?_⟩, h1, h2, h3⟩)
        have : pc ≠ p := by
          intro he; subst he
          obtain ⟨r, hr⟩ := hresp hg.1 h1
          cases hr
        simpa using this
    · exact Or.inr (roundEnds_mono _ _ _ _ _ _ _ _ hre hsub)
  | err c m =>
    simp only
    unfold PhaseOk
    dsimp only
    refine ⟨hpb, hrl, hst, hnl, hslc, ?_⟩
    rcases hre with ⟨hg, hre⟩ | hre
    · refine Or.inl ⟨⟨hg.1, ?_⟩, roundEnds_mono _ _ _ _ _ _ _ _ hre hsub⟩
      rcases hg.2 with h | h | ⟨pc, hp, h1, h2, h3⟩
      · exact Or.inl h
      · exact Or.inr (Or.inl h)
      · refine Or.inr (Or.inr ⟨pc, List.mem_filter.mpr ⟨hp, ?_⟩, h1, h2, h3⟩)
        have : pc ≠ p := by
          intro he; subst he
          obtain ⟨r, hr⟩ := hresp hg.1 h1
          cases hr
        simpa using this
    · exact Or.inr (roundEnds_mono _ _ _ _ _ _ _ _ hre hsub)

theorem phaseOk_message (P : LP) (s : DState) (p : Pending) (body : Body) (src : Addr) (hok : PhaseOk P s)
    (hresp : P.t0 < s.clock → p.addr = P.c → ∃ r, body = .resp r) :
    PhaseOk P (s.workerMessage p body src s.clock).1 := by
  cases hph : s.phase with
  | initial tid rl nl sl count active resp stopAt =>
    by_cases hc : active.contains p = true
    · exact phaseOk_message_initial P s p body src tid rl nl sl count active resp stopAt hph hok hresp hc
    · unfold DState.workerMessage
      simp only [hph, hc, Bool.false_eq_true, if_false]
      exact phaseOk_congr P s _ hok hph.symm rfl rfl rfl rfl
  | buckets k active =>
    by_cases hc : active.contains p = true
    · have hok' := hok
      unfold PhaseOk at hok'; rw [hph] at hok'; dsimp only at hok'
      obtain ⟨hk, hpub, hclk, hdl⟩ := hok'
      have hsub : ∀ q ∈ removePending active p, q ∈ active := fun q hq => (List.mem_filter.mp hq).1
      unfold DState.workerMessage
      simp only [hph, hc, if_true]
      cases body with
      | resp r => simp only; unfold PhaseOk; dsimp only; exact ⟨hk, hpub, hclk, fun q hq => hdl q (hsub q hq)⟩
      | req r => simp only; unfold PhaseOk; dsimp only; exact ⟨hk, hpub, hclk, fun q hq => hdl q (hsub q hq)⟩
      | err c m => simp only; unfold PhaseOk; dsimp only; exact ⟨hk, hpub, hclk, fun q hq => hdl q (hsub q hq)⟩
    · unfold DState.workerMessage
      simp only [hph, hc, Bool.false_eq_true, if_false]
      exact phaseOk_congr P s _ hok hph.symm rfl rfl rfl rfl
  | awaitStart => unfold DState.workerMessage; simp only [hph]; exact phaseOk_congr P s _ hok hph.symm rfl rfl rfl rfl
  | forever => unfold DState.workerMessage; simp only [hph]; exact phaseOk_congr P s _ hok hph.symm rfl rfl rfl rfl
  | sleeping w => unfold DState.workerMessage; simp only [hph]; exact phaseOk_congr P s _ hok hph.symm rfl rfl rfl rfl
  | bucketStart k => unfold DState.workerMessage; simp only [hph]; exact phaseOk_congr P s _ hok hph.symm rfl rfl rfl rfl
  | bootstrapped c => unfold DState.workerMessage; simp only [hph]; exact phaseOk_congr P s _ hok hph.symm rfl rfl rfl rfl

end Btdht
