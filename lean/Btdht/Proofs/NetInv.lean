import Btdht.Proofs.NetClient
/-!
C01 helpers: the invariant of a network of serving nodes that all know each other, while one of
them runs one search (announcing or not) and the others only serve.
-/
namespace Btdht

/-- the fixed data of one search in the network -/
structure Phase where
  /-- the handles (id, address) of the nodes, in the order of `NetCfg.nodes` -/
  N : List Handle
  /-- the instant until which the phase is considered -/
  G : Nat
  /-- bound on the one-way latency of a datagram -/
  D : Nat
  /-- index of the searching node -/
  ia : Nat
  /-- its handle -/
  a : Handle
  /-- action id of the search -/
  A : Nat
  ih : Bytes
  ann : Bool
  stream : Nat
  /-- the configured announce port of the searching node -/
  port : Option Nat
  /-- the instant the search starts -/
  T0 : Nat
  /-- the contact the statements about found peers speak of -/
  x : Addr
  /-- the nodes that hold `(ih, x)` throughout the phase -/
  Must : Handle → Prop
  /-- what the nodes' stores may hold for `ih` while the search runs -/
  Src : Handle → Addr → Prop
  /-- the yields recorded before the phase -/
  Y0 : List (Nat × Nat × Addr)

/-- the pair an announce of the searching node stores -/
def Phase.item (P : Phase) : Item := ⟨P.ih, connectAddr P.port P.a.addr⟩

/-- the static side conditions on the network -/
structure NetWF (P : Phase) : Prop where
  net : NetOk P.N P.ih
  ihLen : P.ih.length = 20
  noph : placeholderHandle ∉ P.N
  fam : ∀ x ∈ P.N, x.addr.v6 = P.a.addr.v6
  ipLen : ∀ x ∈ P.N, x.addr.ip.length ≤ 19
  ipBytes : ∀ x ∈ P.N, ∀ b ∈ x.addr.ip, b < 256
  two : 2 ≤ P.N.length
  aN : P.N[P.ia]? = some P.a
  aid : P.A ≠ refreshAid
  /-- the phase is shorter than the 10 minutes a token is certainly valid, the latency bound leaves
  the round trip below the query time-out, and the clock is past the 15 minutes of `as_questionable` -/
  window : P.G ≤ P.T0 + 600000000000
  clock : lastSeenNs ≤ P.T0
  lat : 2 * P.D < Constants.LOOKUP_TIMEOUT_ns
  xfam : P.x.v6 = P.a.addr.v6

/-- what holds of every node at every instant of the phase -/
structure NodeOk (P : Phase) (now : Nat) (k : Nat) (n : NNode) : Prop where
  handle : P.N[k]? = some n.handle
  serves : Serves (P.N.filter (· ≠ n.handle)) P.G n.st
  tokClock : n.st.tokens.lastRefresh ≤ now
  storeWF : StWF n.st.store now
  /-- at most 39 pairs other than the one this search announces are stored -/
  storeSmall : othersCount n.st.store P.item ≤ 39
  /-- a node that must hold the contact holds it, with a time that keeps it alive until `G` -/
  storeMust : P.Must n.handle → ∃ t, Held n.st.store ⟨P.ih, P.x⟩ t ∧ P.G < t + 86400000000000
  noRefresh : ∀ te ∈ n.st.timer.entries, te.task ≠ .tableRefresh

/-- the token `t` was issued by the node with handle `h` for the searching node's IP and is still valid -/
def TokV (P : Phase) (cfg : NetCfg) (h : Handle) (t : Bytes) : Prop :=
  ∃ (k ti j : Nat) (n : NNode), cfg.nodes[j]? = some n ∧ n.handle = h ∧ t = tokEnc ⟨P.a.addr.ip, k⟩ ∧ P.T0 ≤ ti ∧ Valid k ti n.st.tokens

/-- the datagrams that can be in flight -/
inductive PktOk (P : Phase) (cfg : NetCfg) (c : RCfg) (fin : Option Nat) (p : Pkt) : Prop where
  /-- a `get_peers` query of the search -/
  | query (h : Handle) (tid : Tid) : h ∈ P.N → p.src = P.a.addr → p.dst = h.addr → p.tid = .sym tid → tid.aid = P.A →
      p.body = .req (.getPeers P.a.id P.ih none) → (tid, h.addr, p.sent) ∈ c.log → PktOk P cfg c fin p
  /-- the answer of a node to such a query -/
  | answer (h : Handle) (tid : Tid) (rsp : Resp) (u : Nat) (t : Bytes) : h ∈ P.N → p.dst = P.a.addr → p.src = h.addr →
      p.tid = .sym tid → tid.aid = P.A → p.body = .resp rsp → (tid, h.addr, u) ∈ c.log → p.sent ≤ u + P.D →
      GTruthful P.N P.a.addr.v6 h rsp → rsp.token = some t → TokV P cfg h t →
      (fin = none → ∀ y ∈ rsp.values, P.Src h y) → (P.Must h → P.x ∈ rsp.values) → PktOk P cfg c fin p
  /-- an `announce_peer` of the finished search -/
  | announce (h : Handle) (tid : Tid) (t : Bytes) (T1 : Nat) : fin = some T1 → p.sent = T1 → h ∈ P.N → p.src = P.a.addr → p.dst = h.addr →
      p.tid = .sym tid → tid.aid = P.A → p.body = .req (.announce P.a.id P.ih P.port t) → TokV P cfg h t → PktOk P cfg c fin p
  /-- the reply to such an announce -/
  | reply (tid : Tid) : fin ≠ none → p.dst = P.a.addr → p.tid = .sym tid → tid.aid = P.A →
      (∀ r, p.body ≠ .req r) → PktOk P cfg c fin p

/-- the timer entries of the search: a query's time-out entry is due no earlier than 1.5 s after
the query went out, the end-game entry no earlier than 1.5 s after the end-game started -/
def TimerLog (c : RCfg) (t : Timer Task) : Prop :=
  ∀ te ∈ t.entries,
    (∀ tid, te.task = .lookupTimeout tid → ∃ q ∈ c.log, q.1 = tid ∧ q.2.2 + Constants.LOOKUP_TIMEOUT_ns ≤ te.deadline) ∧
    (∀ tid, te.task = .lookupEndGame tid → tid.aid = c.l.aid ∧ ∃ u, c.egAt = some u ∧ u + Constants.ENDGAME_TIMEOUT_ns ≤ te.deadline) ∧
    te.task ≠ .tableRefresh

/-- the state of the searching node while the search runs -/
structure ClientOk (P : Phase) (cfg : NetCfg) (c : RCfg) : Prop where
  node : ∃ n, cfg.nodes[P.ia]? = some n ∧ n.st.lookups = [c.l] ∧ TimerLog c n.st.timer ∧ n.st.announcePort = P.port
  ginv : GInv P.N P.ih c
  aid : c.l.aid = P.A
  selfId : c.l.selfId = P.a.id
  v6 : c.l.v6 = P.a.addr.v6
  ann : c.l.willAnnounce = P.ann
  stream : c.l.stream = P.stream
  clock : c.now ≤ cfg.now
  /-- every unanswered query has its datagram, or the answer to it, in flight -/
  cover : ∀ q ∈ c.log, q.1 ∉ c.answered → ∃ p ∈ cfg.flight, p.tid = .sym q.1 ∧
    (((∃ r, p.body = .req r) ∧ p.sent = q.2.2) ∨ ((∃ rsp, p.body = .resp rsp) ∧ p.sent ≤ q.2.2 + P.D))
  toks : ∀ p ∈ c.l.tokens, TokV P cfg p.1 p.2
  /-- once the answer of a node that must hold the contact was handled, the contact was yielded -/
  yielded : ∀ q ∈ c.log, q.1 ∈ c.answered → ∀ h ∈ P.N, h.addr = q.2.1 → P.Must h → (P.ia, P.stream, P.x) ∈ cfg.yields

/-- the datagram is an `announce_peer` of the search towards `h` -/
def IsAnnTo (P : Phase) (h : Handle) (p : Pkt) : Prop :=
  p.dst = h.addr ∧ ∃ t, p.body = .req (.announce P.a.id P.ih P.port t)

/-- **the invariant of the phase** (`fin = some T1`: the search has ended at `T1`) -/
structure SInv (P : Phase) (cfg : NetCfg) (c : RCfg) (fin : Option Nat) : Prop where
  len : cfg.nodes.length = P.N.length
  nodes : ∀ k n, cfg.nodes[k]? = some n → NodeOk P cfg.now k n
  idle : ∀ k n, cfg.nodes[k]? = some n → (k ≠ P.ia ∨ fin ≠ none) → n.st.lookups = []
  time : P.T0 ≤ cfg.now ∧ cfg.now ≤ P.G
  pkts : ∀ p ∈ cfg.flight, PktOk P cfg c fin p
  client : fin = none → ClientOk P cfg c
  /-- while the search runs, the live contacts of `ih` in the stores are those allowed by `Src` -/
  stores : fin = none → ∀ (k : Nat) (n : NNode) (y : Addr) (t : Nat), cfg.nodes[k]? = some n → Held n.st.store ⟨P.ih, y⟩ t → cfg.now - t < 86400000000000 →
    P.Src n.handle y
  /-- every yield on the search's stream is a contact allowed by `Src` -/
  ysound : ∀ e ∈ cfg.yields, e ∈ P.Y0 ∨ (e.1 = P.ia ∧ e.2.1 = P.stream ∧ ∃ h ∈ P.N, P.Src h e.2.2)
  /-- after an announcing search: each of the 8 nodes closest to the info-hash has its announce
  in flight, or has stored the pair, at an instant between the end `T1` of the search and `T1 + D` -/
  ann : ∀ T1, fin = some T1 → P.ann = true → ∀ h ∈ closest8 P.ih P.N, (∃ p ∈ cfg.flight, IsAnnTo P h p) ∨
    ∃ (k : Nat) (n : NNode) (t : Nat), cfg.nodes[k]? = some n ∧ n.handle = h ∧ Held n.st.store P.item t ∧ T1 ≤ t ∧ t ≤ T1 + P.D
  fint : ∀ T1, fin = some T1 → P.T0 ≤ T1 ∧ T1 ≤ cfg.now

/-! ### monotonicity -/

theorem stWF_mono {st : Storage} {t0 t1 : Nat} (h : StWF st t0) (ht : t0 ≤ t1) : StWF st t1 :=
  ⟨h.sorted, fun e he => Nat.le_trans (h.le_now e he) ht, h.nodup, h.perm⟩

theorem nodeOk_mono {P : Phase} {now now' k : Nat} {n : NNode} (h : NodeOk P now k n) (ht : now ≤ now') : NodeOk P now' k n :=
  ⟨h.handle, h.serves, Nat.le_trans h.tokClock ht, stWF_mono h.storeWF ht, h.storeSmall, h.storeMust, h.noRefresh⟩

/-- how the token store of a node may change in a step at `now` -/
def TokStep (now : Nat) (t t' : TokenStore) : Prop := t' = t ∨ t' = t.refreshCheck now

theorem valid_tokStep {k ti now : Nat} {t t' : TokenStore} (hv : Valid k ti t) (hs : TokStep now t t')
    (hlr : t.lastRefresh ≤ now) (hn : now ≤ ti + 600000000000) : Valid k ti t' := by
  rcases hs with h | h
  · rw [h]; exact hv
  · rw [h]; exact valid_refresh k ti t now hv hlr hn

/-- tokens stay valid when one node makes a step -/
theorem tokV_set {P : Phase} (hW : NetWF P) {cfg : NetCfg} {k now : Nat} {n n' : NNode} {F : List Pkt} {Y : List (Nat × Nat × Addr)}
    (hk : cfg.nodes[k]? = some n) (hh : n'.handle = n.handle) (hs : TokStep now n.st.tokens n'.st.tokens)
    (hlr : n.st.tokens.lastRefresh ≤ now) (hn : now ≤ P.G) {h : Handle} {t : Bytes} (hv : TokV P cfg h t) :
    TokV P { nodes := cfg.nodes.set k n', flight := F, now := now, yields := Y } h t := by
  obtain ⟨κ, ti, j, m, hj, hm, ht, hti, hval⟩ := hv
  by_cases hjk : j = k
  · subst hjk
    rw [hk] at hj
    cases hj
    have hlt : j < cfg.nodes.length := (List.getElem?_eq_some_iff.mp hk).1
    refine ⟨κ, ti, j, n', by simp [hlt], hh.trans hm, ht, hti, ?_⟩
    exact valid_tokStep hval hs hlr (by have := hW.window; omega)
  · refine ⟨κ, ti, j, m, ?_, hm, ht, hti, hval⟩
    simp only
    rw [List.getElem?_set_ne (fun hc => hjk hc.symm)]
    exact hj

theorem pktOk_mono {P : Phase} {cfg cfg' : NetCfg} {c c' : RCfg} {fin fin' : Option Nat} {p : Pkt}
    (htok : ∀ h t, TokV P cfg h t → TokV P cfg' h t) (hlog : ∀ q ∈ c.log, q ∈ c'.log)
    (hfin : ∀ T1, fin = some T1 → fin' = some T1)
    (h : PktOk P cfg c fin p) : PktOk P cfg' c' fin' p := by
  have hnone : fin' = none → fin = none := by
    intro h1
    cases hf : fin with
    | none => rfl
    | some T1 => rw [hfin T1 hf] at h1; cases h1
  cases h with
  | query h tid a b d e e' f g => exact .query h tid a b d e e' f (hlog _ g)
  | answer h tid rsp u t a b d e e' f g i j k l m o =>
    exact .answer h tid rsp u t a b d e e' f (hlog _ g) i j k (htok _ _ l) (fun hf => m (hnone hf)) o
  | announce h tid t T1 a a' b d e f g i j => exact .announce h tid t T1 (hfin T1 a) a' b d e f g i (htok _ _ j)
  | reply tid a b d e f => exact .reply tid (fun hc => a (hnone hc)) b d e f

theorem mem_eraseIdx_or {α} (l : List α) (i : Nat) (x : α) (h : x ∈ l) : x ∈ l.eraseIdx i ∨ l[i]? = some x := by
  obtain ⟨j, hj, rfl⟩ := List.mem_iff_getElem.mp h
  by_cases hij : j = i
  · right; subst hij; exact List.getElem?_eq_getElem hj
  · left
    rw [List.mem_eraseIdx_iff_getElem]
    exact ⟨j, hj, hij, rfl⟩

/-! ### finding the node a datagram is addressed to -/

theorem getElem_inj_of_nodup {α} {l : List α} (h : l.Nodup) {i j : Nat} (hi : i < l.length) (hj : j < l.length)
    (e : l[i] = l[j]) : i = j := by
  unfold List.Nodup at h
  rw [List.pairwise_iff_getElem] at h
  rcases Nat.lt_trichotomy i j with hlt | heq | hgt
  · exact absurd e (h i j hi hj hlt)
  · exact heq
  · exact absurd e.symm (h j i hj hi hgt)

theorem node_of_handle {P : Phase} (hW : NetWF P) {cfg : NetCfg} (hlen : cfg.nodes.length = P.N.length)
    (hnodes : ∀ (k : Nat) (n : NNode), cfg.nodes[k]? = some n → P.N[k]? = some n.handle) {x : Handle} (hx : x ∈ P.N) :
    ∃ k n, cfg.nodes[k]? = some n ∧ n.handle = x ∧ cfg.nodes.findIdx? (fun m => m.addr = x.addr) = some k := by
  obtain ⟨k, hk, rfl⟩ := List.mem_iff_getElem.mp hx
  have hk' : k < cfg.nodes.length := by rw [hlen]; exact hk
  have hnk : cfg.nodes[k]? = some cfg.nodes[k] := List.getElem?_eq_getElem hk'
  have hh : cfg.nodes[k].handle = P.N[k] := by
    have := hnodes k _ hnk
    rw [List.getElem?_eq_getElem hk] at this
    exact (Option.some.inj this).symm
  refine ⟨k, cfg.nodes[k], hnk, hh, ?_⟩
  rw [List.findIdx?_eq_some_iff_getElem]
  refine ⟨hk', by simp only [decide_eq_true_eq]; rw [← hh]; rfl, fun j hj => ?_⟩
  have hj' : j < cfg.nodes.length := Nat.lt_trans hj hk'
  have hjN : j < P.N.length := by rw [← hlen]; exact hj'
  have hhj : cfg.nodes[j].handle = P.N[j] := by
    have := hnodes j _ (List.getElem?_eq_getElem hj')
    rw [List.getElem?_eq_getElem hjN] at this
    exact (Option.some.inj this).symm
  simp only [decide_eq_true_eq]
  intro hc
  have h1 : P.N[j].addr = P.N[k].addr := by rw [← hhj]; exact hc
  have h2 : P.N[j] = P.N[k] := hW.net.addr_inj (List.getElem_mem hjN) (List.getElem_mem hk) h1
  have := getElem_inj_of_nodup hW.net.nodup hjN hk h2
  omega

/-- a datagram towards the address of a node of the network goes out into the network -/
theorem any_addr {P : Phase} (hW : NetWF P) {cfg : NetCfg} (hlen : cfg.nodes.length = P.N.length)
    (hnodes : ∀ (k : Nat) (n : NNode), cfg.nodes[k]? = some n → P.N[k]? = some n.handle) {x : Handle} (hx : x ∈ P.N) :
    cfg.nodes.any (fun m => m.addr = x.addr) = true := by
  obtain ⟨k, n, hk, hn, _⟩ := node_of_handle hW hlen hnodes hx
  exact List.any_eq_true.mpr ⟨n, List.mem_of_getElem? hk, by simp only [decide_eq_true_eq]; rw [← hn]; rfl⟩

end Btdht
