import Btdht.Proofs.RefreshRely
import Btdht.Proofs.RefreshBound
/-!
C11 helpers, part 4: every step of the node (`NOp`) moves the routing table along `TEv`: offers of
the responder (good) and of the nodes its answer names (hearsay), queries sent, queries received.
Searches and refresh rounds only ever mark contacts as queried.
-/
namespace Btdht

/-- the sending loops of a search: the table moves by `local_request` marks at the environment's instant -/
def EnvEv (N : List (TKind × Handle)) (t0 : Table) (env0 env : LEnv) : Prop :=
  TEv env0.now N t0 env.table ∧ env.now = env0.now

theorem requestStep_ev (N : List (TKind × Handle)) (t0 : Table) (env0 : LEnv) (acc : RoundAcc) (hd : Handle × Bytes)
    (h : EnvEv N t0 env0 acc.env) : EnvEv N t0 env0 (requestStep acc hd).env := by
  unfold requestStep
  simp only
  split
  · exact h
  · exact ⟨by have := TEv.qsent (now := env0.now) (N := N) t0 _ hd.1 h.1; rw [← h.2] at this ⊢; exact this, h.2⟩

theorem requestRound_ev (N : List (TKind × Handle)) (t0 : Table) (env0 : LEnv) (l : Lookup) (env : LEnv) (nodes : List (Handle × Bytes))
    (h : EnvEv N t0 env0 env) : EnvEv N t0 env0 (l.requestRound env nodes).2.1 := by
  unfold Lookup.requestRound
  have key := foldl_pred (fun (acc : RoundAcc) => EnvEv N t0 env0 acc.env) requestStep
    (fun b a hb => requestStep_ev N t0 env0 b a hb) nodes { l := l, env := env, effs := [], sent := 0 } h
  simp only
  split <;> exact key

theorem endgameStep_ev (N : List (TKind × Handle)) (t0 : Table) (env0 : LEnv) (key : Nat × Nat) (acc : EndAcc) (e : Bytes × Handle × Bool)
    (h : EnvEv N t0 env0 acc.env) : EnvEv N t0 env0 (endgameStep key acc e).env := by
  unfold endgameStep
  split
  · exact h
  · simp only
    split
    · exact h
    · exact ⟨by have := TEv.qsent (now := env0.now) (N := N) t0 _ e.2.1 h.1; rw [← h.2] at this ⊢; exact this, h.2⟩

theorem endgameRound_ev (N : List (TKind × Handle)) (t0 : Table) (env0 : LEnv) (l : Lookup) (env : LEnv)
    (h : EnvEv N t0 env0 env) : EnvEv N t0 env0 (l.endgameRound env).2.1 := by
  unfold Lookup.endgameRound
  simp only
  exact foldl_pred (fun (acc : EndAcc) => EnvEv N t0 env0 acc.env) _
    (fun b a hb => endgameStep_ev N t0 env0 _ b a hb) l.sorted _ h

theorem continueSearch_ev (N : List (TKind × Handle)) (t0 : Table) (env0 : LEnv) (l : Lookup) (env : LEnv)
    (it : Option (List (Handle × Bool))) (nd : Bytes) (h : EnvEv N t0 env0 env) :
    EnvEv N t0 env0 (l.continueSearch env it nd).2.1 := by
  have k1 : EnvEv N t0 env0 (l.iterRound env it nd).2.1 := by
    unfold Lookup.iterRound
    cases it with
    | none => exact h
    | some picks => exact requestRound_ev N t0 env0 l env _ h
  unfold Lookup.continueSearch
  split
  · simp only
    split
    · exact endgameRound_ev N t0 env0 _ _ k1
    · exact k1
  · exact h

theorem recvResponse_ev (N : List (TKind × Handle)) (t0 : Table) (env0 : LEnv) (l : Lookup) (env : LEnv) (fr : Handle) (tid : Tid)
    (rsp : Resp) (h : EnvEv N t0 env0 env) : EnvEv N t0 env0 (l.recvResponse env fr tid rsp).2.1 := by
  unfold Lookup.recvResponse
  split
  · exact h
  · simp only
    apply continueSearch_ev
    split <;> exact h

theorem recvTimeout_ev (N : List (TKind × Handle)) (t0 : Table) (env0 : LEnv) (l : Lookup) (env : LEnv) (tid : Tid)
    (h : EnvEv N t0 env0 env) : EnvEv N t0 env0 (l.recvTimeout env tid).2.1 := by
  unfold Lookup.recvTimeout
  split
  · exact h
  · simp only
    split
    · exact endgameRound_ev N t0 env0 _ _ h
    · exact h

theorem announceStep_ev (N : List (TKind × Handle)) (t0 : Table) (env0 : LEnv) (port : Option Nat) (acc : Lookup × LEnv × List Effect)
    (e : Bytes × Handle × Bool) (h : EnvEv N t0 env0 acc.2.1) : EnvEv N t0 env0 (announceStep port acc e).2.1 := by
  unfold announceStep
  simp only
  split
  · exact h
  · exact ⟨by have := TEv.qsent (now := env0.now) (N := N) t0 _ e.2.1 h.1; rw [← h.2] at this ⊢; exact this, h.2⟩

theorem recvFinished_ev (N : List (TKind × Handle)) (t0 : Table) (env0 : LEnv) (l : Lookup) (env : LEnv) (port : Option Nat)
    (h : EnvEv N t0 env0 env) : EnvEv N t0 env0 (l.recvFinished env port).2.1 := by
  unfold Lookup.recvFinished
  simp only
  split
  · exact foldl_pred (fun (acc : Lookup × LEnv × List Effect) => EnvEv N t0 env0 acc.2.1) (announceStep port)
      (fun b a hb => announceStep_ev N t0 env0 port b a hb) _ (l, env, []) h
  · exact h

theorem new_ev (N : List (TKind × Handle)) (t0 : Table) (env0 : LEnv) (aid stream : Nat) (selfId : Bytes) (v6 : Bool) (target : Bytes)
    (ann : Bool) (env : LEnv) (h : EnvEv N t0 env0 env) :
    EnvEv N t0 env0 (Lookup.new aid stream selfId v6 target ann env).2.1 := by
  unfold Lookup.new
  exact requestRound_ev N t0 env0 _ env _ h

/-! ### the handler -/

theorem env_ev (N : List (TKind × Handle)) (s : HState) (now : Nat) (t0 : Table) (h : TEv now N t0 s.table) :
    EnvEv N t0 (s.env now) (s.env now) := ⟨h, rfl⟩

theorem completeLookup_ev (N : List (TKind × Handle)) (t0 : Table) (s : HState) (aid now : Nat) (h : TEv now N t0 s.table) :
    TEv now N t0 (s.completeLookup aid now).1.table := by
  unfold HState.completeLookup
  split
  · exact h
  · rename_i l _
    simp only [HState.withEnv]
    exact (recvFinished_ev N t0 _ l _ s.announcePort
      (env_ev N ({ s with lookups := s.lookups.filter (·.aid ≠ aid) } : HState) now t0 h)).1

theorem lookupResponse_ev (s : HState) (l : Lookup) (t? : Option Tid) (rsp : Resp) (src : Addr) (now : Nat) :
    TEv now (answerMarks ⟨rsp.id, src⟩ (s.namedBy rsp)) s.table (s.lookupResponse l t? rsp src now).1.table := by
  unfold HState.lookupResponse
  extract_lets s1 r s2a s2 c
  have h1 : TEv now (answerMarks ⟨rsp.id, src⟩ (s.namedBy rsp)) s.table s1.table :=
    addNodes_tev s.table s.table now _ ⟨rsp.id, src⟩ (s.namedBy rsp) (fun _ hx => hx) (.refl _)
  have hr : TEv now (answerMarks ⟨rsp.id, src⟩ (s.namedBy rsp)) s.table r.2.1.table := by
    cases t? with
    | none => exact h1
    | some t => exact (recvResponse_ev _ s.table (s1.env now) l (s1.env now) ⟨rsp.id, src⟩ t rsp ⟨h1, rfl⟩).1
  by_cases hc : r.1.completedNow = true
  · rw [if_pos hc]
    show TEv now _ s.table c.1.table
    exact completeLookup_ev _ s.table s2 l.aid now hr
  · rw [if_neg hc]
    exact hr

/-- the id the sender of a query claims -/
def Req.sender : Req → Bytes
  | .ping id => id
  | .findNode id _ _ => id
  | .getPeers id _ _ => id
  | .announce id _ _ _ => id

theorem handleRequest_ev (s : HState) (tid : InTid) (r : Req) (src : Addr) (now : Nat) :
    TEv now [(TKind.recv, ⟨r.sender, src⟩)] s.table (s.handleRequest tid r src now).1.table := by
  have hm : ∀ id, id = r.sender → TEv now [(TKind.recv, ⟨r.sender, src⟩)] s.table (s.markRemote id src now).table :=
    fun id e => by subst e; exact .qrecv _ _ _ (by simp) (.refl _)
  unfold HState.handleRequest
  split
  · exact .refl _
  · cases r with
    | ping id => exact hm id rfl
    | findNode id target want => exact hm id rfl
    | getPeers id ih want => exact hm id rfl
    | announce id ih port token =>
      simp only [HState.checkToken]
      repeat' (first | exact hm id rfl | split)

theorem handleIncoming_ev (s : HState) (tid : InTid) (body : Body) (src : Addr) (now : Nat) :
    TEv now (match body with
      | .resp r => answerMarks ⟨r.id, src⟩ (s.namedBy r)
      | .req r => [(TKind.recv, ⟨r.sender, src⟩)]
      | _ => []) s.table (s.handleIncoming tid body src now).1.table := by
  unfold HState.handleIncoming
  cases body with
  | req r => exact handleRequest_ev s tid r src now
  | err c m => exact .refl _
  | resp rsp =>
    simp only
    unfold HState.handleResponse
    split
    · exact .refl _
    · split
      · exact lookupResponse_ev s _ _ rsp src now
      · split
        · exact addNodes_tev s.table s.table now _ ⟨rsp.id, src⟩ (s.namedBy rsp) (fun _ hx => hx) (.refl _)
        · exact .refl _

theorem startLookup_ev (s : HState) (target : Bytes) (ann : Bool) (now : Nat) :
    TEv now [] s.table (s.startLookup target ann now).1.table := by
  unfold HState.startLookup HState.afterNew
  simp only
  have hn := new_ev [] s.table (s.env now) s.nextAid s.nextStream s.selfId s.v6 target ann (s.env now) ⟨.refl _, rfl⟩
  generalize Lookup.new s.nextAid s.nextStream s.selfId s.v6 target ann (s.env now) = r at hn
  split
  · simp only [HState.withEnv]
    exact (recvFinished_ev [] s.table (s.env now) r.1
      (({ s.withEnv r.2.1 with nextAid := s.nextAid + 1, nextStream := s.nextStream + 1 } : HState).env now)
      s.announcePort ⟨hn.1, rfl⟩).1
  · exact hn.1

/-- a refresh round at handler level is the table-level round -/
theorem refresh_table (s : HState) (now : Nat) :
    (s.refresh now).1.table =
      s.table.afterRound (flipBit s.selfId (if s.refreshBucket = maxBuckets then 0 else s.refreshBucket)) now := by
  unfold HState.refresh Table.afterRound Table.refreshPicks Table.refreshCands markAll
  simp only
  have key : ∀ (l : List Handle) (acc : HState × List HEffect),
      (l.foldl (fun (acc : HState × List HEffect) h =>
          (({ acc.1 with refreshSeq := acc.1.refreshSeq + 1, table := markRequested acc.1.table h now } : HState),
           acc.2 ++ [HEffect.send h.addr (.sym ⟨refreshAid, acc.1.refreshSeq⟩)
              (.req (.findNode acc.1.selfId (flipBit s.selfId (if s.refreshBucket = maxBuckets then 0 else s.refreshBucket)) none))
              (!acc.1.failAddrs.contains h.addr)])) acc).1.table =
        l.foldl (fun acc h => markRequested acc h now) acc.1.table := by
    intro l
    induction l with
    | nil => intro acc; rfl
    | cons a l ih => intro acc; simp only [List.foldl_cons]; rw [ih]
  have := key ((((s.table.closestNodes (flipBit s.selfId (if s.refreshBucket = maxBuckets then 0 else s.refreshBucket)) now).filter
      (fun n => n.status now = .questionable && !n.recentlyRequestedFrom now)).take Constants.REFRESH_CONCURRENCY).map (·.handle)) (s, [])
  simp only at this
  exact this

theorem markAll_ev (now : Nat) (hs : List Handle) : ∀ (t : Table), TEv now [] t (markAll t hs now) := by
  induction hs with
  | nil => intro t; exact .refl _
  | cons a hs ih => intro t; exact TEv.trans (.qsent _ _ a (.refl _)) (ih _)

theorem refresh_ev (s : HState) (now : Nat) : TEv now [] s.table (s.refresh now).1.table := by
  rw [refresh_table]
  exact markAll_ev now _ _

theorem handleTask_ev (s : HState) (task : Task) (now : Nat) : TEv now [] s.table (s.handleTask task now).1.table := by
  cases task with
  | tableRefresh => exact refresh_ev s now
  | lookupEndGame t => exact completeLookup_ev [] s.table s t.aid now (.refl _)
  | lookupTimeout t =>
    simp only [HState.handleTask]
    split
    · exact .refl _
    · rename_i l _
      unfold HState.lookupTimeout
      extract_lets r s2a s2 c
      have hr : TEv now [] s.table r.2.1.table := (recvTimeout_ev [] s.table (s.env now) l (s.env now) t ⟨.refl _, rfl⟩).1
      by_cases hc : r.1.completedNow = true
      · rw [if_pos hc]
        show TEv now [] s.table c.1.table
        exact completeLookup_ev [] s.table s2 l.aid now hr
      · rw [if_neg hc]
        exact hr

theorem fireTimer_ev (s : HState) (now : Nat) : TEv now [] s.table (s.fireTimer now).1.table := by
  unfold HState.fireTimer
  split
  · exact .refl _
  · rename_i timer e _
    exact handleTask_ev { s with timer := timer } e.task now

/-- the handles a step may name by hearsay: those listed in an answer -/
def NOp.named (op : NOp) (s : HState) : List Handle :=
  match op with
  | .h (.incoming _ (.resp r) _) => s.namedBy r
  | .wAnswer r _ => s.namedBy r
  | _ => []

/-- whom a step may offer as good, name by hearsay, or record as having queried us -/
def NOp.marks (op : NOp) (s : HState) : List (TKind × Handle) :=
  match op with
  | .h (.incoming _ (.resp r) src) => answerMarks ⟨r.id, src⟩ (s.namedBy r)
  | .h (.incoming _ (.req r) src) => [(TKind.recv, ⟨r.sender, src⟩)]
  | .wAnswer r src => answerMarks ⟨r.id, src⟩ (s.namedBy r)
  | _ => []

theorem marks_hearsay (op : NOp) (s : HState) (h : Handle) (hm : (TKind.hearsay, h) ∈ op.marks s) : h ∈ op.named s := by
  have key : ∀ (g : Handle) (named : List Handle), (TKind.hearsay, h) ∈ answerMarks g named → h ∈ named := by
    intro g named hx
    simp only [answerMarks, List.mem_cons, List.mem_map, Prod.mk.injEq] at hx
    rcases hx with ⟨hk, _⟩ | ⟨x, hx, _, rfl⟩
    · cases hk
    · exact hx
  cases op with
  | kick => simp [NOp.marks] at hm
  | wQuery _ => simp [NOp.marks] at hm
  | wAnswer r src => exact key _ _ hm
  | h hop =>
    cases hop with
    | fire => simp [NOp.marks] at hm
    | start _ _ => simp [NOp.marks] at hm
    | incoming tid body src =>
      cases body with
      | resp r => exact key _ _ hm
      | req r => simp [NOp.marks] at hm
      | err _ _ => simp [NOp.marks] at hm

/-- **every step of the node moves the routing table along `TEv`** -/
theorem nstep_tev (s : HState) (op : NOp) (now : Nat) : TEv now (op.marks s) s.table (s.nstep op now).table := by
  cases op with
  | kick => exact refresh_ev s now
  | wAnswer rsp src => exact addNodes_tev s.table s.table now _ ⟨rsp.id, src⟩ (s.namedBy rsp) (fun _ hx => hx) (.refl _)
  | wQuery hd => exact .qsent _ _ hd (.refl _)
  | h hop =>
    cases hop with
    | fire => exact fireTimer_ev s now
    | start target ann => exact startLookup_ev s target ann now
    | incoming tid body src =>
      have := handleIncoming_ev s tid body src now
      cases body with
      | req r => exact this
      | err c m => exact this
      | resp r => exact this

/-- the table invariant and the own id along a step -/
theorem nstep_tinv (s : HState) (op : NOp) (now : Nat) (h : TInv s.table) :
    TInv (s.nstep op now).table ∧ SameEnv s.table (s.nstep op now).table := (nstep_tev s op now).inv h

theorem nrun_tinv : ∀ (ops : List (NOp × Nat)) (s : HState), TInv s.table →
    TInv (s.nrun ops).table ∧ SameEnv s.table (s.nrun ops).table
  | [], s, h => ⟨h, sameEnv_refl _⟩
  | (op, now) :: rest, s, h => by
    obtain ⟨h1, e1⟩ := nstep_tinv s op now h
    obtain ⟨h2, e2⟩ := nrun_tinv rest _ h1
    exact ⟨h2, sameEnv_trans e1 e2⟩

end Btdht
