import Btdht.Proofs.Codec
/-!
C13 helpers: the decoder's interpretation of a dictionary depends on its items only through the
lookups of the field names of that level (and on the keys being strings), and a lookup does not
depend on the order of the items nor on items under other keys.
-/
namespace Btdht

/-- dictionary items from key/value pairs -/
def flatten : List (BVal × BVal) → List BVal
  | [] => []
  | p :: rest => p.1 :: p.2 :: flatten rest

def keyIs (key : Bytes) (p : BVal × BVal) : Bool := isKey p.1 key

/-- a field lookup only sees the pairs stored under that key -/
theorem fieldOf_flatten (key : Bytes) : ∀ (ps : List (BVal × BVal)),
    fieldOf key (flatten ps) =
      (match ps.filter (keyIs key) with
       | [] => none
       | [p] => some (some p.2)
       | _ :: _ :: _ => some none)
  | [] => rfl
  | p :: rest => by
    simp only [flatten]
    rw [fieldOf_cons, fieldOf_flatten key rest]
    by_cases hk : keyIs key p = true
    · have hk' : isKey p.1 key = true := hk
      simp only [List.filter_cons, hk, if_true, hk']
      cases rest.filter (keyIs key) with
      | nil => rfl
      | cons q tl =>
        cases tl with
        | nil => rfl
        | cons q2 tl2 => rfl
    · have hk' : isKey p.1 key = false := by simpa [keyIs] using hk
      simp only [List.filter_cons, hk, Bool.false_eq_true, if_false, hk']
      cases rest.filter (keyIs key) with
      | nil => rfl
      | cons q tl =>
        cases tl with
        | nil => rfl
        | cons q2 tl2 => rfl

/-- ... so it is invariant under any rearrangement that keeps those pairs (as a multiset) -/
theorem fieldOf_perm (key : Bytes) (ps ps' : List (BVal × BVal))
    (h : (ps'.filter (keyIs key)).Perm (ps.filter (keyIs key))) :
    fieldOf key (flatten ps') = fieldOf key (flatten ps) := by
  rw [fieldOf_flatten, fieldOf_flatten]
  generalize ps'.filter (keyIs key) = l' at h
  generalize ps.filter (keyIs key) = l at h
  cases l with
  | nil => rw [List.perm_nil.mp h]
  | cons a tl =>
    cases tl with
    | nil => rw [List.perm_singleton.mp h]
    | cons b tl2 =>
      have hl := h.length_eq
      cases l' with
      | nil => simp at hl
      | cons a' tl' =>
        cases tl' with
        | nil => simp at hl
        | cons b' tl2' => rfl

/-- `ps'` holds the pairs `ps` in some order plus pairs under other keys, all keys being UTF-8 strings -/
structure IsVariantOf (known : List Bytes) (ps ps' : List (BVal × BVal)) : Prop where
  perm : (ps'.filter (fun p => known.any (fun k => keyIs k p))).Perm ps
  allKnown : ∀ p ∈ ps, known.any (fun k => keyIs k p) = true
  keys : ∀ p ∈ ps', ∃ b, p.1 = .bytes b ∧ validUtf8 b = true

theorem variant_field (known : List Bytes) (ps ps' : List (BVal × BVal)) (h : IsVariantOf known ps ps')
    (key : Bytes) (hkey : key ∈ known) : fieldOf key (flatten ps') = fieldOf key (flatten ps) := by
  apply fieldOf_perm
  have himp : ∀ p : BVal × BVal, keyIs key p = true → known.any (fun k => keyIs k p) = true := by
    intro p hp
    exact List.any_eq_true.mpr ⟨key, hkey, hp⟩
  have h1 : ps'.filter (keyIs key) = (ps'.filter (fun p => known.any (fun k => keyIs k p))).filter (keyIs key) := by
    rw [List.filter_filter]
    apply List.filter_congr
    intro p _
    cases hk : keyIs key p with
    | false => simp
    | true => simp [himp p hk]
  rw [h1]
  exact h.perm.filter _

theorem keysUtf8_flatten : ∀ (ps : List (BVal × BVal)), (∀ p ∈ ps, ∃ b, p.1 = .bytes b ∧ validUtf8 b = true) →
    keysUtf8 (flatten ps) = true
  | [], _ => rfl
  | p :: rest, h => by
    obtain ⟨b, hb, hu⟩ := h p List.mem_cons_self
    simp only [flatten, keysUtf8, hb, hu, Bool.true_and]
    exact keysUtf8_flatten rest (fun q hq => h q (List.mem_cons_of_mem _ hq))

theorem keysBytes_flatten : ∀ (ps : List (BVal × BVal)), (∀ p ∈ ps, ∃ b, p.1 = .bytes b ∧ validUtf8 b = true) →
    keysBytes (flatten ps) = true
  | [], _ => rfl
  | p :: rest, h => by
    obtain ⟨b, hb, _⟩ := h p List.mem_cons_self
    simp only [flatten, keysBytes, hb, Bool.true_and]
    exact keysBytes_flatten rest (fun q hq => h q (List.mem_cons_of_mem _ hq))

/-! ### each level reads its items through the lookups of its own field names only -/

def argKeys : List Bytes := [K.id, K.target, K.want, K.infoHash, K.token, K.port, K.impliedPort]
def respKeys : List Bytes := [K.id, K.values, K.nodes, K.nodes6, K.token]
def topKeys : List Bytes := [K.t, K.y, K.q, K.a, K.r, K.e]

theorem decodeArgs_congr (items items' : List BVal) (hk : keysBytes items' = keysBytes items)
    (hf : ∀ key ∈ argKeys, fieldOf key items' = fieldOf key items) : decodeArgs items' = decodeArgs items := by
  unfold decodeArgs reqField optField
  rw [hk, hf K.id (by simp [argKeys]), hf K.target (by simp [argKeys]), hf K.want (by simp [argKeys]),
    hf K.infoHash (by simp [argKeys]), hf K.token (by simp [argKeys]), hf K.port (by simp [argKeys]),
    hf K.impliedPort (by simp [argKeys])]

theorem decodeResp_congr (items items' : List BVal) (hk : keysUtf8 items' = keysUtf8 items)
    (hf : ∀ key ∈ respKeys, fieldOf key items' = fieldOf key items) : decodeResp items' = decodeResp items := by
  unfold decodeResp reqField optField
  rw [hk, hf K.id (by simp [respKeys]), hf K.values (by simp [respKeys]), hf K.nodes (by simp [respKeys]),
    hf K.nodes6 (by simp [respKeys]), hf K.token (by simp [respKeys])]

theorem decodeTree_congr (items items' : List BVal) (hk : keysUtf8 items' = keysUtf8 items)
    (hf : ∀ key ∈ topKeys, fieldOf key items' = fieldOf key items) :
    decodeTree (.dict (BList.ofList items')) = decodeTree (.dict (BList.ofList items)) := by
  unfold decodeTree
  simp only [toList_ofList]
  rw [hk, hf K.t (by simp [topKeys]), hf K.y (by simp [topKeys]), hf K.q (by simp [topKeys]),
    hf K.a (by simp [topKeys]), hf K.r (by simp [topKeys]), hf K.e (by simp [topKeys])]

end Btdht
