import Btdht.Proofs.NetInv
/-!
C01 helpers: every step of a network run keeps the invariant `SInv` — the server side.
-/
namespace Btdht

theorem tokStep_clock {now : Nat} {t t' : TokenStore} (hs : TokStep now t t') (hlr : t.lastRefresh ≤ now) :
    t'.lastRefresh ≤ now := by
  rcases hs with h | h
  · rw [h]; exact hlr
  · rw [h]; exact refreshCheck_lastRefresh_le t now hlr

/-- a step of node `k` that changes none of its search-related fields (a query was served, an idle
timer entry fired, a stray reply was dropped) keeps the invariant, given the new datagrams are fine
and the cover of unanswered queries is maintained -/
theorem sinv_server_step {P : Phase} (hW : NetWF P) {cfg : NetCfg} {c : RCfg} {fin : Option Nat} (h : SInv P cfg c fin)
    {k : Nat} {n : NNode} (hk : cfg.nodes[k]? = some n) (s' : HState) (now : Nat) (hn1 : cfg.now ≤ now) (hn2 : now ≤ P.G)
    (hserves : Serves (P.N.filter (· ≠ n.handle)) P.G s') (hself : s'.selfId = n.st.selfId)
    (hlook : s'.lookups = n.st.lookups) (htimer : ∀ te ∈ s'.timer.entries, te ∈ n.st.timer.entries)
    (hap : s'.announcePort = n.st.announcePort)
    (htok : TokStep now n.st.tokens s'.tokens) (hst : StWF s'.store now) (hsm : othersCount s'.store P.item ≤ 39)
    (hmust : P.Must n.handle → ∃ t, Held s'.store ⟨P.ih, P.x⟩ t ∧ P.G < t + 86400000000000)
    (hsrc : fin = none → ∀ y t, Held s'.store ⟨P.ih, y⟩ t → now - t < 86400000000000 → P.Src n.handle y)
    (F' : List Pkt)
    (hF : ∀ p ∈ F', PktOk P { nodes := cfg.nodes.set k { n with st := s' }, flight := F', now := now, yields := cfg.yields } c fin p)
    (hcov : fin = none → ∀ q ∈ c.log, q.1 ∉ c.answered → ∃ p ∈ F', p.tid = .sym q.1 ∧
      (((∃ r, p.body = .req r) ∧ p.sent = q.2.2) ∨ ((∃ rsp, p.body = .resp rsp) ∧ p.sent ≤ q.2.2 + P.D)))
    (hann : ∀ T1, fin = some T1 → P.ann = true → ∀ x ∈ closest8 P.ih P.N, (∃ p ∈ F', IsAnnTo P x p) ∨
      ∃ (j : Nat) (m : NNode) (t : Nat), (cfg.nodes.set k { n with st := s' })[j]? = some m ∧ m.handle = x ∧
        Held m.st.store P.item t ∧ T1 ≤ t ∧ t ≤ T1 + P.D) :
    SInv P { nodes := cfg.nodes.set k { n with st := s' }, flight := F', now := now, yields := cfg.yields } c fin := by
  have hklt : k < cfg.nodes.length := (List.getElem?_eq_some_iff.mp hk).1
  have hnk := h.nodes k n hk
  have hh : ({ n with st := s' } : NNode).handle = n.handle := by simp [NNode.handle, hself]
  have hnode' : NodeOk P now k { n with st := s' } :=
    ⟨by rw [hh]; exact hnk.handle, by rw [hh]; exact hserves, tokStep_clock htok (Nat.le_trans hnk.tokClock hn1), hst, hsm,
      by rw [hh]; exact hmust, fun te hte => hnk.noRefresh te (htimer te hte)⟩
  have htokV : ∀ x t, TokV P cfg x t →
      TokV P { nodes := cfg.nodes.set k { n with st := s' }, flight := F', now := now, yields := cfg.yields } x t :=
    fun x t hv => tokV_set hW hk hh htok (Nat.le_trans hnk.tokClock hn1) hn2 hv
  refine ⟨by simp [h.len], fun j m hj => ?_, fun j m hj hji => ?_, ⟨Nat.le_trans h.time.1 hn1, hn2⟩, hF, fun hfin => ?_,
    fun hfin j m y t hj hheld hlive => ?_, h.ysound, hann, fun T1 hT => ⟨(h.fint T1 hT).1, Nat.le_trans (h.fint T1 hT).2 hn1⟩⟩
  · simp only at hj ⊢
    by_cases hjk : j = k
    · subst hjk
      rw [List.getElem?_set_self hklt] at hj
      cases hj
      exact hnode'
    · rw [List.getElem?_set_ne (fun hc => hjk hc.symm)] at hj
      exact nodeOk_mono (h.nodes j m hj) hn1
  · simp only at hj
    by_cases hjk : j = k
    · subst hjk
      rw [List.getElem?_set_self hklt] at hj
      cases hj
      simp only
      rw [hlook]
      exact h.idle j n hk hji
    · rw [List.getElem?_set_ne (fun hc => hjk hc.symm)] at hj
      exact h.idle j m hj hji
  · have hc := h.client hfin
    obtain ⟨m, hm, hml, hmt, hmp⟩ := hc.node
    refine ⟨?_, hc.ginv, hc.aid, hc.selfId, hc.v6, hc.ann, hc.stream, Nat.le_trans hc.clock hn1, hcov hfin,
      fun p hp => htokV _ _ (hc.toks p hp), hc.yielded⟩
    by_cases hik : P.ia = k
    · rw [hik] at hm
      rw [hk] at hm
      cases hm
      refine ⟨{ n with st := s' }, by simp only; rw [hik, List.getElem?_set_self hklt], by simp only; rw [hlook]; exact hml, ?_,
        by simp only; rw [hap]; exact hmp⟩
      intro te hte
      exact hmt te (htimer te hte)
    · exact ⟨m, by simp only; rw [List.getElem?_set_ne (fun hc => hik hc.symm)]; exact hm, hml, hmt, hmp⟩
  · simp only at hj hlive
    by_cases hjk : j = k
    · subst hjk
      rw [List.getElem?_set_self hklt] at hj
      cases hj
      rw [hh]
      exact hsrc hfin y t hheld hlive
    · rw [List.getElem?_set_ne (fun hc => hjk hc.symm)] at hj
      exact h.stores hfin j m y t hj hheld (by omega)

/-- the announce clause survives a step of node `k` that keeps its store or only purges it, and
keeps the announces in flight -/
theorem ann_keep {P : Phase} (hW : NetWF P) {cfg : NetCfg} {c : RCfg} {fin : Option Nat} (h : SInv P cfg c fin)
    {k : Nat} {n : NNode} (hk : cfg.nodes[k]? = some n) (s' : HState) (now : Nat) (hn1 : cfg.now ≤ now) (hn2 : now ≤ P.G)
    (hself : s'.selfId = n.st.selfId)
    (hstore : s'.store = n.st.store ∨ s'.store = (n.st.store.find P.ih now).1 ∨
      (s'.store = (n.st.store.add P.item now).1 ∧ n.st.store.expires.length < Constants.MAX_ITEMS_STORED ∧
        ∀ T1, fin = some T1 → now ≤ T1 + P.D))
    (F' : List Pkt) (hFkeep : ∀ x ∈ closest8 P.ih P.N, ∀ p, p ∈ cfg.flight → IsAnnTo P x p → p ∈ F' ∨ (x = n.handle ∧
      (s'.store = (n.st.store.add P.item now).1 ∧ n.st.store.expires.length < Constants.MAX_ITEMS_STORED ∧
        ∀ T1, fin = some T1 → now ≤ T1 + P.D))) :
    ∀ T1, fin = some T1 → P.ann = true → ∀ x ∈ closest8 P.ih P.N, (∃ p ∈ F', IsAnnTo P x p) ∨
      ∃ (j : Nat) (m : NNode) (t : Nat), (cfg.nodes.set k { n with st := s' })[j]? = some m ∧ m.handle = x ∧
        Held m.st.store P.item t ∧ T1 ≤ t ∧ t ≤ T1 + P.D := by
  intro T1 hT hann x hx
  have hklt : k < cfg.nodes.length := (List.getElem?_eq_some_iff.mp hk).1
  have hnk := h.nodes k n hk
  have hh : ({ n with st := s' } : NNode).handle = n.handle := by simp [NNode.handle, hself]
  obtain ⟨hT0, hT1⟩ := h.fint T1 hT
  have hwin := hW.window
  -- what happens to a pair held by node `k`
  have hheld : ∀ t, Held n.st.store P.item t → T1 ≤ t → t ≤ T1 + P.D →
      ∃ t', Held s'.store P.item t' ∧ T1 ≤ t' ∧ t' ≤ T1 + P.D := by
    intro t ht h1 h2
    rcases hstore with e | e | ⟨e, hroom, hlate⟩
    · exact ⟨t, by rw [e]; exact ht, h1, h2⟩
    · exact ⟨t, by rw [e]; exact (held_find hnk.storeWF hn1 P.ih P.item t).mpr ⟨ht, by omega⟩, h1, h2⟩
    · exact ⟨now, by rw [e]; exact (add_spec hnk.storeWF hn1 P.item hroom).2.1, by omega, hlate T1 hT⟩
  rcases h.ann T1 hT hann x hx with ⟨p, hp, hpa⟩ | ⟨j, m, t, hj, hm, ht, h1, h2⟩
  · rcases hFkeep x hx p hp hpa with hin | ⟨hxn, e, hroom, hlate⟩
    · exact Or.inl ⟨p, hin, hpa⟩
    · right
      exact ⟨k, _, now, List.getElem?_set_self hklt, hh.trans hxn.symm,
        by simp only; rw [e]; exact (add_spec hnk.storeWF hn1 P.item hroom).2.1, by omega, hlate T1 hT⟩
  · by_cases hjk : j = k
    · subst hjk
      rw [hk] at hj
      cases hj
      obtain ⟨t', a, b, d⟩ := hheld t ht h1 h2
      exact Or.inr ⟨j, _, t', List.getElem?_set_self hklt, hh.trans hm, a, b, d⟩
    · exact Or.inr ⟨j, m, t, by rw [List.getElem?_set_ne (fun hc => hjk hc.symm)]; exact hj, hm, ht, h1, h2⟩

theorem step_deliver_eq (cfg : NetCfg) (i k : Nat) (p : Pkt) (n : NNode) (now : Nat) (hp : cfg.flight[i]? = some p)
    (hf : cfg.nodes.findIdx? (fun m => m.addr = p.dst) = some k) (hn : cfg.nodes[k]? = some n) :
    cfg.step (.deliver i) now =
      { nodes := cfg.nodes.set k { n with st := (n.st.hstepE (.incoming p.tid p.body p.src) now).1 },
        flight := cfg.flight.eraseIdx i ++ emit cfg.nodes n.addr now (n.st.hstepE (.incoming p.tid p.body p.src) now).2,
        now := now,
        yields := cfg.yields ++ yieldsOf k (n.st.hstepE (.incoming p.tid p.body p.src) now).2 } := by
  simp only [NetCfg.step, hp, hf, NetCfg.nodeStep, hn]

theorem step_node_eq (cfg : NetCfg) (k : Nat) (n : NNode) (op : HOp) (now : Nat) (hn : cfg.nodes[k]? = some n) :
    cfg.nodeStep k op now =
      { nodes := cfg.nodes.set k { n with st := (n.st.hstepE op now).1 },
        flight := cfg.flight ++ emit cfg.nodes n.addr now (n.st.hstepE op now).2,
        now := now,
        yields := cfg.yields ++ yieldsOf k (n.st.hstepE op now).2 } := by
  simp only [NetCfg.nodeStep, hn]

/-- the network has at least two nodes: every handle has another one beside it -/
theorem exists_other {P : Phase} (hW : NetWF P) (y : Handle) : ∃ x ∈ P.N, x ≠ y := by
  have h2 := hW.two
  match hN' : P.N, h2 with
  | x :: z :: rest, _ =>
    have hnd : x ≠ z := by
      have := hW.net.nodup
      rw [hN'] at this
      exact (List.nodup_cons.mp this).1 ∘ (fun e => e ▸ List.mem_cons_self)
    by_cases hx : x = y
    · exact ⟨z, by simp, fun hy => hnd (hx.trans hy.symm)⟩
    · exact ⟨x, by simp, hx⟩

/-- the family of the answering node is the family of the network -/
theorem serves_v6 {P : Phase} (hW : NetWF P) {n : NNode}
    (hs : Serves (P.N.filter (· ≠ n.handle)) P.G n.st) : n.st.v6 = P.a.addr.v6 := by
  obtain ⟨x, hx, hne⟩ := exists_other hW n.handle
  have h1 := hs.fam x (List.mem_filter.mpr ⟨hx, by simpa using hne⟩)
  rw [← h1]; exact hW.fam x hx

theorem a_mem {P : Phase} (hW : NetWF P) : P.a ∈ P.N := List.mem_of_getElem? hW.aN

/-- **a `get_peers` query of the search is delivered**: the node answers truthfully, with a fresh token -/
theorem sinv_deliver_query {P : Phase} (hW : NetWF P) {cfg : NetCfg} {c : RCfg} {fin : Option Nat} (h : SInv P cfg c fin)
    (i now : Nat) (hok : cfg.okStep P.D (.deliver i) now) (hG : now ≤ P.G) (p : Pkt) (hp : cfg.flight[i]? = some p)
    (x : Handle) (tid : Tid) (hx : x ∈ P.N) (hsrc : p.src = P.a.addr) (hdst : p.dst = x.addr) (htid : p.tid = .sym tid)
    (haid : tid.aid = P.A) (hbody : p.body = .req (.getPeers P.a.id P.ih none)) (hlog : (tid, x.addr, p.sent) ∈ c.log) :
    SInv P (cfg.step (.deliver i) now) c fin := by
  obtain ⟨hn1, htimely, _⟩ := hok
  obtain ⟨k, n, hk, hnx, hfi⟩ := node_of_handle hW h.len (fun k n hk => (h.nodes k n hk).handle) hx
  rw [← hdst] at hfi
  rw [step_deliver_eq cfg i k p n now hp hfi hk]
  have hnk := h.nodes k n hk
  have hpm : p ∈ cfg.flight := List.mem_of_getElem? hp
  have hM : Serves (P.N.filter (· ≠ n.handle)) P.G n.st := hnk.serves
  obtain ⟨rs, heq, r1, r2, r4, r5, r6⟩ := serves_getPeers hM (.sym tid) P.a.id P.ih P.a.addr now hG
  have hstep : n.st.hstepE (.incoming p.tid p.body p.src) now =
      ({ (n.st.markRemote P.a.id P.a.addr now) with store := (n.st.store.find P.ih now).1, tokens := n.st.tokens.refreshCheck now },
        [.send P.a.addr (.sym tid) (.resp rs) true]) := by
    rw [htid, hbody, hsrc]; exact heq
  rw [hstep]
  have hany : cfg.nodes.any (fun m => m.addr = P.a.addr) = true :=
    any_addr hW h.len (fun k n hk => (h.nodes k n hk).handle) (a_mem hW)
  have hemit : emit cfg.nodes n.addr now [.send P.a.addr (.sym tid) (.resp rs) true] =
      [⟨n.addr, P.a.addr, .sym tid, .resp rs, now⟩] := by
    unfold emit
    simp only [List.filterMap_cons, List.filterMap_nil, hany, if_true]
  rw [hemit]
  have hy : yieldsOf k [HEffect.send P.a.addr (.sym tid) (.resp rs) true] = [] := rfl
  rw [hy, List.append_nil]
  have hv6 : n.st.v6 = P.a.addr.v6 := serves_v6 hW hM
  have hsr := serves_request hM (.sym tid) (.getPeers P.a.id P.ih none) P.a.addr now
  rw [heq] at hsr
  have hwin := hW.window
  have hfound := fun y => found_iff hnk.storeWF hn1 P.ih y
  refine sinv_server_step hW h hk _ now hn1 hG hsr rfl rfl (fun te hte => hte) rfl (Or.inr rfl)
    (find_refines n.st.store cfg.now now hnk.storeWF hn1 P.ih).2.2
    (Nat.le_trans (others_find hnk.storeWF hn1 P.ih P.item) hnk.storeSmall) (fun hm => ?_) (fun hfin y t hheld hlive => ?_)
    _ (fun q hq => ?_) (fun hfin q hq hna => ?_) ?_
  · obtain ⟨t, ht, hlt⟩ := hnk.storeMust hm
    exact ⟨t, (held_find hnk.storeWF hn1 P.ih _ t).mpr ⟨ht, by omega⟩, hlt⟩
  · obtain ⟨h1, _⟩ := (held_find hnk.storeWF hn1 P.ih _ t).mp hheld
    exact h.stores hfin k n y t hk h1 (by omega)
  · rcases List.mem_append.mp hq with hq | hq
    · refine pktOk_mono (fun y t hv => ?_) (fun q hq => hq) (fun T hf => hf) (h.pkts q (List.mem_of_mem_eraseIdx hq))
      exact tokV_set hW hk (by simp [NNode.handle, HState.markRemote]) (Or.inr rfl) (Nat.le_trans hnk.tokClock hn1) hG hv
    · rw [List.mem_singleton.mp hq]
      have hklt : k < cfg.nodes.length := (List.getElem?_eq_some_iff.mp hk).1
      refine .answer x tid rs p.sent (tokEnc ⟨P.a.addr.ip, (n.st.tokens.refreshCheck now).curr⟩) hx rfl
        (by simp only; rw [← hnx]; rfl) rfl haid rfl hlog (htimely p hpm) ?_ r2 ?_ (fun hfin y hy => ?_) (fun hm => ?_)
      · refine ⟨r1.trans (by rw [← hnx]; rfl), ⟨_, r2, ?_⟩, ?_, ?_, ?_⟩
        · rw [tokEnc_length _ (hW.ipLen _ (a_mem hW))]; decide
        · rw [← hv6]; intro y hy; exact (List.mem_filter.mp (r5 y hy)).1
        · rw [← hv6]; intro y hy hne; exact r6 y (List.mem_filter.mpr ⟨hy, by rw [hnx]; simpa using hne⟩)
        · rw [← hv6]
          intro hnil
          obtain ⟨y, hy, hne⟩ := exists_other hW n.handle
          have := r6 y (List.mem_filter.mpr ⟨hy, by simpa using hne⟩)
          rw [hnil] at this
          cases this
      · refine ⟨(n.st.tokens.refreshCheck now).curr, now, k, _, by simp only; rw [List.getElem?_set_self hklt], ?_, rfl,
          Nat.le_trans h.time.1 hn1, ?_⟩
        · simp only [NNode.handle, HState.markRemote]; exact hnx
        · left
          exact ⟨rfl, refreshCheck_lastRefresh_le _ _ (Nat.le_trans hnk.tokClock hn1),
            refreshCheck_fresh_interval _ _ (Nat.le_trans hnk.tokClock hn1)⟩
      · rw [r4] at hy
        obtain ⟨t, h1, h2⟩ := (hfound y).mp (List.mem_filter.mp (List.mem_of_mem_take hy)).1
        rw [← hnx]
        exact h.stores hfin k n y t hk h1 (by omega)
      · rw [← hnx] at hm
        obtain ⟨t, ht, hlt⟩ := hnk.storeMust hm
        have hin : P.x ∈ (n.st.store.find P.ih now).2 := (hfound P.x).mpr ⟨t, ht, by omega⟩
        have hlen : (n.st.store.find P.ih now).2.length ≤ (if P.a.addr.v6 = true then 40 else 100) := by
          have h1 := (find_lengths hnk.storeWF hn1 P.ih).2
          have h2 := total_le_others hnk.storeWF P.item
          have h3 := hnk.storeSmall
          split <;> omega
        rw [r4, List.take_of_length_le (Nat.le_trans (List.length_filter_le _ _) hlen)]
        exact List.mem_filter.mpr ⟨hin, by simp [hW.xfam]⟩
  · obtain ⟨p', hp', ht', hd'⟩ := (h.client hfin).cover q hq hna
    rcases mem_eraseIdx_or cfg.flight i p' hp' with hin | hiq
    · exact ⟨p', List.mem_append_left _ hin, ht', hd'⟩
    · rw [hp] at hiq
      cases hiq
      refine ⟨_, List.mem_append_right _ (List.mem_singleton.mpr rfl), htid.symm.trans ht', Or.inr ⟨⟨rs, rfl⟩, ?_⟩⟩
      simp only
      rcases hd' with ⟨_, h2⟩ | ⟨⟨rsp, h2⟩, _⟩
      · rw [← h2]; exact htimely p hpm
      · rw [hbody] at h2; cases h2
  · refine ann_keep hW h hk
      { (n.st.markRemote P.a.id P.a.addr now) with store := (n.st.store.find P.ih now).1, tokens := n.st.tokens.refreshCheck now }
      now hn1 hG rfl (Or.inr (Or.inl rfl)) _ (fun x' _ p' hp' ha' => ?_)
    rcases mem_eraseIdx_or cfg.flight i p' hp' with hin | hiq
    · exact Or.inl (List.mem_append_left _ hin)
    · rw [hp] at hiq
      cases hiq
      obtain ⟨_, t', hb'⟩ := ha'
      rw [hbody] at hb'; cases hb'

/-- the node with a given handle is unique -/
theorem node_unique {P : Phase} (hW : NetWF P) {cfg : NetCfg} {c : RCfg} {fin : Option Nat} (h : SInv P cfg c fin)
    {j k : Nat} {m n : NNode} (hj : cfg.nodes[j]? = some m) (hk : cfg.nodes[k]? = some n) (e : m.handle = n.handle) :
    j = k ∧ m = n := by
  have h1 := (h.nodes j m hj).handle
  have h2 := (h.nodes k n hk).handle
  obtain ⟨hjl, hje⟩ := List.getElem?_eq_some_iff.mp h1
  obtain ⟨hkl, hke⟩ := List.getElem?_eq_some_iff.mp h2
  have : j = k := getElem_inj_of_nodup hW.net.nodup hjl hkl (by rw [hje, hke, e])
  subst this
  rw [hj] at hk
  exact ⟨rfl, Option.some.inj hk⟩

/-- **an `announce_peer` of the finished search is delivered**: accepted and stored -/
theorem sinv_deliver_announce {P : Phase} (hW : NetWF P) {cfg : NetCfg} {c : RCfg} {T1 : Nat} (h : SInv P cfg c (some T1))
    (i now : Nat) (hok : cfg.okStep P.D (.deliver i) now) (hG : now ≤ P.G) (p : Pkt) (hp : cfg.flight[i]? = some p)
    (x : Handle) (tid : Tid) (t : Bytes) (hsent : p.sent = T1) (hx : x ∈ P.N) (hsrc : p.src = P.a.addr) (hdst : p.dst = x.addr)
    (htid : p.tid = .sym tid) (haid : tid.aid = P.A) (hbody : p.body = .req (.announce P.a.id P.ih P.port t))
    (htv : TokV P cfg x t) :
    SInv P (cfg.step (.deliver i) now) c (some T1) := by
  obtain ⟨hn1, htimely, _⟩ := hok
  obtain ⟨k, n, hk, hnx, hfi⟩ := node_of_handle hW h.len (fun k n hk => (h.nodes k n hk).handle) hx
  rw [← hdst] at hfi
  rw [step_deliver_eq cfg i k p n now hp hfi hk]
  have hnk := h.nodes k n hk
  have hpm : p ∈ cfg.flight := List.mem_of_getElem? hp
  have hklt : k < cfg.nodes.length := (List.getElem?_eq_some_iff.mp hk).1
  obtain ⟨κ, ti, j, m, hj, hmx, ht, hti, hval⟩ := htv
  obtain ⟨hjk, hmn⟩ := node_unique hW h hj hk (hmx.trans hnx.symm)
  subst hjk; subst hmn
  have hwin := hW.window
  have hroom : m.st.store.expires.length < Constants.MAX_ITEMS_STORED := by
    have h1 := total_le_others hnk.storeWF P.item
    have h2 := hnk.storeSmall
    have : Constants.MAX_ITEMS_STORED = 500 := by decide
    omega
  have heq := serves_announce hnk.serves (.sym tid) P.a.id P.ih P.port κ ti P.a.addr now cfg.now
    (hW.ipLen _ (a_mem hW)) (hW.ipBytes _ (a_mem hW)) hval (Nat.le_trans hnk.tokClock hn1)
    (by omega) hnk.storeWF hn1 hroom
  have hstep : m.st.hstepE (.incoming p.tid p.body p.src) now =
      ({ (m.st.markRemote P.a.id P.a.addr now) with
          tokens := m.st.tokens.refreshCheck now, store := (m.st.store.add P.item now).1 },
        [.send P.a.addr (.sym tid) (.resp (emptyResp m.st.selfId)) true]) := by
    rw [htid, hbody, hsrc, ht]; exact heq
  rw [hstep]
  have hany : cfg.nodes.any (fun m => m.addr = P.a.addr) = true :=
    any_addr hW h.len (fun k n hk => (h.nodes k n hk).handle) (a_mem hW)
  have hemit : emit cfg.nodes m.addr now [.send P.a.addr (.sym tid) (.resp (emptyResp m.st.selfId)) true] =
      [⟨m.addr, P.a.addr, .sym tid, .resp (emptyResp m.st.selfId), now⟩] := by
    unfold emit
    simp only [List.filterMap_cons, List.filterMap_nil, hany, if_true]
  rw [hemit]
  have hy : yieldsOf j [HEffect.send P.a.addr (.sym tid) (.resp (emptyResp m.st.selfId)) true] = [] := rfl
  rw [hy, List.append_nil]
  have hsr := serves_request hnk.serves (.sym tid) (.announce P.a.id P.ih P.port (tokEnc ⟨P.a.addr.ip, κ⟩)) P.a.addr now
  rw [heq] at hsr
  have hadd := add_spec hnk.storeWF hn1 P.item hroom
  have hlate : ∀ T, some T1 = some T → now ≤ T + P.D := by
    intro T hT; cases hT; rw [← hsent]; exact htimely p hpm
  refine sinv_server_step hW h hk _ now hn1 hG hsr rfl rfl (fun te hte => hte) rfl (Or.inr rfl)
    (add_refines m.st.store cfg.now now hnk.storeWF hn1 P.item).2.2
    (Nat.le_trans (others_add_self hnk.storeWF hn1 P.item) hnk.storeSmall) (fun hm => ?_) (fun hfin => by cases hfin)
    _ (fun q hq => ?_) (fun hfin => by cases hfin) ?_
  · obtain ⟨t', ht', hlt⟩ := hnk.storeMust hm
    have ht0 := h.time.1
    by_cases hit : (⟨P.ih, P.x⟩ : Item) = P.item
    · exact ⟨now, by rw [hit]; exact hadd.2.1, by omega⟩
    · exact ⟨t', hadd.2.2.2.2 _ t' hit ht' (by omega), hlt⟩
  · rcases List.mem_append.mp hq with hq | hq
    · refine pktOk_mono (fun y t hv => ?_) (fun q hq => hq) (fun T hf => hf) (h.pkts q (List.mem_of_mem_eraseIdx hq))
      exact tokV_set hW hk (by simp [NNode.handle, HState.markRemote]) (Or.inr rfl) (Nat.le_trans hnk.tokClock hn1) hG hv
    · rw [List.mem_singleton.mp hq]
      exact .reply tid (by simp) rfl rfl haid (fun r hc => by cases hc)
  · refine ann_keep hW h hk
      { (m.st.markRemote P.a.id P.a.addr now) with tokens := m.st.tokens.refreshCheck now, store := (m.st.store.add P.item now).1 }
      now hn1 hG rfl (Or.inr (Or.inr ⟨rfl, hroom, hlate⟩)) _ (fun x' hx' p' hp' ha' => ?_)
    rcases mem_eraseIdx_or cfg.flight i p' hp' with hin | hiq
    · exact Or.inl (List.mem_append_left _ hin)
    · rw [hp] at hiq
      cases hiq
      right
      refine ⟨?_, rfl, hroom, hlate⟩
      have : x' = x := hW.net.addr_inj (mem_closestK hx') hx (ha'.1.symm.trans hdst)
      rw [this, hnx]

theorem emit_nil (nodes : List NNode) (src : Addr) (now : Nat) : emit nodes src now [] = [] := rfl

/-- **a reply arrives at the searching node after its search has ended**: dropped -/
theorem sinv_deliver_stray {P : Phase} (hW : NetWF P) {cfg : NetCfg} {c : RCfg} {T1 : Nat} (h : SInv P cfg c (some T1))
    (i now : Nat) (hok : cfg.okStep P.D (.deliver i) now) (hG : now ≤ P.G) (p : Pkt) (hp : cfg.flight[i]? = some p)
    (tid : Tid) (hdst : p.dst = P.a.addr) (htid : p.tid = .sym tid) (haid : tid.aid = P.A) (hbody : ∀ r, p.body ≠ .req r) :
    SInv P (cfg.step (.deliver i) now) c (some T1) := by
  obtain ⟨hn1, htimely, _⟩ := hok
  obtain ⟨k, n, hk, hnx, hfi⟩ := node_of_handle hW h.len (fun k n hk => (h.nodes k n hk).handle) (a_mem hW)
  rw [← hdst] at hfi
  rw [step_deliver_eq cfg i k p n now hp hfi hk]
  have hnk := h.nodes k n hk
  have hidle : n.st.lookups = [] := h.idle k n hk (Or.inr (by simp))
  have hstep : n.st.hstepE (.incoming p.tid p.body p.src) now = (n.st, []) := by
    rw [htid]
    cases hb : p.body with
    | req r => exact absurd hb (hbody r)
    | err code m => rfl
    | resp rsp => exact idle_resp n.st tid rsp p.src now hidle (by rw [haid]; exact hW.aid)
  have hy : yieldsOf k ([] : List HEffect) = [] := rfl
  rw [hstep, emit_nil, List.append_nil, hy, List.append_nil]
  refine sinv_server_step hW h hk n.st now hn1 hG hnk.serves rfl rfl (fun te hte => hte) rfl (Or.inl rfl)
    (stWF_mono hnk.storeWF hn1) hnk.storeSmall hnk.storeMust (fun hfin => by cases hfin) _ (fun q hq => ?_)
    (fun hfin => by cases hfin) ?_
  · refine pktOk_mono (fun y t hv => ?_) (fun q hq => hq) (fun T hf => hf) (h.pkts q (List.mem_of_mem_eraseIdx hq))
    exact tokV_set hW hk rfl (Or.inl rfl) (Nat.le_trans hnk.tokClock hn1) hG hv
  · refine ann_keep hW h hk n.st now hn1 hG rfl (Or.inl rfl) _ (fun x' _ p' hp' ha' => ?_)
    rcases mem_eraseIdx_or cfg.flight i p' hp' with hin | hiq
    · exact Or.inl hin
    · rw [hp] at hiq
      cases hiq
      obtain ⟨_, t', hb'⟩ := ha'
      exact absurd hb' (hbody _)

/-- **a timer entry fires on a node that runs no search**: only the entry is consumed -/
theorem sinv_fire_idle {P : Phase} (hW : NetWF P) {cfg : NetCfg} {c : RCfg} {fin : Option Nat} (h : SInv P cfg c fin)
    (k now : Nat) (hn1 : cfg.now ≤ now) (hG : now ≤ P.G) (n : NNode) (hk : cfg.nodes[k]? = some n)
    (hidle : n.st.lookups = []) (timer : Timer Task) (e : TimerEntry Task) (hpop : n.st.timer.pop = some (timer, e)) :
    SInv P (cfg.step (.fire k) now) c fin := by
  have hnk := h.nodes k n hk
  obtain ⟨p1, _, p3, _, _⟩ := pop_spec n.st.timer timer e hpop
  have hstep : n.st.hstepE .fire now = ({ n.st with timer := timer }, []) := by
    simp only [HState.hstepE, idle_fire n.st timer e now hidle hpop (hnk.noRefresh e p1)]
  show SInv P (cfg.nodeStep k .fire now) c fin
  have hy : yieldsOf k ([] : List HEffect) = [] := rfl
  rw [step_node_eq cfg k n .fire now hk, hstep, emit_nil, List.append_nil, hy, List.append_nil]
  refine sinv_server_step hW h hk { n.st with timer := timer } now hn1 hG
    ⟨hnk.serves.serving, hnk.serves.sends, hnk.serves.idlen, hnk.serves.knows, hnk.serves.fam, hnk.serves.noph⟩ rfl rfl p3 rfl (Or.inl rfl)
    (stWF_mono hnk.storeWF hn1) hnk.storeSmall hnk.storeMust
    (fun hfin y t hheld hlive => h.stores hfin k n y t hk hheld (by omega))
    _ (fun q hq => ?_) (fun hfin q hq hna => (h.client hfin).cover q hq hna) ?_
  · refine pktOk_mono (fun y t hv => ?_) (fun q hq => hq) (fun T hf => hf) (h.pkts q hq)
    exact tokV_set (n' := { n with st := { n.st with timer := timer } }) hW hk rfl (Or.inl rfl)
      (Nat.le_trans hnk.tokClock hn1) hG hv
  · exact ann_keep hW h hk { n.st with timer := timer } now hn1 hG rfl (Or.inl rfl) _ (fun x' _ p' hp' _ => Or.inl hp')

end Btdht
