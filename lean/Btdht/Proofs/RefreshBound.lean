import Btdht.Proofs.Dht
import Btdht.Proofs.Deadline
import Btdht.Props.C18
/-!
C11 helpers, part 1: the cadence of the routing-table refresh in punctual runs.

The handler-level run of `Proofs/Deadline.lean` (`HOp`: a datagram, a search start, a timer firing)
is extended by the three other things that touch the handler's routing table or start the refresh
chain (`NOp`): the first refresh round (`handle_bootstrap_success`), an answer accepted by the
bootstrap worker, a query sent by the bootstrap worker.

Invariant (`ChainInv`): once the chain was started exactly one `TableRefresh` entry is pending and
it is due 6 s after the latest round. It is never cancelled: `cancel` is only called with the key of
a pending query-timeout entry of a search (`HDl`, C04), and timer ids are pairwise distinct.
-/
namespace Btdht

/-- what happens to the handler's state: the handler's own reactions (`HOp`), the first refresh
round, and the two things the bootstrap worker does to the shared routing table -/
inductive NOp where
  | h (op : HOp)
  /-- `handle_bootstrap_success` starts the refresh chain: the first `continue_refresh` -/
  | kick
  /-- the bootstrap worker accepted an answer: responder (as good) and named nodes are offered -/
  | wAnswer (rsp : Resp) (src : Addr)
  /-- the bootstrap worker sent a query to a listed contact (`local_request`) -/
  | wQuery (hd : Handle)

def HState.nstep (s : HState) (op : NOp) (now : Nat) : HState :=
  match op with
  | .h op => s.hstep op now
  | .kick => (s.refresh now).1
  | .wAnswer rsp src => { s with table := s.table.addNodes (Node.asGood ⟨rsp.id, src⟩ now) (s.namedBy rsp) now }
  | .wQuery hd => { s with table := markRequested s.table hd now }

/-- the ghost bookkeeping of C04 (start instant and first-round size of every search) -/
def nghost (g : Nat → Nat × Nat) (s : HState) (op : NOp) (now : Nat) : Nat → Nat × Nat :=
  match op with
  | .h op => ghostStep g s op now
  | _ => g

/-- the step is a refresh round: the first one, or the timer hands out the `TableRefresh` entry -/
def HState.isRound (s : HState) (op : NOp) : Bool :=
  match op with
  | .kick => true
  | .h .fire => match s.timer.pop with
    | some (_, e) => decide (e.task = .tableRefresh)
    | none => false
  | _ => false

/-- the instant of the latest refresh round -/
def lrStep (lr : Option Nat) (s : HState) (op : NOp) (now : Nat) : Option Nat :=
  if s.isRound op then some now else lr

/-- not started: no refresh entry; started: exactly one, due 6 s after the latest round -/
def ChainInv (s : HState) (lr : Option Nat) : Prop :=
  match lr with
  | none => refreshEntries s.timer = []
  | some r => ∃ e, refreshEntries s.timer = [e] ∧ e.deadline = r + sixS

theorem mem_refreshEntries (t : Timer Task) (e : TimerEntry Task) :
    e ∈ refreshEntries t ↔ (e ∈ t.entries ∧ e.task = .tableRefresh) := by
  simp [refreshEntries]

/-- a sub-list of a singleton that still contains the element is the singleton -/
theorem sublist_singleton_mem {α} (l : List α) (a : α) (hs : l.Sublist [a]) (hm : a ∈ l) : l = [a] := by
  cases hs with
  | cons _ h => have := List.sublist_nil.mp h; subst this; simp at hm
  | cons_cons _ h => have := List.sublist_nil.mp h; subst this; rfl

/-- the entries kept and none added ⇒ the chain invariant is kept -/
theorem chain_keep (s s' : HState) (lr : Option Nat) (h : ChainInv s lr) (hle : RLe s.timer s'.timer)
    (hkeep : ∀ e ∈ s.timer.entries, e.task = .tableRefresh → e ∈ s'.timer.entries) : ChainInv s' lr := by
  cases lr with
  | none =>
    simp only [ChainInv] at h ⊢
    unfold RLe at hle
    rw [h] at hle
    exact List.sublist_nil.mp hle
  | some r =>
    simp only [ChainInv] at h ⊢
    obtain ⟨e, he, hd⟩ := h
    refine ⟨e, ?_, hd⟩
    unfold RLe at hle
    rw [he] at hle
    have hin : e ∈ refreshEntries s.timer := by rw [he]; simp
    obtain ⟨h1, h2⟩ := (mem_refreshEntries _ _).mp hin
    exact sublist_singleton_mem _ _ hle ((mem_refreshEntries _ _).mpr ⟨hkeep e h1 h2, h2⟩)

/-- a query timeout keeps every pending entry (it may add the end-game entry) -/
theorem recvTimeout_ext (l : Lookup) (env : LEnv) (tid : Tid) : TimerExt env.timer (l.recvTimeout env tid).2.1.timer := by
  unfold Lookup.recvTimeout
  split
  · exact timerExt_refl _
  · simp only
    split
    · obtain ⟨_, _, _, e4, _⟩ := endgameRound_res { l with active := l.active.filter (·.1 ≠ tid) } env
      rw [e4]
      exact scheduleAt_ext _ _ _
    · exact timerExt_refl _

/-- an answer to the stored search `l`: every pending entry that is not a query timeout survives -/
theorem lookupResponse_keep (J : Nat) (g : Nat → Nat × Nat) (s : HState) (now : Nat) (h : HDl J g s) (hp : Punctual J s now)
    (l : Lookup) (hl : l ∈ s.lookups) (t? : Option Tid) (rsp : Resp) (src : Addr)
    (e : TimerEntry Task) (he : e ∈ s.timer.entries) (ht : e.task = .tableRefresh) :
    e ∈ (s.lookupResponse l t? rsp src now).1.timer.entries := by
  have hlinv := h.inv l hl
  unfold HState.lookupResponse
  extract_lets s1 r s2
  have hr : e ∈ r.2.1.timer.entries := by
    cases t? with
    | none => exact he
    | some t =>
      show e ∈ (l.recvResponse (s1.env now) ⟨rsp.id, src⟩ t rsp).2.1.timer.entries
      cases hfind : l.active.find? (·.1 = t) with
      | none => rw [recvResponse_unknown l _ _ t rsp hfind]; exact he
      | some entry =>
        have d := recvResponse_dl J (g l.aid).1 (g l.aid).2 l (s1.env now) ⟨rsp.id, src⟩ t rsp entry hfind hlinv h.timerOk hp
        apply d.1.keep
        cases hE : l.inEndgame with
        | true => simp only [afterAnswer, if_true]; exact he
        | false =>
          simp only [afterAnswer, Bool.false_eq_true, if_false]
          obtain ⟨hmem, _⟩ := find_some_mem _ _ _ hfind
          obtain ⟨te, hte1, hte2, hte3, _⟩ := (hlinv.reg hE).2 entry hmem
          refine cancel_keeps _ _ e he ?_
          intro hid
          have hsame : e.id = te.id := by
            rw [hid]
            have := congrArg Prod.snd hte2
            simpa using this.symm
          have := timerOk_inj h.timerOk he hte1 hsame
          rw [this, hte3] at ht
          cases ht
  split
  · rw [completeLookup_timer]; exact hr
  · exact hr

/-- **the handler's reactions other than a timer firing never remove a `TableRefresh` entry** -/
theorem hstep_keep (J : Nat) (g : Nat → Nat × Nat) (s : HState) (op : HOp) (now : Nat) (h : HDl J g s)
    (hp : Punctual J s now) (hnf : ∀ (_ : op = .fire), False)
    (e : TimerEntry Task) (he : e ∈ s.timer.entries) (ht : e.task = .tableRefresh) :
    e ∈ (s.hstep op now).timer.entries := by
  cases op with
  | fire => exact (hnf rfl).elim
  | start target ann =>
    show e ∈ (s.startLookup target ann now).1.timer.entries
    unfold HState.startLookup
    rw [afterNew_timer]
    exact (new_dl J s.nextAid s.nextStream s.selfId s.v6 target ann (s.env now)).1.keep e he
  | incoming tid body src =>
    show e ∈ (s.handleIncoming tid body src now).1.timer.entries
    unfold HState.handleIncoming
    cases body with
    | req r => simp only; rw [handleRequest_timer]; exact he
    | err c m => exact he
    | resp rsp =>
      simp only
      unfold HState.handleResponse
      cases hroute : tid.route with
      | none => exact he
      | some at_ =>
        obtain ⟨aid, t?⟩ := at_
        simp only
        cases hfl : s.lookups.find? (·.aid = aid) with
        | none =>
          simp only
          split
          · exact he
          · exact he
        | some l =>
          simp only
          obtain ⟨hl, _⟩ := find_some_mem _ _ _ hfl
          exact lookupResponse_keep J g s now h hp l hl t? rsp src e he ht

theorem hstep_rle (s : HState) (op : HOp) (now : Nat) (hnf : ∀ (_ : op = .fire), False) :
    RLe s.timer (s.hstep op now).timer := by
  cases op with
  | fire => exact (hnf rfl).elim
  | start target ann => exact startLookup_rle s target ann now
  | incoming tid body src => exact handleIncoming_rle s tid body src now

/-- a timer firing that is not the refresh entry keeps the refresh entries -/
theorem handleTask_keep (s : HState) (task : Task) (now : Nat) (hne : task ≠ .tableRefresh)
    (e : TimerEntry Task) (he : e ∈ s.timer.entries) : e ∈ (s.handleTask task now).1.timer.entries := by
  cases task with
  | tableRefresh => exact absurd rfl hne
  | lookupEndGame t => show e ∈ (s.completeLookup t.aid now).1.timer.entries; rw [completeLookup_timer]; exact he
  | lookupTimeout t =>
    simp only [HState.handleTask]
    split
    · exact he
    · rename_i l _
      simp only [HState.lookupTimeout]
      have h1 := (recvTimeout_ext l (s.env now) t).keep e he
      split
      · rw [completeLookup_timer]; exact h1
      · exact h1

theorem isRound_fire (s : HState) (timer : Timer Task) (e : TimerEntry Task) (hp : s.timer.pop = some (timer, e)) :
    s.isRound (.h .fire) = decide (e.task = .tableRefresh) := by
  simp [HState.isRound, hp]

/-- **every step keeps the chain invariant**; a round (re)schedules the single entry 6 s ahead -/
theorem nstep_chain (J : Nat) (g : Nat → Nat × Nat) (s : HState) (lr : Option Nat) (op : NOp) (now : Nat)
    (h : HDl J g s) (hc : ChainInv s lr) (hp : Punctual J s now)
    (hk : op = .kick → refreshEntries s.timer = []) :
    ChainInv (s.nstep op now) (lrStep lr s op now) := by
  cases op with
  | kick =>
    have hre := refresh_entries s now
    rw [hk rfl] at hre
    simp only [lrStep, HState.isRound, if_true, ChainInv, HState.nstep]
    exact ⟨_, hre, by simp [sixS]⟩
  | wAnswer rsp src =>
    simp only [lrStep, HState.isRound, Bool.false_eq_true, if_false, HState.nstep]
    exact chain_keep s _ lr hc (RLe.refl _) (fun e he _ => he)
  | wQuery hd =>
    simp only [lrStep, HState.isRound, Bool.false_eq_true, if_false, HState.nstep]
    exact chain_keep s _ lr hc (RLe.refl _) (fun e he _ => he)
  | h hop =>
    by_cases hf : hop = .fire
    · subst hf
      show ChainInv (s.fireTimer now).1 _
      unfold HState.fireTimer
      cases hpop : s.timer.pop with
      | none =>
        simp only [lrStep, HState.isRound, hpop, Bool.false_eq_true, if_false]
        exact hc
      | some pe =>
        obtain ⟨timer, e0⟩ := pe
        simp only [lrStep, isRound_fire s timer e0 hpop]
        obtain ⟨hle, hmem, hone⟩ := pop_refresh _ _ _ hpop
        obtain ⟨_, _, _, p4, _⟩ := pop_spec s.timer timer e0 hpop
        by_cases htask : e0.task = .tableRefresh
        · -- the refresh entry fires: it was the only one
          simp only [htask, decide_true, if_true, ChainInv]
          have hin : e0 ∈ refreshEntries s.timer := (mem_refreshEntries _ _).mpr ⟨hmem, htask⟩
          have hlen : (refreshEntries s.timer).length ≤ 1 := by
            cases lr with
            | none => simp only [ChainInv] at hc; rw [hc] at hin; simp at hin
            | some r => simp only [ChainInv] at hc; obtain ⟨e, he, _⟩ := hc; rw [he]; simp
          have hempty := hone htask hlen
          have hre := refresh_entries { s with timer := timer } now
          rw [show refreshEntries ({ s with timer := timer } : HState).timer = refreshEntries timer from rfl, hempty] at hre
          refine ⟨⟨now + Constants.REFRESH_INTERVAL_TIMEOUT_ns, timer.nextId, .tableRefresh⟩, ?_, by simp [sixS]⟩
          exact hre
        · simp only [htask, decide_false, Bool.false_eq_true, if_false]
          have hpopinv : ChainInv { s with timer := timer } lr := by
            refine chain_keep s _ lr hc hle (fun e he ht => ?_)
            apply p4 e he
            intro hid
            have := timerOk_inj h.timerOk he hmem hid
            rw [this] at ht
            exact htask ht
          exact chain_keep { s with timer := timer } _ lr hpopinv (handleTask_rle _ _ now htask)
            (fun e he _ => handleTask_keep _ _ now htask e he)
    · have hnf : ∀ (_ : hop = .fire), False := fun hh => hf hh
      have hnr : s.isRound (.h hop) = false := by
        cases hop with
        | fire => exact absurd rfl hf
        | start _ _ => rfl
        | incoming _ _ _ => rfl
      simp only [lrStep, hnr, Bool.false_eq_true, if_false, HState.nstep]
      exact chain_keep s _ lr hc (hstep_rle s hop now hnf) (fun e he ht => hstep_keep J g s hop now h hp hnf e he ht)

/-- every step keeps the deadline invariant of the searches (C04) -/
theorem nstep_dl (J : Nat) (g : Nat → Nat × Nat) (s : HState) (op : NOp) (now : Nat) (h : HDl J g s)
    (hp : Punctual J s now) : HDl J (nghost g s op now) (s.nstep op now) := by
  cases op with
  | h hop => exact hstep_dl J g s hop now h hp
  | kick =>
    obtain ⟨r1, r2, r3⟩ := refresh_frame s now
    have hx := scheduleAt_ext s.timer (now + Constants.REFRESH_INTERVAL_TIMEOUT_ns) Task.tableRefresh
    refine ⟨?_, ?_, ?_⟩
    · show TimerOk (s.refresh now).1.timer
      rw [r1]; exact hx.ok h.timerOk
    · intro l hl
      show l.aid < (s.refresh now).1.nextAid
      rw [r3]; exact h.aidLt l (r2 ▸ hl)
    · intro l hl
      show LInv J _ _ (s.refresh now).1.timer l
      rw [r1]
      exact linv_ext J _ _ _ _ l (h.inv l (r2 ▸ hl)) hx
  | wAnswer rsp src => exact ⟨h.timerOk, h.aidLt, h.inv⟩
  | wQuery hd => exact ⟨h.timerOk, h.aidLt, h.inv⟩

/-- **the cadence bound at one instant**: whenever the handler runs at `now` with timers at most
`J` late, the latest refresh round was at most `6 s + J` ago -/
theorem chain_bound (J : Nat) (s : HState) (r now : Nat) (hc : ChainInv s (some r)) (hp : Punctual J s now) :
    now ≤ r + sixS + J := by
  simp only [ChainInv] at hc
  obtain ⟨e, he, hd⟩ := hc
  have hin : e ∈ refreshEntries s.timer := by rw [he]; simp
  have := hp e ((mem_refreshEntries _ _).mp hin).1
  omega

/-! ### runs -/

def HState.nrun (s : HState) : List (NOp × Nat) → HState
  | [] => s
  | (op, now) :: rest => HState.nrun (s.nstep op now) rest

def nghostRun (g : Nat → Nat × Nat) (s : HState) : List (NOp × Nat) → (Nat → Nat × Nat)
  | [] => g
  | (op, now) :: rest => nghostRun (nghost g s op now) (s.nstep op now) rest

/-- the instant of the latest refresh round after the run -/
def lrRun (lr : Option Nat) (s : HState) : List (NOp × Nat) → Option Nat
  | [] => lr
  | (op, now) :: rest => lrRun (lrStep lr s op now) (s.nstep op now) rest

/-- a run: time does not run backwards (`t0`: the instant of the previous step), whenever the
handler (or the worker) runs no pending timer entry is overdue by more than `J`, and the refresh
chain is started at most once (`kick` only while no `TableRefresh` entry is pending) -/
def NRun (J : Nat) : HState → Nat → List (NOp × Nat) → Prop
  | _, _, [] => True
  | s, t0, (op, now) :: rest =>
    t0 ≤ now ∧ Punctual J s now ∧ (op = .kick → refreshEntries s.timer = []) ∧ NRun J (s.nstep op now) now rest

theorem nrun_append (s : HState) (a b : List (NOp × Nat)) : s.nrun (a ++ b) = (s.nrun a).nrun b := by
  induction a generalizing s with
  | nil => rfl
  | cons x a ih => obtain ⟨op, now⟩ := x; simp only [List.cons_append, HState.nrun]; exact ih _

theorem lrRun_append (lr : Option Nat) (s : HState) (a b : List (NOp × Nat)) :
    lrRun lr s (a ++ b) = lrRun (lrRun lr s a) (s.nrun a) b := by
  induction a generalizing s lr with
  | nil => rfl
  | cons x a ih => obtain ⟨op, now⟩ := x; simp only [List.cons_append, lrRun, HState.nrun]; exact ih _ _

theorem nghostRun_append (g : Nat → Nat × Nat) (s : HState) (a b : List (NOp × Nat)) :
    nghostRun g s (a ++ b) = nghostRun (nghostRun g s a) (s.nrun a) b := by
  induction a generalizing s g with
  | nil => rfl
  | cons x a ih => obtain ⟨op, now⟩ := x; simp only [List.cons_append, nghostRun, HState.nrun]; exact ih _ _

/-- the instant of the last step of a run (`t0` if there is none) -/
def lastTime (t0 : Nat) : List (NOp × Nat) → Nat
  | [] => t0
  | (_, now) :: rest => lastTime now rest

theorem nrun_split (J : Nat) (s : HState) (t0 : Nat) (a b : List (NOp × Nat)) (h : NRun J s t0 (a ++ b)) :
    NRun J s t0 a ∧ NRun J (s.nrun a) (lastTime t0 a) b := by
  induction a generalizing s t0 with
  | nil => exact ⟨trivial, h⟩
  | cons x a ih =>
    obtain ⟨op, now⟩ := x
    simp only [List.cons_append, NRun] at h
    obtain ⟨h1, h2, h3, h4⟩ := h
    obtain ⟨i1, i2⟩ := ih _ _ h4
    exact ⟨⟨h1, h2, h3, i1⟩, i2⟩

theorem lastTime_le (J : Nat) (s : HState) (t0 : Nat) (a : List (NOp × Nat)) (h : NRun J s t0 a) : t0 ≤ lastTime t0 a := by
  induction a generalizing s t0 with
  | nil => exact Nat.le_refl _
  | cons x a ih =>
    obtain ⟨op, now⟩ := x
    obtain ⟨h1, _, _, h4⟩ := h
    exact Nat.le_trans h1 (ih _ _ h4)

/-- the invariants of P1 along a run -/
theorem nrun_inv (J : Nat) : ∀ (ops : List (NOp × Nat)) (g : Nat → Nat × Nat) (s : HState) (lr : Option Nat) (t0 : Nat),
    HDl J g s → ChainInv s lr → NRun J s t0 ops →
    HDl J (nghostRun g s ops) (s.nrun ops) ∧ ChainInv (s.nrun ops) (lrRun lr s ops)
  | [], _, _, _, _, h, hc, _ => ⟨h, hc⟩
  | (op, now) :: rest, g, s, lr, _, h, hc, hr =>
    nrun_inv J rest _ _ _ now (nstep_dl J g s op now h hr.2.1) (nstep_chain J g s lr op now h hc hr.2.1 hr.2.2.1) hr.2.2.2

end Btdht
