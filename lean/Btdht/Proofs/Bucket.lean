import Btdht.Model.Table
/-!
Helper lemmas for C08: `positionOf`, the case analysis of `Bucket.addNode`.
-/
namespace Btdht

theorem positionOf_some {α} (p : α → Bool) : ∀ (l : List α) (i : Nat), positionOf p l = some i →
    ∃ h : i < l.length, p l[i] = true ∧ ∀ j (hj : j < i), p (l[j]'(Nat.lt_trans hj h)) = false
  | [], i, h => by simp [positionOf] at h
  | a :: l, i, h => by
    unfold positionOf at h
    by_cases hp : p a = true
    · simp only [hp, if_true, Option.some.injEq] at h
      subst h
      exact ⟨by simp, by simpa using hp, fun j hj => absurd hj (Nat.not_lt_zero _)⟩
    · simp only [hp, if_false, Bool.false_eq_true] at h
      cases hr : positionOf p l with
      | none => simp [hr] at h
      | some k =>
        simp only [hr, Option.map_some, Option.some.injEq] at h
        subst h
        obtain ⟨hk, h1, h2⟩ := positionOf_some p l k hr
        refine ⟨by simp; omega, by simpa using h1, ?_⟩
        intro j hj
        cases j with
        | zero => simpa using hp
        | succ j => simpa using h2 j (by omega)

theorem positionOf_none {α} (p : α → Bool) : ∀ (l : List α), positionOf p l = none → ∀ x ∈ l, p x = false
  | [], _, x, hx => by simp at hx
  | a :: l, h, x, hx => by
    unfold positionOf at h
    by_cases hp : p a = true
    · simp [hp] at h
    · simp only [hp, if_false, Bool.false_eq_true, Option.map_eq_none_iff] at h
      rcases List.mem_cons.mp hx with rfl | hx'
      · simpa using hp
      · exact positionOf_none p l h x hx'

/-- The five outcomes of `Bucket::add_node`. -/
inductive AddOutcome (b : Bucket) (n : Node) (now : Nat) : Bucket × Bool → Prop where
  | offeredBad : n.status now = .bad → AddOutcome b n now (b, true)
  | updated (i : Nat) (hi : i < b.nodes.length) :
      n.status now ≠ .bad → b.nodes[i].handle = n.handle →
      (∀ j (hj : j < i), (b.nodes[j]'(Nat.lt_trans hj hi)).handle ≠ n.handle) →
      AddOutcome b n now ({ nodes := b.nodes.modify i (fun m => m.update n now) }, true)
  | tookFree (i : Nat) (hi : i < b.nodes.length) :
      n.status now ≠ .bad → (∀ x ∈ b.nodes, x.handle ≠ n.handle) →
      b.nodes[i].status now = .bad →
      AddOutcome b n now ({ nodes := b.nodes.set i n }, true)
  | evicted (i : Nat) (hi : i < b.nodes.length) :
      n.status now ≠ .bad → (∀ x ∈ b.nodes, x.handle ≠ n.handle) →
      (∀ x ∈ b.nodes, x.status now ≠ .bad) →
      b.nodes[i].status now < n.status now →
      AddOutcome b n now ({ nodes := b.nodes.set i n }, true)
  | rejected :
      n.status now ≠ .bad → (∀ x ∈ b.nodes, x.handle ≠ n.handle) →
      (∀ x ∈ b.nodes, x.status now ≠ .bad) →
      (∀ x ∈ b.nodes, ¬ (x.status now < n.status now)) →
      AddOutcome b n now (b, false)

theorem addNode_outcome (b : Bucket) (n : Node) (now : Nat) : AddOutcome b n now (b.addNode n now) := by
  unfold Bucket.addNode
  by_cases hbad : n.status now = .bad
  · simp only [hbad, if_true]; exact .offeredBad hbad
  · simp only [hbad, if_false]
    cases hpos : positionOf (fun m => decide (m.handle = n.handle)) b.nodes with
    | some i =>
      obtain ⟨hi, h1, h2⟩ := positionOf_some _ _ _ hpos
      simp only
      exact .updated i hi hbad (by simpa using h1) (fun j hj => by simpa using h2 j hj)
    | none =>
      have hno : ∀ x ∈ b.nodes, x.handle ≠ n.handle := fun x hx => by
        simpa using positionOf_none _ _ hpos x hx
      simp only
      cases hfree : positionOf (fun m => decide (m.status now = .bad)) b.nodes with
      | some i =>
        obtain ⟨hi, h1, _⟩ := positionOf_some _ _ _ hfree
        simp only [Option.orElse]
        exact .tookFree i hi hbad hno (by simpa using h1)
      | none =>
        have hnobad : ∀ x ∈ b.nodes, x.status now ≠ .bad := fun x hx => by
          simpa using positionOf_none _ _ hfree x hx
        simp only [Option.orElse]
        cases hworse : positionOf (fun m => decide (m.status now < n.status now)) b.nodes with
        | some i =>
          obtain ⟨hi, h1, _⟩ := positionOf_some _ _ _ hworse
          simp only
          exact .evicted i hi hbad hno hnobad (by simpa using h1)
        | none =>
          simp only
          exact .rejected hbad hno hnobad (fun x hx => by simpa using positionOf_none _ _ hworse x hx)

theorem addNode_length (b : Bucket) (n : Node) (now : Nat) : (b.addNode n now).1.nodes.length = b.nodes.length := by
  have h := addNode_outcome b n now
  generalize b.addNode n now = r at h
  cases h <;> simp

/-- `update` keeps the handle when both nodes carry the same one. -/
theorem update_handle (m n : Node) (now : Nat) (h : m.handle = n.handle) : (m.update n now).handle = m.handle := by
  unfold Node.update
  split <;> simp_all

theorem commonPrefix_self (l : List Bool) : commonPrefix l l = l.length := by
  induction l with
  | nil => rfl
  | cons a l ih => simp [commonPrefix, ih]

theorem idBits_length (id : Bytes) : (idBits id).length = 8 * id.length := by
  induction id with
  | nil => rfl
  | cons b bs ih => simp [idBits, List.flatMap_cons, byteBits] at ih ⊢; omega


end Btdht
