import Btdht.Proofs.RefreshFresh
/-!
C11 helpers, part 8: the purge bound. A contact that went silent — no answer, no query from it, no
mention by others — keeps its recorded answer and is only ever touched by our own queries, each of
which is a strike once the recorded answer is older than 15 minutes.
-/
namespace Btdht

/-- the recorded answer and the recorded query of the contact are at least 15 minutes old at `e0` -/
structure StaleAt (n : Node) (e0 : Nat) : Prop where
  resp : ∀ r, n.lastResponse = some r → r + 900000000000 ≤ e0
  req : ∀ q, n.lastRequest = some q → q + 900000000000 ≤ e0

theorem stale_not_good (n : Node) (e0 now : Nat) (h : StaleAt n e0) (hle : e0 ≤ now) : n.status now ≠ .good :=
  C10_stale_not_good n now (fun r hr => by have := h.resp r hr; omega) (fun q hq => by have := h.req q hq; omega)

/-- a stale entry is questionable with fewer than two strikes, bad with two -/
theorem stale_status (n : Node) (e0 now : Nat) (h : StaleAt n e0) (hle : e0 ≤ now) (hl : n.lastResponse ≠ none) :
    n.status now = if 2 ≤ n.refreshRequests then .bad else .questionable := by
  have hng := stale_not_good n e0 now h hle
  cases hr : n.lastResponse with
  | none => exact absurd hr hl
  | some r =>
    have h1 := h.resp r hr
    simp only [Node.status, hr, lastSeenNs_eq, maxRefresh_eq] at hng ⊢
    rw [if_neg (by omega)] at hng ⊢
    by_cases h2 : n.refreshRequests ≥ 2
    · rw [if_pos h2, if_pos h2]
    · rw [if_neg h2] at hng ⊢
      rw [if_neg h2]
      cases hq : n.lastRequest with
      | none => rfl
      | some q =>
        have := h.req q hq
        simp only [hq] at hng ⊢
        rw [if_neg (by omega)]

/-- a query sent to a stale contact is a strike -/
theorem localRequest_stale (m : Node) (e0 now : Nat) (h : StaleAt m e0) (hle : e0 ≤ now) :
    m.localRequest now = { m with lastLocalRequest := some now, refreshRequests := m.refreshRequests + 1 } := by
  have hs : ({ m with lastLocalRequest := some now } : Node).status now ≠ .good := stale_not_good m e0 now h hle
  unfold Node.localRequest
  simp only
  rw [if_pos hs]

/-- how an entry of the silent contact relates to its predecessor one step (at `now`) earlier -/
structure Lin (now : Nat) (m m' : Node) : Prop where
  resp : m'.lastResponse = m.lastResponse
  req : m'.lastRequest = m.lastRequest
  rr : m.refreshRequests ≤ m'.refreshRequests
  same : m.refreshRequests = m'.refreshRequests → m'.lastLocalRequest = m.lastLocalRequest
  hit : m.refreshRequests < m'.refreshRequests → m'.lastLocalRequest = some now

theorem Lin.refl (now : Nat) (m : Node) : Lin now m m := ⟨rfl, rfl, Nat.le_refl _, fun _ => rfl, fun h => absurd h (Nat.lt_irrefl _)⟩

theorem Lin.trans {now : Nat} {a b c : Node} (h1 : Lin now a b) (h2 : Lin now b c) : Lin now a c where
  resp := h2.resp.trans h1.resp
  req := h2.req.trans h1.req
  rr := Nat.le_trans h1.rr h2.rr
  same := fun h => by
    have e1 : a.refreshRequests = b.refreshRequests := by have := h1.rr; have := h2.rr; omega
    have e2 : b.refreshRequests = c.refreshRequests := by have := h1.rr; have := h2.rr; omega
    rw [h2.same e2, h1.same e1]
  hit := fun h => by
    by_cases e2 : b.refreshRequests = c.refreshRequests
    · rw [h2.same e2]; exact h1.hit (by omega)
    · exact h2.hit (by have := h2.rr; omega)

theorem Lin.stale {now : Nat} {m m' : Node} (h : Lin now m m') (e0 : Nat) (hs : StaleAt m e0) : StaleAt m' e0 :=
  ⟨fun r hr => hs.resp r (h.resp ▸ hr), fun q hq => hs.req q (h.req ▸ hq)⟩

/-- **provenance over one step**: if the step does not involve `X` as a peer (no answer from it, no
query from it, no mention of it), every entry of `X` afterwards descends from an entry of `X`
before, changed only by our own queries — each a strike, as the entry is stale -/
theorem TEv.prov {now : Nat} {N : List (TKind × Handle)} {a b : Table} (hev : TEv now N a b) (hi : TInv a) (X : Handle)
    (hX : ∀ k, (k, X) ∉ N) (e0 : Nat) (hle : e0 ≤ now)
    (hst : ∀ m ∈ a.allNodes, m.handle = X → m.lastResponse ≠ none → StaleAt m e0) :
    ∀ m' ∈ b.allNodes, m'.handle = X → m'.lastResponse ≠ none →
      ∃ m ∈ a.allNodes, m.handle = X ∧ m.lastResponse ≠ none ∧ Lin now m m' := by
  induction hev with
  | refl => intro m' hm' hh hl; exact ⟨m', hm', hh, hl, Lin.refl now m'⟩
  | good t' h hN hp ih =>
    intro m' hm' hh hl
    have hne : h ≠ X := fun e => hX _ (e ▸ hN)
    rcases addNode_mem t' (hp.inv hi).1 _ now m' hm' with hold | hdead | ⟨rfl, _⟩ | ⟨m, _, hmh, rfl, _⟩
    · exact ih m' hold hh hl
    · exact absurd hdead hl
    · exact absurd hh hne
    · rw [update_handle m _ now hmh] at hh
      exact absurd (hmh.symm.trans hh) hne
  | hearsay t' h hN hp ih =>
    intro m' hm' hh hl
    have hne : h ≠ X := fun e => hX _ (e ▸ hN)
    rcases addNode_mem t' (hp.inv hi).1 _ now m' hm' with hold | hdead | ⟨rfl, _⟩ | ⟨m, _, hmh, rfl, _⟩
    · exact ih m' hold hh hl
    · exact absurd hdead hl
    · exact absurd hh hne
    · rw [update_handle m _ now hmh] at hh
      exact absurd (hmh.symm.trans hh) hne
  | qsent t' h hp ih =>
    intro m' hm' hh hl
    rcases modifyNode_mem t' h now _ m' hm' with hold | ⟨m, hm, _, _, rfl⟩
    · exact ih m' hold hh hl
    · have hk := localRequest_keeps m now
      rw [hk.1] at hh
      rw [hk.2] at hl
      obtain ⟨a0, ha0, hha, hla, hlin⟩ := ih m hm hh hl
      have hms : StaleAt m e0 := hlin.stale e0 (hst a0 ha0 hha hla)
      refine ⟨a0, ha0, hha, hla, hlin.trans ?_⟩
      rw [localRequest_stale m e0 now hms hle]
      exact ⟨rfl, rfl, Nat.le_succ _, fun h => absurd h (Nat.ne_of_lt (Nat.lt_succ_self _)), fun _ => rfl⟩
  | qrecv t' h hN hp ih =>
    intro m' hm' hh hl
    have hne : h ≠ X := fun e => hX _ (e ▸ hN)
    rcases modifyNode_mem t' h now _ m' hm' with hold | ⟨m, _, hmh, _, rfl⟩
    · exact ih m' hold hh hl
    · exact absurd (hmh.symm.trans hh) hne

/-! ### along a run -/

/-- the contact `X` is completely silent during the run: no step has it as a peer — no answer from
it is accepted, no query from it is recorded, no accepted answer names it -/
def SilentRun (X : Handle) : HState → List (NOp × Nat) → Prop
  | _, [] => True
  | s, (op, now) :: rest => (∀ k, (k, X) ∉ op.marks s) ∧ SilentRun X (s.nstep op now) rest

theorem silentRun_split (X : Handle) (s : HState) (a b : List (NOp × Nat)) (h : SilentRun X s (a ++ b)) :
    SilentRun X s a ∧ SilentRun X (s.nrun a) b := by
  induction a generalizing s with
  | nil => exact ⟨trivial, h⟩
  | cons x a ih =>
    obtain ⟨op, now⟩ := x
    obtain ⟨h1, h2⟩ := h
    obtain ⟨i1, i2⟩ := ih _ h2
    exact ⟨⟨h1, i1⟩, i2⟩

/-- an entry and a later descendant: same recorded answer and query; strikes only grow; no new
strike ⇒ not queried in between -/
structure Anc (a n' : Node) : Prop where
  resp : n'.lastResponse = a.lastResponse
  req : n'.lastRequest = a.lastRequest
  rr : a.refreshRequests ≤ n'.refreshRequests
  same : a.refreshRequests = n'.refreshRequests → n'.lastLocalRequest = a.lastLocalRequest

theorem Anc.refl (m : Node) : Anc m m := ⟨rfl, rfl, Nat.le_refl _, fun _ => rfl⟩
theorem Lin.anc {now : Nat} {m m' : Node} (h : Lin now m m') : Anc m m' := ⟨h.resp, h.req, h.rr, h.same⟩
theorem Anc.trans {a b c : Node} (h1 : Anc a b) (h2 : Anc b c) : Anc a c where
  resp := h2.resp.trans h1.resp
  req := h2.req.trans h1.req
  rr := Nat.le_trans h1.rr h2.rr
  same := fun h => by
    have e1 : a.refreshRequests = b.refreshRequests := by have := h1.rr; have := h2.rr; omega
    have e2 : b.refreshRequests = c.refreshRequests := by have := h1.rr; have := h2.rr; omega
    rw [h2.same e2, h1.same e1]
theorem Anc.stale {m m' : Node} (h : Anc m m') (e0 : Nat) (hs : StaleAt m e0) : StaleAt m' e0 :=
  ⟨fun r hr => hs.resp r (h.resp ▸ hr), fun q hq => hs.req q (h.req ▸ hq)⟩

/-- the entries of `X` are stale -/
def XStale (X : Handle) (e0 : Nat) (t : Table) : Prop :=
  ∀ m ∈ t.allNodes, m.handle = X → m.lastResponse ≠ none → StaleAt m e0

/-- one step of a silent run: provenance of the entries of `X` -/
theorem nstep_prov (s : HState) (op : NOp) (now : Nat) (X : Handle) (e0 : Nat) (ht : TInv s.table) (hle : e0 ≤ now)
    (hsil : ∀ k, (k, X) ∉ op.marks s) (hst : XStale X e0 s.table) :
    (∀ m' ∈ (s.nstep op now).table.allNodes, m'.handle = X → m'.lastResponse ≠ none →
      ∃ m ∈ s.table.allNodes, m.handle = X ∧ m.lastResponse ≠ none ∧ Lin now m m') ∧
    XStale X e0 (s.nstep op now).table := by
  have hp := (nstep_tev s op now).prov ht X hsil e0 hle hst
  refine ⟨hp, fun m' hm' hh hl => ?_⟩
  obtain ⟨m, hm, hmh, hml, hlin⟩ := hp m' hm' hh hl
  exact hlin.stale e0 (hst m hm hmh hml)

/-- **lineage along a silent run** -/
theorem lineage (J : Nat) (X : Handle) (e0 : Nat) : ∀ (ops : List (NOp × Nat)) (s : HState) (t0 : Nat),
    NRun J s t0 ops → e0 ≤ t0 → SilentRun X s ops → TInv s.table → XStale X e0 s.table →
    (∀ n' ∈ (s.nrun ops).table.allNodes, n'.handle = X → n'.lastResponse ≠ none →
      ∃ a ∈ s.table.allNodes, a.handle = X ∧ a.lastResponse ≠ none ∧ Anc a n') ∧
    XStale X e0 (s.nrun ops).table
  | [], s, _, _, _, _, _, hst => ⟨fun n' hn' hh hl => ⟨n', hn', hh, hl, Anc.refl n'⟩, hst⟩
  | (op, now) :: rest, s, t0, hrun, hle, hsil, ht, hst => by
    obtain ⟨h1, _, _, h4⟩ := hrun
    obtain ⟨p1, st1⟩ := nstep_prov s op now X e0 ht (Nat.le_trans hle h1) hsil.1 hst
    obtain ⟨p2, st2⟩ := lineage J X e0 rest _ now h4 (Nat.le_trans hle h1) hsil.2 (nstep_tinv s op now ht).1 st1
    refine ⟨fun n' hn' hh hl => ?_, st2⟩
    obtain ⟨a1, ha1, hh1, hl1, anc1⟩ := p2 n' hn' hh hl
    obtain ⟨a, ha, hha, hla, lin⟩ := p1 a1 ha1 hh1 hl1
    exact ⟨a, ha, hha, hla, lin.anc.trans anc1⟩

/-- the latest round is not in the future -/
theorem lrRun_le (J : Nat) : ∀ (ops : List (NOp × Nat)) (s : HState) (lr t0 : Nat), NRun J s t0 ops → lr ≤ t0 →
    ∀ r', lrRun (some lr) s ops = some r' → r' ≤ lastTime t0 ops
  | [], _, lr, t0, _, hle, r', h => by simp only [lrRun, Option.some.injEq] at h; subst h; exact hle
  | (op, now) :: rest, s, lr, t0, hrun, hle, r', h => by
    obtain ⟨h1, _, _, h4⟩ := hrun
    simp only [lrRun, lrStep] at h
    split at h
    · exact lrRun_le J rest _ now now h4 (Nat.le_refl _) r' h
    · exact lrRun_le J rest _ lr now h4 (Nat.le_trans hle h1) r' h

/-- a round of a run is a round step taken in the state reached by a prefix -/
theorem mem_roundsOf : ∀ (ops : List (NOp × Nat)) (s : HState) (r : Table × Bytes × Nat), r ∈ roundsOf s ops →
    ∃ q o now post, ops = q ++ (o, now) :: post ∧ r = ((s.nrun q).table, (s.nrun q).roundTarget, now) ∧
      (s.nrun q).isRound o = true
  | [], _, r, hr => by simp [roundsOf] at hr
  | (op, now) :: rest, s, r, hr => by
    simp only [roundsOf, List.mem_append] at hr
    rcases hr with hr | hr
    · split at hr
      · rename_i hround
        simp only [List.mem_singleton] at hr
        exact ⟨[], op, now, rest, rfl, hr, hround⟩
      · simp at hr
    · obtain ⟨q, o, n, post, e, hr', hround⟩ := mem_roundsOf rest _ r hr
      exact ⟨(op, now) :: q, o, n, post, by rw [e]; rfl, hr', hround⟩

/-- a stale entry with fewer than two strikes that was last queried at least 30 s ago is eligible -/
theorem elig_of_stale (n : Node) (e0 now : Nat) (hs : StaleAt n e0) (hle : e0 ≤ now) (hl : n.lastResponse ≠ none)
    (hrr : n.refreshRequests < 2) (h30 : ∀ q, n.lastLocalRequest = some q → q + thirtyS ≤ now) : eligB now n = true := by
  have hq : n.status now = .questionable := by rw [stale_status n e0 now hs hle hl, if_neg (by omega)]
  have hc : Constants.RECENTLY_REQUESTED_SECS * 1000000000 = 30000000000 := by decide
  simp only [eligB, hq, decide_true, Bool.true_and, Bool.not_eq_true', Node.recentlyRequestedFrom, hc]
  cases hl : n.lastLocalRequest with
  | none => rfl
  | some q => have := h30 q hl; rw [thirtyS_eq] at this; simp only [decide_eq_false_iff_not]; omega

/-- **a quiet stretch**: if the entry of `X` at the end of a silent run has no more strikes than the
entry `a` at its beginning, then at every intermediate state `X` has an entry with the very same
strikes and the same last-queried instant -/
theorem quiet_mid (J : Nat) (X : Handle) (e0 : Nat) (s : HState) (t0 : Nat) (q rest : List (NOp × Nat))
    (hrun : NRun J s t0 (q ++ rest)) (hle : e0 ≤ t0) (hsil : SilentRun X s (q ++ rest)) (ht : TInv s.table)
    (hst : XStale X e0 s.table)
    (nend : Node) (hn : nend ∈ (s.nrun (q ++ rest)).table.allNodes) (hnh : nend.handle = X) (hnl : nend.lastResponse ≠ none)
    (a : Node) (ha : a ∈ s.table.allNodes) (hah : a.handle = X) (hal : a.lastResponse ≠ none)
    (hquiet : nend.refreshRequests ≤ a.refreshRequests) :
    ∃ b ∈ (s.nrun q).table.allNodes, b.handle = X ∧ b.lastResponse ≠ none ∧ StaleAt b e0 ∧
      b.refreshRequests = nend.refreshRequests ∧ b.lastLocalRequest = a.lastLocalRequest ∧
      nend.lastLocalRequest = a.lastLocalRequest := by
  obtain ⟨r1, r2⟩ := nrun_split J s t0 q rest hrun
  obtain ⟨s1, s2⟩ := silentRun_split X s q rest hsil
  obtain ⟨p1, st1⟩ := lineage J X e0 q s t0 r1 hle s1 ht hst
  obtain ⟨p2, _⟩ := lineage J X e0 rest (s.nrun q) (lastTime t0 q) r2 (Nat.le_trans hle (lastTime_le J s t0 q r1)) s2
    (nrun_tinv q s ht).1 st1
  rw [nrun_append] at hn
  obtain ⟨b, hb, hbh, hbl, anc2⟩ := p2 nend hn hnh hnl
  obtain ⟨a', ha', hah', hal', anc1⟩ := p1 b hb hbh hbl
  have : a' = a := entry_unique s.table ht a' a ha' ha hal' hal (hah'.trans hah.symm)
  subst this
  have e1 : a'.refreshRequests = b.refreshRequests := by have := anc1.rr; have := anc2.rr; omega
  have e2 : b.refreshRequests = nend.refreshRequests := by have := anc1.rr; have := anc2.rr; omega
  exact ⟨b, hb, hbh, hbl, st1 b hb hbh hbl, e2, anc1.same e1, by rw [anc2.same e2, anc1.same e1]⟩

/-- in a quiet stretch `X` is eligible at every round that comes at least 30 s after the stretch began,
and no such round picks it -/
theorem quiet_round (J : Nat) (X : Handle) (e0 : Nat) (s : HState) (t0 : Nat) (q post : List (NOp × Nat)) (o : NOp) (now : Nat)
    (hrun : NRun J s t0 (q ++ (o, now) :: post)) (hle : e0 ≤ t0) (hsil : SilentRun X s (q ++ (o, now) :: post))
    (ht : TInv s.table) (hself : s.table.selfId.length = 20) (hst : XStale X e0 s.table)
    (nend : Node) (hn : nend ∈ (s.nrun (q ++ (o, now) :: post)).table.allNodes) (hnh : nend.handle = X)
    (hnl : nend.lastResponse ≠ none) (hrr : nend.refreshRequests < 2)
    (a : Node) (ha : a ∈ s.table.allNodes) (hah : a.handle = X) (hal : a.lastResponse ≠ none)
    (hquiet : nend.refreshRequests ≤ a.refreshRequests) (hllr : ∀ x, a.lastLocalRequest = some x → x ≤ t0)
    (hround : (s.nrun q).isRound o = true) (hlate : t0 + thirtyS ≤ now) :
    (∃ n ∈ (s.nrun q).table.allNodes, n.handle = X ∧ eligB now n = true) ∧
    X ∉ ((s.nrun q).table.refreshPicks (s.nrun q).roundTarget now).map (·.handle) := by
  have h30 := thirtyS_eq
  obtain ⟨b, hb, hbh, hbl, hbs, hbr, hbq, _⟩ := quiet_mid J X e0 s t0 q ((o, now) :: post) hrun hle hsil ht hst
    nend hn hnh hnl a ha hah hal hquiet
  have helig : eligB now b = true := elig_of_stale b e0 now hbs (by omega) hbl (by omega)
    (fun x hx => by have := hllr x (hbq ▸ hx); omega)
  refine ⟨⟨b, hb, hbh, helig⟩, fun hpicked => ?_⟩
  -- the round would mark the entry of `X` as queried at `now`
  obtain ⟨htq, henv⟩ := nrun_tinv q s ht
  have hselfq : (s.nrun q).table.selfId.length = 20 := by rw [henv.1]; exact hself
  obtain ⟨pk, hpk, hpkh⟩ := List.mem_map.mp hpicked
  have hpick : ∀ n ∈ (s.nrun q).table.refreshPicks (s.nrun q).roundTarget now, n ∈ (s.nrun q).table.allNodes ∧ n.isPingable now = true := by
    intro n hn'
    have := (mem_refreshCands _ htq hselfq _ now n).mp (refreshPicks_sub _ _ _ n hn')
    exact ⟨this.1, elig_pingable now n this.2⟩
  have hsh := markAll_shields now now (Nat.le_refl _) _ _ htq (refreshPicks_handles _ htq hselfq _ now) hpick pk hpk
  rw [hpkh] at hsh
  have htab : ((s.nrun q).nstep o now).table = (s.nrun q).table.afterRound (s.nrun q).roundTarget now := round_table _ o now hround
  -- the entry of `X` just after the round, in the quiet lineage
  have hrun' : NRun J s t0 ((q ++ [(o, now)]) ++ post) := by simpa using hrun
  have hsil' : SilentRun X s ((q ++ [(o, now)]) ++ post) := by simpa using hsil
  have hn' : nend ∈ (s.nrun ((q ++ [(o, now)]) ++ post)).table.allNodes := by simpa using hn
  obtain ⟨c, hc, hch, hcl, hcs, _, hcq, _⟩ := quiet_mid J X e0 s t0 (q ++ [(o, now)]) post hrun' hle hsil' ht hst
    nend hn' hnh hnl a ha hah hal hquiet
  have hc' : c ∈ ((s.nrun q).table.afterRound (s.nrun q).roundTarget now).allNodes := by
    rw [← htab]
    have : s.nrun (q ++ [(o, now)]) = (s.nrun q).nstep o now := by rw [nrun_append]; rfl
    rw [this] at hc
    exact hc
  rcases hsh c hc' hch hcl with ⟨x, hx, hxle⟩ | ⟨r, hr, hrle⟩
  · have := hllr x (hcq ▸ hx); omega
  · have := hcs.resp r hr; omega

theorem step_time_ge (J : Nat) (s : HState) (t0 : Nat) (o : NOp) (v : Nat) (post : List (NOp × Nat))
    (hrun : NRun J s t0 ((o, v) :: post)) (q' : List (NOp × Nat)) (o' : NOp) (now' : Nat) (post' : List (NOp × Nat))
    (e : (o, v) :: post = q' ++ (o', now') :: post') : v ≤ now' := by
  cases q' with
  | nil => simp only [List.nil_append, List.cons.injEq, Prod.mk.injEq] at e; omega
  | cons x q'' =>
    simp only [List.cons_append, List.cons.injEq] at e
    obtain ⟨_, e2⟩ := e
    subst e2
    obtain ⟨_, _, _, h4⟩ := hrun
    obtain ⟨r1, r2⟩ := nrun_split J _ v q'' _ h4
    have := lastTime_le J _ v q'' r1
    have := r2.1
    omega

/-- **a quiet stretch is short**: if over a silent run starting at `t0` the entry of `X` — stale,
fewer than two strikes, last queried before `t0` — collects no strike, then whatever runs after it
runs by `t0 + 30 s + (m/4 + 1)·(6 s + J)`: 30 s until `X` is eligible again, then the freshness bound -/
theorem quiet_bound (J : Nat) (g : Nat → Nat × Nat) (X : Handle) (C : List Handle) (e0 : Nat) (s : HState) (lr t0 : Nat)
    (ops : List (NOp × Nat)) (op : NOp) (u : Nat) (hrun : NRun J s t0 (ops ++ [(op, u)]))
    (hd : HDl J g s) (hc : ChainInv s (some lr)) (hlr : lr ≤ t0) (ht : TInv s.table) (hself : s.table.selfId.length = 20)
    (hle : e0 ≤ t0) (hsil : SilentRun X s ops) (hst : XStale X e0 s.table)
    (hR : (C.length / 4 + 1) * (sixS + J) < thirtyS)
    (hrely : ∀ q op' now post, ops = q ++ (op', now) :: post → ∀ τ, τ ≤ now →
      Rely C τ (s.nrun q).table ((s.nrun q).nstep op' now).table)
    (hcomp : ∀ r ∈ roundsOf s ops, ∀ n ∈ r.1.allNodes, eligB r.2.2 n = true → n.handle ≠ X → n.handle ∈ C)
    (nend : Node) (hn : nend ∈ (s.nrun ops).table.allNodes) (hnh : nend.handle = X) (hnl : nend.lastResponse ≠ none)
    (hrr : nend.refreshRequests < 2)
    (a : Node) (ha : a ∈ s.table.allNodes) (hah : a.handle = X) (hal : a.lastResponse ≠ none)
    (hquiet : nend.refreshRequests ≤ a.refreshRequests) (hllr : ∀ x, a.lastLocalRequest = some x → x ≤ t0) :
    u ≤ t0 + thirtyS + (C.length / 4 + 1) * (sixS + J) := by
  have h30 := thirtyS_eq
  obtain ⟨r0, rlast⟩ := nrun_split J s t0 ops [(op, u)] hrun
  rcases window_prefix (t0 + thirtyS) ops t0 (by omega) with hin | ⟨p, o, v, post, e, hp, hv⟩
  · obtain ⟨r', e1, _⟩ := lr_progress J ops g s lr t0 hd hc r0
    have hinv := (nrun_inv J ops g s (some lr) t0 hd hc r0).2
    rw [e1] at hinv
    have hb := chain_bound J _ r' u hinv rlast.2.1
    have hle' := lrRun_le J ops s lr t0 r0 hlr r' e1
    have : sixS + J ≤ (C.length / 4 + 1) * (sixS + J) := Nat.le_mul_of_pos_left _ (by omega)
    omega
  · subst e
    have hrun2 : NRun J s t0 (p ++ (((o, v) :: post) ++ [(op, u)])) := by simpa using hrun
    obtain ⟨rp, rrest⟩ := nrun_split J s t0 p _ hrun2
    obtain ⟨hdp, hcp⟩ := nrun_inv J p g s (some lr) t0 hd hc rp
    obtain ⟨lr', e1, _⟩ := lr_progress J p g s lr t0 hd hc rp
    rw [e1] at hcp
    have hlr' := lrRun_le J p s lr t0 rp hlr lr' e1
    obtain ⟨htp, henv⟩ := nrun_tinv p s ht
    obtain ⟨rmid, _⟩ := nrun_split J _ _ ((o, v) :: post) _ rrest
    -- every round of the rest: `X` waits and is not picked
    have hround : ∀ r ∈ roundsOf (s.nrun p) ((o, v) :: post), Waits X C r.1 r.2.2 ∧
        X ∉ (r.1.refreshPicks r.2.1 r.2.2).map (·.handle) := by
      intro r hr
      obtain ⟨q', o', now', post', e', hr', hrd⟩ := mem_roundsOf _ _ r hr
      have hge := step_time_ge J _ _ o v post rmid q' o' now' post' e'
      have hops : p ++ (o, v) :: post = (p ++ q') ++ (o', now') :: post' := by rw [e', List.append_assoc]
      have hst' : (s.nrun p).nrun q' = s.nrun (p ++ q') := (nrun_append s p q').symm
      rw [hst'] at hr' hrd
      obtain ⟨w1, w2⟩ := quiet_round J X e0 s t0 (p ++ q') post' o' now' (hops ▸ r0) hle (hops ▸ hsil) ht hself hst
        nend (hops ▸ hn) hnh hnl hrr a ha hah hal hquiet hllr hrd (by omega)
      subst hr'
      refine ⟨⟨?_, w1⟩, w2⟩
      exact hcomp _ (by rw [roundsOf_append]; exact List.mem_append_right _ hr)
    have := fresh_within J _ X C (s.nrun p) lr' (lastTime t0 p) ((o, v) :: post) op u rrest hdp hcp hlr' htp
      (by rw [henv.1]; exact hself) hR
      (fun q' op' now' post' e' => by
        have hops : p ++ (o, v) :: post = (p ++ q') ++ (op', now') :: post' := by rw [e', List.append_assoc]
        have := hrely (p ++ q') op' now' post' hops (lastTime t0 p)
          (Nat.le_trans (by
            obtain ⟨a1, a2⟩ := nrun_split J _ _ q' _ (e' ▸ rmid)
            exact lastTime_le J _ _ q' a1) (by
            obtain ⟨a1, a2⟩ := nrun_split J _ _ q' _ (e' ▸ rmid)
            exact a2.1))
        rw [nrun_append] at this
        exact this)
      (fun r hr => (hround r hr).1) (fun r hr => (hround r hr).2)
    omega

/-- **locating a strike**: if over a silent run the entry of `X` gains a strike, there is a first step
at which it does: before it the entry has no more strikes than at the start, after it the entry was
queried at that very instant -/
theorem find_strike (J : Nat) (X : Handle) (e0 : Nat) : ∀ (ops : List (NOp × Nat)) (s : HState) (t0 : Nat),
    NRun J s t0 ops → e0 ≤ t0 → SilentRun X s ops → TInv s.table → XStale X e0 s.table →
    ∀ nend ∈ (s.nrun ops).table.allNodes, nend.handle = X → nend.lastResponse ≠ none →
    ∀ a ∈ s.table.allNodes, a.handle = X → a.lastResponse ≠ none → a.refreshRequests < nend.refreshRequests →
    ∃ p o v post, ops = p ++ (o, v) :: post ∧
      (∃ b ∈ (s.nrun p).table.allNodes, b.handle = X ∧ b.lastResponse ≠ none ∧ b.refreshRequests ≤ a.refreshRequests) ∧
      (∃ c ∈ (s.nrun (p ++ [(o, v)])).table.allNodes, c.handle = X ∧ c.lastResponse ≠ none ∧
        c.lastLocalRequest = some v ∧ a.refreshRequests < c.refreshRequests ∧ c.refreshRequests ≤ nend.refreshRequests)
  | [], s, _, _, _, _, ht, _, nend, hn, hnh, hnl, a, ha, hah, hal, hlt => by
    have : nend = a := entry_unique s.table ht nend a hn ha hnl hal (hnh.trans hah.symm)
    subst this
    exact absurd hlt (Nat.lt_irrefl _)
  | (o, v) :: rest, s, t0, hrun, hle, hsil, ht, hst, nend, hn, hnh, hnl, a, ha, hah, hal, hlt => by
    obtain ⟨h1, _, _, h4⟩ := hrun
    have hle1 : e0 ≤ v := Nat.le_trans hle h1
    obtain ⟨p1, st1⟩ := nstep_prov s o v X e0 ht hle1 hsil.1 hst
    have ht1 := (nstep_tinv s o v ht).1
    obtain ⟨p2, _⟩ := lineage J X e0 rest _ v h4 hle1 hsil.2 ht1 st1
    obtain ⟨c1, hc1, hch1, hcl1, anc⟩ := p2 nend hn hnh hnl
    obtain ⟨a', ha', hah', hal', lin⟩ := p1 c1 hc1 hch1 hcl1
    have : a' = a := entry_unique s.table ht a' a ha' ha hal' hal (hah'.trans hah.symm)
    subst this
    by_cases hjump : a'.refreshRequests < c1.refreshRequests
    · exact ⟨[], o, v, rest, rfl, ⟨a', ha, hah, hal, Nat.le_refl _⟩, ⟨c1, hc1, hch1, hcl1, lin.hit hjump, hjump, anc.rr⟩⟩
    · have heq : c1.refreshRequests = a'.refreshRequests := by have := lin.rr; omega
      obtain ⟨p, o', v', post, e, ⟨b, hb, hbh, hbl, hbr⟩, ⟨c, hc, hch, hcl, hcq, hcr1, hcr2⟩⟩ :=
        find_strike J X e0 rest _ v h4 hle1 hsil.2 ht1 st1 nend hn hnh hnl c1 hc1 hch1 hcl1 (by omega)
      exact ⟨(o, v) :: p, o', v', post, by rw [e]; rfl, ⟨b, hb, hbh, hbl, by omega⟩, ⟨c, hc, hch, hcl, hcq, by omega, hcr2⟩⟩

theorem lastTime_snoc (t0 : Nat) (p : List (NOp × Nat)) (o : NOp) (v : Nat) : lastTime t0 (p ++ [(o, v)]) = v := by
  induction p generalizing t0 with
  | nil => rfl
  | cons x p ih => obtain ⟨op, now⟩ := x; simp only [List.cons_append, lastTime]; exact ih now

/-- the hypotheses of the purge bound that are inherited by every later part of the run -/
structure PurgeEnv (J : Nat) (X : Handle) (C : List Handle) (s : HState) (ops : List (NOp × Nat)) : Prop where
  silent : SilentRun X s ops
  rely : ∀ q op' now post, ops = q ++ (op', now) :: post → ∀ τ, τ ≤ now →
    Rely C τ (s.nrun q).table ((s.nrun q).nstep op' now).table
  comp : ∀ r ∈ roundsOf s ops, ∀ n ∈ r.1.allNodes, eligB r.2.2 n = true → n.handle ≠ X → n.handle ∈ C

theorem PurgeEnv.prefix {J : Nat} {X : Handle} {C : List Handle} {s : HState} {a b : List (NOp × Nat)}
    (h : PurgeEnv J X C s (a ++ b)) : PurgeEnv J X C s a where
  silent := (silentRun_split X s a b h.silent).1
  rely := fun q op' now post e τ hτ => h.rely q op' now (post ++ b) (by rw [e]; simp) τ hτ
  comp := fun r hr => h.comp r (by rw [roundsOf_append]; exact List.mem_append_left _ hr)

theorem PurgeEnv.suffix {J : Nat} {X : Handle} {C : List Handle} {s : HState} {a b : List (NOp × Nat)}
    (h : PurgeEnv J X C s (a ++ b)) : PurgeEnv J X C (s.nrun a) b where
  silent := (silentRun_split X s a b h.silent).2
  rely := fun q op' now post e τ hτ => by
    have := h.rely (a ++ q) op' now post (by rw [e, List.append_assoc]) τ hτ
    rw [nrun_append] at this
    exact this
  comp := fun r hr => h.comp r (by rw [roundsOf_append]; exact List.mem_append_right _ hr)

/-- **the purge bound**: a silent contact whose recorded answer and query are at least 15 min old at
`e0 ≤ t0` is struck out within two stretches of `30 s + (m/4 + 1)·(6 s + J)` after `t0`: if it still
has an entry that is not bad when something runs at `u`, then `u` is no later than that -/
theorem purged_within (J : Nat) (g : Nat → Nat × Nat) (X : Handle) (C : List Handle) (e0 : Nat) (s : HState) (lr t0 : Nat)
    (ops : List (NOp × Nat)) (op : NOp) (u : Nat) (hrun : NRun J s t0 (ops ++ [(op, u)]))
    (hd : HDl J g s) (hc : ChainInv s (some lr)) (hlr : lr ≤ t0) (ht : TInv s.table) (hself : s.table.selfId.length = 20)
    (hle : e0 ≤ t0) (henv : PurgeEnv J X C s ops) (hst : XStale X e0 s.table)
    (hllr0 : ∀ a ∈ s.table.allNodes, a.handle = X → a.lastResponse ≠ none → ∀ x, a.lastLocalRequest = some x → x ≤ t0)
    (hR : (C.length / 4 + 1) * (sixS + J) < thirtyS)
    (nend : Node) (hn : nend ∈ (s.nrun ops).table.allNodes) (hnh : nend.handle = X) (hlive : nend.status u ≠ .bad) :
    u ≤ t0 + 2 * (thirtyS + (C.length / 4 + 1) * (sixS + J)) := by
  obtain ⟨r0, rlast⟩ := nrun_split J s t0 ops [(op, u)] hrun
  have hnl : nend.lastResponse ≠ none := status_live_answered nend u hlive
  obtain ⟨plin, stend⟩ := lineage J X e0 ops s t0 r0 hle henv.silent ht hst
  have hu : e0 ≤ u := Nat.le_trans hle (Nat.le_trans (lastTime_le J s t0 ops r0) rlast.1)
  have hrr : nend.refreshRequests < 2 := by
    have := stale_status nend e0 u (stend nend hn hnh hnl) hu hnl
    by_cases h2 : 2 ≤ nend.refreshRequests
    · rw [if_pos h2] at this; exact absurd this hlive
    · omega
  obtain ⟨a, ha, hah, hal, anc⟩ := plin nend hn hnh hnl
  by_cases hq : nend.refreshRequests ≤ a.refreshRequests
  · have := quiet_bound J g X C e0 s lr t0 ops op u hrun hd hc hlr ht hself hle henv.silent hst hR henv.rely henv.comp
      nend hn hnh hnl hrr a ha hah hal hq (hllr0 a ha hah hal)
    omega
  · obtain ⟨p, o, v, post, e, ⟨b, hb, hbh, hbl, hbr⟩, ⟨c, hcm, hch, hcl, hcq, hcr1, hcr2⟩⟩ :=
      find_strike J X e0 ops s t0 r0 hle henv.silent ht hst nend hn hnh hnl a ha hah hal (by omega)
    subst e
    -- the stretch before the strike
    have hrun1 : NRun J s t0 ((p ++ [(o, v)]) ++ (post ++ [(op, u)])) := by simpa using hrun
    obtain ⟨rp1, rsuf⟩ := nrun_split J s t0 (p ++ [(o, v)]) _ hrun1
    have henv1 : PurgeEnv J X C s (p ++ ((o, v) :: post)) := henv
    have hv := quiet_bound J g X C e0 s lr t0 p o v rp1 hd hc hlr ht hself hle henv1.prefix.silent hst hR
      henv1.prefix.rely henv1.prefix.comp b hb hbh hbl (by omega) a ha hah hal hbr (hllr0 a ha hah hal)
    -- the stretch after it
    have henv2 : PurgeEnv J X C s ((p ++ [(o, v)]) ++ post) := by simpa using henv
    obtain ⟨hdc, hcc⟩ := nrun_inv J (p ++ [(o, v)]) g s (some lr) t0 hd hc rp1
    obtain ⟨lrc, e1, _⟩ := lr_progress J (p ++ [(o, v)]) g s lr t0 hd hc rp1
    rw [e1] at hcc
    have hlrc := lrRun_le J (p ++ [(o, v)]) s lr t0 rp1 hlr lrc e1
    rw [lastTime_snoc] at hlrc rsuf
    obtain ⟨htc, henvc⟩ := nrun_tinv (p ++ [(o, v)]) s ht
    have hv0 : t0 ≤ v := by have := lastTime_le J s t0 _ rp1; rw [lastTime_snoc] at this; exact this
    have hstc := (lineage J X e0 (p ++ [(o, v)]) s t0 rp1 hle henv2.prefix.silent ht hst).2
    have hn2 : nend ∈ ((s.nrun (p ++ [(o, v)])).nrun post).table.allNodes := by
      rw [← nrun_append]; simpa using hn
    have hu2 := quiet_bound J _ X C e0 (s.nrun (p ++ [(o, v)])) lrc v post op u rsuf hdc hcc hlrc htc
      (by rw [henvc.1]; exact hself) (Nat.le_trans hle hv0) henv2.suffix.silent hstc hR henv2.suffix.rely henv2.suffix.comp
      nend hn2 hnh hnl hrr c hcm hch hcl (by omega) (fun x hx => by rw [hcq] at hx; cases hx; exact Nat.le_refl _)
    omega

/-- the inherited hypotheses, with the rely proved for every step that names no handle of `C` -/
theorem purgeEnv_mk (J : Nat) (X : Handle) (C : List Handle) (s : HState) (t0 : Nat) (ops : List (NOp × Nat))
    (hrun : NRun J s t0 ops) (ht : TInv s.table) (h15 : 900000000000 ≤ t0) (hsil : SilentRun X s ops)
    (hcomp : ∀ r ∈ roundsOf s ops, ∀ n ∈ r.1.allNodes, eligB r.2.2 n = true → n.handle ≠ X → n.handle ∈ C)
    (hhear : ∀ q op' now post, ops = q ++ (op', now) :: post → (∃ h ∈ C, h ∈ op'.named (s.nrun q)) → ∀ τ, τ ≤ now →
      Rely C τ (s.nrun q).table ((s.nrun q).nstep op' now).table) : PurgeEnv J X C s ops where
  silent := hsil
  comp := hcomp
  rely := fun q op' now post e τ hτ => by
    by_cases hn : ∃ h ∈ C, h ∈ op'.named (s.nrun q)
    · exact hhear q op' now post e hn τ hτ
    · subst e
      obtain ⟨h1, h2⟩ := nrun_split J s t0 q _ hrun
      have hle : t0 ≤ now := Nat.le_trans (lastTime_le J s t0 q h1) h2.1
      exact nstep_rely _ op' now C τ (nrun_tinv q s ht).1 hτ (Nat.le_trans h15 hle) (fun h hc hm => hn ⟨h, hc, hm⟩)

/-! ### runs in which only timers fire (used for the non-vacuity examples) -/

/-- a step with no peer (a timer firing, a search start, a refresh round) creates no entry -/
theorem TEv.nil_handles {now : Nat} {a b : Table} (hev : TEv now [] a b) :
    ∀ m' ∈ b.allNodes, m'.lastResponse ≠ none → ∃ m ∈ a.allNodes, m.handle = m'.handle ∧ m.lastResponse ≠ none := by
  induction hev with
  | refl => intro m' hm' hl; exact ⟨m', hm', rfl, hl⟩
  | good t' h hN _ _ => simp at hN
  | hearsay t' h hN _ _ => simp at hN
  | qrecv t' h hN _ _ => simp at hN
  | qsent t' h _ ih =>
    intro m' hm' hl
    rcases modifyNode_mem t' h now _ m' hm' with hold | ⟨m, hm, _, _, rfl⟩
    · exact ih m' hold hl
    · have hk := localRequest_keeps m now
      rw [hk.2] at hl
      obtain ⟨a0, ha0, hh0, hl0⟩ := ih m hm hl
      exact ⟨a0, ha0, by rw [hk.1]; exact hh0, hl0⟩

/-- all steps are timer firings -/
def OnlyFires (ops : List (NOp × Nat)) : Prop := ∀ x ∈ ops, x.1 = NOp.h HOp.fire

theorem onlyFires_silent (X : Handle) : ∀ (ops : List (NOp × Nat)) (s : HState), OnlyFires ops → SilentRun X s ops
  | [], _, _ => trivial
  | (op, now) :: rest, s, h => by
    have : op = NOp.h HOp.fire := h (op, now) List.mem_cons_self
    subst this
    exact ⟨fun k hk => by simp [NOp.marks] at hk, onlyFires_silent X rest _ (fun x hx => h x (List.mem_cons_of_mem _ hx))⟩

/-- while only timers fire, every live entry carries the handle of an entry that was there at the start -/
theorem onlyFires_handles : ∀ (ops : List (NOp × Nat)) (s : HState), OnlyFires ops →
    ∀ m' ∈ (s.nrun ops).table.allNodes, m'.lastResponse ≠ none →
      ∃ m ∈ s.table.allNodes, m.handle = m'.handle ∧ m.lastResponse ≠ none
  | [], _, _, m', hm', hl => ⟨m', hm', rfl, hl⟩
  | (op, now) :: rest, s, h, m', hm', hl => by
    have : op = NOp.h HOp.fire := h (op, now) List.mem_cons_self
    subst this
    obtain ⟨m1, hm1, hh1, hl1⟩ := onlyFires_handles rest _ (fun x hx => h x (List.mem_cons_of_mem _ hx)) m' hm' hl
    have hev : TEv now [] s.table (s.nstep (NOp.h HOp.fire) now).table := nstep_tev s (NOp.h HOp.fire) now
    obtain ⟨m0, hm0, hh0, hl0⟩ := hev.nil_handles m1 hm1 hl1
    exact ⟨m0, hm0, hh0.trans hh1, hl0⟩

theorem onlyFires_named (ops q : List (NOp × Nat)) (op' : NOp) (now : Nat) (post : List (NOp × Nat)) (s : HState)
    (h : OnlyFires ops) (e : ops = q ++ (op', now) :: post) : op'.named s = [] := by
  have : op' = NOp.h HOp.fire := h (op', now) (by rw [e]; simp)
  subst this
  rfl

end Btdht
