import Btdht.Proofs.NetStep
/-!
C01 helpers: every step of a network run keeps the invariant `SInv` — the searching node's steps.
-/
namespace Btdht

/-- the invariant after a step of the searching node that leaves its search in the state `c'` -/
theorem sinv_client_mk {P : Phase} (hW : NetWF P) {cfg : NetCfg}
    (hlen : cfg.nodes.length = P.N.length) (hnodes : ∀ (k : Nat) (n : NNode), cfg.nodes[k]? = some n → NodeOk P cfg.now k n)
    (hidle : ∀ (k : Nat) (n : NNode), cfg.nodes[k]? = some n → k ≠ P.ia → n.st.lookups = [])
    {n : NNode} (hk : cfg.nodes[P.ia]? = some n) (s' : HState) (c' : RCfg) (now : Nat) (hn1 : cfg.now ≤ now) (hn2 : now ≤ P.G)
    (hstores : ∀ (k : Nat) (n : NNode) (y : Addr) (t : Nat), cfg.nodes[k]? = some n → Held n.st.store ⟨P.ih, y⟩ t →
      now - t < 86400000000000 → P.Src n.handle y)
    (hT0 : P.T0 ≤ now)
    (hself : s'.selfId = n.st.selfId) (hv6 : s'.v6 = n.st.v6) (hro : s'.readOnly = n.st.readOnly)
    (hfa : s'.failAddrs = n.st.failAddrs) (hknows : Knows n.st.selfId (P.N.filter (· ≠ n.handle)) P.G s'.table)
    (htoks : s'.tokens = n.st.tokens) (hstore : s'.store = n.st.store)
    (hlook : s'.lookups = [c'.l]) (htl : TimerLog c' s'.timer) (hap : s'.announcePort = P.port)
    (hginv : GInv P.N P.ih c') (haid : c'.l.aid = P.A) (hsid : c'.l.selfId = P.a.id) (hlv6 : c'.l.v6 = P.a.addr.v6)
    (hann : c'.l.willAnnounce = P.ann) (hstream : c'.l.stream = P.stream) (hclock : c'.now ≤ now)
    (F' : List Pkt) (Y' : List (Nat × Nat × Addr))
    (hF : ∀ p ∈ F', PktOk P { nodes := cfg.nodes.set P.ia { n with st := s' }, flight := F', now := now, yields := Y' } c' none p)
    (hcov : ∀ q ∈ c'.log, q.1 ∉ c'.answered → ∃ p ∈ F', p.tid = .sym q.1 ∧
      (((∃ r, p.body = .req r) ∧ p.sent = q.2.2) ∨ ((∃ rsp, p.body = .resp rsp) ∧ p.sent ≤ q.2.2 + P.D)))
    (htokens : ∀ p ∈ c'.l.tokens, TokV P cfg p.1 p.2)
    (hyld : ∀ q ∈ c'.log, q.1 ∈ c'.answered → ∀ x ∈ P.N, x.addr = q.2.1 → P.Must x → (P.ia, P.stream, P.x) ∈ Y')
    (hys : ∀ e ∈ Y', e ∈ P.Y0 ∨ (e.1 = P.ia ∧ e.2.1 = P.stream ∧ ∃ x ∈ P.N, P.Src x e.2.2)) :
    SInv P { nodes := cfg.nodes.set P.ia { n with st := s' }, flight := F', now := now, yields := Y' } c' none := by
  have hklt : P.ia < cfg.nodes.length := (List.getElem?_eq_some_iff.mp hk).1
  have hnk := hnodes P.ia n hk
  have hh : ({ n with st := s' } : NNode).handle = n.handle := by simp [NNode.handle, hself]
  have hnode' : NodeOk P now P.ia { n with st := s' } := by
    refine ⟨by rw [hh]; exact hnk.handle, ?_, by simp only; rw [htoks]; exact Nat.le_trans hnk.tokClock hn1,
      by simp only; rw [hstore]; exact stWF_mono hnk.storeWF hn1, by simp only; rw [hstore]; exact hnk.storeSmall,
      by simp only; rw [hstore, hh]; exact hnk.storeMust, fun te hte => (htl te hte).2.2⟩
    rw [hh]
    exact ⟨hro.trans hnk.serves.serving, hfa.trans hnk.serves.sends, by simp only; rw [hself]; exact hnk.serves.idlen,
      by simp only; rw [hself]; exact hknows, by simp only; rw [hv6]; exact hnk.serves.fam, hnk.serves.noph⟩
  have htokV : ∀ x t, TokV P cfg x t →
      TokV P { nodes := cfg.nodes.set P.ia { n with st := s' }, flight := F', now := now, yields := Y' } x t :=
    fun x t hv => tokV_set hW hk hh (Or.inl htoks) (Nat.le_trans hnk.tokClock hn1) hn2 hv
  refine ⟨by simp [hlen], fun j m hj => ?_, fun j m hj hji => ?_, ⟨hT0, hn2⟩, hF, fun _ => ?_,
    fun _ j m y t hj hheld hlive => ?_, hys, fun T1 hT => (by cases hT), fun T1 hT => (by cases hT)⟩
  · simp only at hj ⊢
    by_cases hjk : j = P.ia
    · subst hjk
      rw [List.getElem?_set_self hklt] at hj
      cases hj
      exact hnode'
    · rw [List.getElem?_set_ne (fun hc => hjk hc.symm)] at hj
      exact nodeOk_mono (hnodes j m hj) hn1
  · simp only at hj
    rcases hji with hji | hji
    · rw [List.getElem?_set_ne (fun hc => hji hc.symm)] at hj
      exact hidle j m hj hji
    · exact absurd rfl hji
  · exact ⟨⟨{ n with st := s' }, by simp only; rw [List.getElem?_set_self hklt], hlook, htl, hap⟩,
      hginv, haid, hsid, hlv6, hann, hstream, hclock, hcov, fun p hp => htokV _ _ (htokens p hp), hyld⟩
  · simp only at hj hlive
    by_cases hjk : j = P.ia
    · subst hjk
      rw [List.getElem?_set_self hklt] at hj
      cases hj
      rw [hh]
      simp only at hheld
      rw [hstore] at hheld
      exact hstores _ n y t hk hheld hlive
    · rw [List.getElem?_set_ne (fun hc => hjk hc.symm)] at hj
      exact hstores j m y t hj hheld hlive

/-- a step of the searching node that advances its search from `c` to `c'` -/
theorem sinv_client_step {P : Phase} (hW : NetWF P) {cfg : NetCfg} {c : RCfg} (h : SInv P cfg c none)
    {n : NNode} (hk : cfg.nodes[P.ia]? = some n) (s' : HState) (c' : RCfg) (now : Nat) (hn1 : cfg.now ≤ now) (hn2 : now ≤ P.G)
    (hself : s'.selfId = n.st.selfId) (hv6 : s'.v6 = n.st.v6) (hro : s'.readOnly = n.st.readOnly)
    (hfa : s'.failAddrs = n.st.failAddrs) (hknows : Knows n.st.selfId (P.N.filter (· ≠ n.handle)) P.G s'.table)
    (htoks : s'.tokens = n.st.tokens) (hstore : s'.store = n.st.store)
    (hlook : s'.lookups = [c'.l]) (htl : TimerLog c' s'.timer) (hap : s'.announcePort = n.st.announcePort)
    (hginv : GInv P.N P.ih c') (hst : Static c.l c'.l) (hclock : c'.now ≤ now)
    (F' : List Pkt) (Y' : List (Nat × Nat × Addr))
    (hF : ∀ p ∈ F', PktOk P { nodes := cfg.nodes.set P.ia { n with st := s' }, flight := F', now := now, yields := Y' } c' none p)
    (hcov : ∀ q ∈ c'.log, q.1 ∉ c'.answered → ∃ p ∈ F', p.tid = .sym q.1 ∧
      (((∃ r, p.body = .req r) ∧ p.sent = q.2.2) ∨ ((∃ rsp, p.body = .resp rsp) ∧ p.sent ≤ q.2.2 + P.D)))
    (htokens : ∀ p ∈ c'.l.tokens, TokV P cfg p.1 p.2)
    (hyld : ∀ q ∈ c'.log, q.1 ∈ c'.answered → ∀ x ∈ P.N, x.addr = q.2.1 → P.Must x → (P.ia, P.stream, P.x) ∈ Y')
    (hys : ∀ e ∈ Y', e ∈ P.Y0 ∨ (e.1 = P.ia ∧ e.2.1 = P.stream ∧ ∃ x ∈ P.N, P.Src x e.2.2)) :
    SInv P { nodes := cfg.nodes.set P.ia { n with st := s' }, flight := F', now := now, yields := Y' } c' none := by
  have hc := h.client rfl
  have hmp : n.st.announcePort = P.port := by
    obtain ⟨m, hm, _, _, hmp⟩ := hc.node; rw [hk] at hm; cases hm; exact hmp
  exact sinv_client_mk hW h.len h.nodes (fun k m hm hne => h.idle k m hm (Or.inl hne)) hk s' c' now hn1 hn2
    (fun k m y t hm hheld hlive => h.stores rfl k m y t hm hheld (by omega))
    (Nat.le_trans h.time.1 hn1) hself hv6 hro hfa hknows htoks hstore hlook htl (hap.trans hmp) hginv
    (hst.aid.trans hc.aid) (hst.selfId.trans hc.selfId) (hst.v6.trans hc.v6) (hst.ann.trans hc.ann)
    (hst.stream.trans hc.stream) hclock F' Y' hF hcov htokens hyld hys

/-! ### datagrams, logged queries and yields of a step of the search -/

theorem mem_emit {nodes : List NNode} {src : Addr} {now : Nat} {effs : List HEffect} {p : Pkt} :
    p ∈ emit nodes src now effs ↔ ∃ dst tid body, HEffect.send dst tid body true ∈ effs ∧
      nodes.any (fun n => n.addr = dst) = true ∧ p = ⟨src, dst, tid, body, now⟩ := by
  unfold emit
  rw [List.mem_filterMap]
  constructor
  · rintro ⟨e, he, hp⟩
    cases e with
    | send dst tid body ok =>
      cases ok with
      | false => simp at hp
      | true =>
        simp only at hp
        split at hp
        · rename_i hany
          exact ⟨dst, tid, body, he, hany, (Option.some.inj hp).symm⟩
        · cases hp
    | yield st a => simp at hp
    | close st => simp at hp
  · rintro ⟨dst, tid, body, he, hany, rfl⟩
    exact ⟨_, he, by simp only [hany, if_true]⟩

theorem mem_lift_send {effs : List Effect} {dst : Addr} {t : InTid} {body : Body} {ok : Bool} :
    HEffect.send dst t body ok ∈ liftEffects effs ↔ ∃ tid req, t = .sym tid ∧ body = .req req ∧ Effect.send dst tid req ok ∈ effs := by
  unfold liftEffects
  rw [List.mem_map]
  constructor
  · rintro ⟨e, he, heq⟩
    cases e with
    | send d tid req o =>
      simp only [HEffect.send.injEq] at heq
      obtain ⟨rfl, rfl, rfl, rfl⟩ := heq
      exact ⟨tid, req, rfl, rfl, he⟩
    | yield st a => cases heq
    | close st => cases heq
  · rintro ⟨tid, req, rfl, rfl, he⟩
    exact ⟨_, he, rfl⟩

theorem mem_queriesOf {now : Nat} {effs : List Effect} {q : Tid × Addr × Nat} :
    q ∈ queriesOf now effs ↔ ∃ id ih want, Effect.send q.2.1 q.1 (.getPeers id ih want) true ∈ effs ∧ q.2.2 = now := by
  unfold queriesOf
  rw [List.mem_filterMap]
  constructor
  · rintro ⟨e, he, hq⟩
    cases e with
    | send dst tid req ok =>
      cases req with
      | getPeers id ih want =>
        cases ok with
        | false => simp at hq
        | true =>
          simp only [Option.some.injEq] at hq
          subst hq
          exact ⟨id, ih, want, he, rfl⟩
      | ping id => simp at hq
      | findNode id t w => simp at hq
      | announce id ih p t => simp at hq
    | yield st a => simp at hq
    | close st => simp at hq
  · rintro ⟨id, ih, want, he, hn⟩
    refine ⟨_, he, ?_⟩
    obtain ⟨a, b, c⟩ := q
    simp only at hn ⊢
    rw [hn]

theorem mem_yieldsOf {k : Nat} {effs : List HEffect} {e : Nat × Nat × Addr} :
    e ∈ yieldsOf k effs ↔ e.1 = k ∧ HEffect.yield e.2.1 e.2.2 ∈ effs := by
  unfold yieldsOf
  rw [List.mem_filterMap]
  constructor
  · rintro ⟨x, hx, he⟩
    cases x with
    | yield st a => simp only [Option.some.injEq] at he; subst he; exact ⟨rfl, hx⟩
    | send d t b o => simp at he
    | close st => simp at he
  · rintro ⟨h1, h2⟩
    obtain ⟨a, b, d⟩ := e
    simp only at h1 h2
    subst h1
    exact ⟨_, h2, rfl⟩

theorem mem_lift_yield {effs : List Effect} {st : Nat} {a : Addr} :
    HEffect.yield st a ∈ liftEffects effs ↔ Effect.yield st a ∈ effs := by
  unfold liftEffects
  rw [List.mem_map]
  constructor
  · rintro ⟨e, he, heq⟩
    cases e with
    | yield s b => simp only [HEffect.yield.injEq] at heq; obtain ⟨rfl, rfl⟩ := heq; exact he
    | send d t r o => cases heq
    | close s => cases heq
  · intro he; exact ⟨_, he, rfl⟩

theorem handle_eta (x : Handle) (id : Bytes) (h : id = x.id) : (⟨id, x.addr⟩ : Handle) = x := by
  cases x; simp at h; simp [h]

/-- the searching node is the node at index `ia` -/
theorem client_node {P : Phase} (hW : NetWF P) {cfg : NetCfg} {c : RCfg} {fin : Option Nat} (h : SInv P cfg c fin) :
    ∃ n, cfg.nodes[P.ia]? = some n ∧ n.handle = P.a ∧ cfg.nodes.findIdx? (fun m => m.addr = P.a.addr) = some P.ia := by
  obtain ⟨k, n, hk, hn, hfi⟩ := node_of_handle hW h.len (fun k n hk => (h.nodes k n hk).handle) (a_mem hW)
  have h1 := (h.nodes k n hk).handle
  rw [hn] at h1
  have h2 := hW.aN
  obtain ⟨hkl, hke⟩ := List.getElem?_eq_some_iff.mp h1
  obtain ⟨hil, hie⟩ := List.getElem?_eq_some_iff.mp h2
  have : k = P.ia := getElem_inj_of_nodup hW.net.nodup hkl hil (by rw [hke, hie])
  subst this
  exact ⟨n, hk, hn, hfi⟩

/-- the timer entries after a step of the search, from their description by `TimerNew` -/
theorem timerLog_step {c c' : RCfg} {now aid : Nat} {effs : List Effect} {E : Prop} {t t' : Timer Task}
    (h : TimerLog c t) (hnew : TimerNew now aid effs E t t')
    (hlog : ∀ q ∈ c.log, q ∈ c'.log) (hq : ∀ q ∈ queriesOf now effs, q ∈ c'.log)
    (heg : ∀ u, c.egAt = some u → c'.egAt = some u) (haid : c'.l.aid = c.l.aid) (haid' : aid = c.l.aid)
    (hE : E → c'.egAt = some now) : TimerLog c' t' := by
  intro te hte
  rcases hnew te hte with hold | ⟨tid, dst, h1, h2, h3⟩ | ⟨hEE, q, h1, h2⟩
  · obtain ⟨a, b, d⟩ := h te hold
    refine ⟨fun tid ht => ?_, fun tid ht => ?_, d⟩
    · obtain ⟨q, hq1, hq2, hq3⟩ := a tid ht
      exact ⟨q, hlog q hq1, hq2, hq3⟩
    · obtain ⟨h1, u, hu1, hu2⟩ := b tid ht
      exact ⟨h1.trans haid.symm, u, heg u hu1, hu2⟩
  · refine ⟨fun tid' ht => ?_, fun tid' ht => (by rw [h1] at ht; cases ht), (by rw [h1]; simp)⟩
    rw [h1] at ht
    cases ht
    exact ⟨_, hq _ h3, rfl, (by rw [h2]; exact Nat.le_refl _)⟩
  · refine ⟨fun tid' ht => (by rw [h1] at ht; cases ht), fun tid' ht => ?_, (by rw [h1]; simp)⟩
    rw [h1] at ht
    cases ht
    exact ⟨(by simp only; rw [haid', haid]), now, hE hEE, (by rw [h2]; exact Nat.le_refl _)⟩

/-- (E2) for the searching node: no query has been waiting for its answer for more than `2·D` -/
theorem client_timely {P : Phase} {cfg : NetCfg} {c : RCfg} (h : SInv P cfg c none) (now : Nat)
    (htimely : ∀ p ∈ cfg.flight, now ≤ p.sent + P.D) : Timely P.N (2 * P.D) c now := by
  intro q hq hna _
  obtain ⟨p, hp, _, hd⟩ := (h.client rfl).cover q hq hna
  have := htimely p hp
  rcases hd with ⟨_, h2⟩ | ⟨_, h2⟩ <;> omega

/-- the new datagrams of a step of the search are its newly logged queries -/
theorem client_new_pkts {P : Phase} (hW : NetWF P) {cfg : NetCfg} {c' : RCfg}
    (hlen : cfg.nodes.length = P.N.length) (hnodes : ∀ (k : Nat) (n : NNode), cfg.nodes[k]? = some n → P.N[k]? = some n.handle)
    {n : NNode} (hna : n.handle = P.a)
    (now : Nat) (effs sends ys : List Effect) (heffs : effs = sends ++ ys)
    (hq : AllQ P.a.id P.ih sends) (hys : ∀ y ∈ ys, ∃ st a, y = .yield st a)
    (hg' : GInv P.N P.ih c') (haid : c'.l.aid = P.A) (hlog' : ∀ q ∈ queriesOf now effs, q ∈ c'.log) :
    (∀ cfg' : NetCfg, ∀ p ∈ emit cfg.nodes n.addr now (liftEffects effs), PktOk P cfg' c' none p) ∧
    (∀ q ∈ queriesOf now effs, ∃ p ∈ emit cfg.nodes n.addr now (liftEffects effs),
      p.tid = .sym q.1 ∧ (∃ r, p.body = .req r) ∧ p.sent = q.2.2) := by
  have hsends : ∀ dst tid req ok, Effect.send dst tid req ok ∈ effs →
      req = .getPeers P.a.id P.ih none ∧ ok = true ∧ (tid, dst, now) ∈ queriesOf now effs := by
    intro dst tid req ok he
    rw [heffs] at he
    rcases List.mem_append.mp he with he | he
    · obtain ⟨d, t, e⟩ := hq _ he
      simp only [Effect.send.injEq] at e
      obtain ⟨rfl, rfl, rfl, rfl⟩ := e
      refine ⟨rfl, rfl, ?_⟩
      rw [heffs]
      exact mem_queriesOf.mpr ⟨_, _, _, List.mem_append_left _ he, rfl⟩
    · obtain ⟨st, a, e⟩ := hys _ he
      cases e
  have haddr : n.addr = P.a.addr := by rw [← hna]; rfl
  constructor
  · intro cfg' p hp
    obtain ⟨dst, t, body, he, _, rfl⟩ := mem_emit.mp hp
    obtain ⟨tid, req, rfl, rfl, he'⟩ := mem_lift_send.mp he
    obtain ⟨hreq, _, hql⟩ := hsends dst tid req true he'
    have hql' : (tid, dst, now) ∈ c'.log := hlog' _ hql
    obtain ⟨⟨x, hx, hxa⟩, _⟩ := hg'.dst _ hql'
    simp only at hxa
    refine .query x tid hx haddr hxa.symm rfl ((hg'.q.seq _ hql').1.trans haid) (by rw [hreq]) ?_
    simp only
    rw [hxa]; exact hql'
  · intro q hqm
    obtain ⟨id, ih, want, he, hn⟩ := mem_queriesOf.mp hqm
    have hql' : q ∈ c'.log := hlog' _ hqm
    obtain ⟨⟨x, hx, hxa⟩, _⟩ := hg'.dst _ hql'
    have hany : cfg.nodes.any (fun m => m.addr = q.2.1) = true := by
      rw [← hxa]; exact any_addr hW hlen hnodes hx
    exact ⟨⟨n.addr, q.2.1, .sym q.1, .req (.getPeers id ih want), now⟩,
      mem_emit.mpr ⟨q.2.1, .sym q.1, _, mem_lift_send.mpr ⟨q.1, _, rfl, rfl, he⟩, hany, rfl⟩, rfl, ⟨_, rfl⟩, hn.symm⟩

end Btdht
