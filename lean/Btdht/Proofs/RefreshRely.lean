import Btdht.Proofs.RefreshFair
/-!
C11 helpers, part 3: the rely of the fairness argument, proved for the table operations the node
performs. Shields (`Shielded`) survive: queries sent and received; every offer of an answering node
(as good); every hearsay offer (as questionable) for another handle, and for the same handle as long
as that handle still has an entry that is not bad. They do NOT survive a hearsay offer for a handle
whose entry went bad or was evicted: the contact is re-admitted as a fresh entry
(the example after `C11_rely_hearsay` in Props/C11.lean exhibits it on the model).
-/
namespace Btdht

theorem asGood_status (h : Handle) (now : Nat) : (Node.asGood h now).status now = .good := by
  simp [Node.status, Node.asGood, lastSeenNs_eq]

/-- with the implementation's clock (≥ 15 min) a hearsay node is questionable -/
theorem asQuestionable_status (h : Handle) (now : Nat) (hnow : 900000000000 ≤ now) :
    (Node.asQuestionable h now).status now = .questionable := C10_hearsay h now now hnow (Nat.le_refl _)

/-- **an accepted answer keeps every shield** (and shields the responder) -/
theorem shielded_offer_good (t : Table) (ht : TInv t) (h' : Handle) (now : Nat) (h : Handle) (τ : Nat) (hle : τ ≤ now)
    (hs : Shielded t h τ) : Shielded (t.addNode (Node.asGood h' now) now) h τ := by
  intro m' hm' hh hl
  rcases addNode_mem t ht _ now m' hm' with hold | hdead | ⟨rfl, _⟩ | ⟨m, hm, hmh, rfl, _⟩
  · exact hs m' hold hh hl
  · exact absurd hdead hl
  · exact Or.inr ⟨now, rfl, hle⟩
  · have hg := asGood_status h' now
    unfold Node.update
    rw [hg]
    cases m.status now with
    | good => exact Or.inr ⟨now, rfl, hle⟩
    | questionable => exact Or.inr ⟨now, rfl, hle⟩
    | bad => exact Or.inr ⟨now, rfl, hle⟩

/-- **a hearsay mention keeps the shield of `h`** unless it is `h` that is named while `h` has no
entry that is not bad -/
theorem shielded_offer_hearsay (t : Table) (ht : TInv t) (h' : Handle) (now : Nat) (hnow : 900000000000 ≤ now)
    (h : Handle) (τ : Nat) (hs : Shielded t h τ)
    (hsafe : h' = h → ∃ e ∈ t.allNodes, e.handle = h ∧ e.status now ≠ .bad) :
    Shielded (t.addNode (Node.asQuestionable h' now) now) h τ := by
  intro m' hm' hh hl
  have hq := asQuestionable_status h' now hnow
  rcases addNode_mem t ht _ now m' hm' with hold | hdead | ⟨rfl, hbad⟩ | ⟨m, hm, hmh, rfl, huniq⟩
  · exact hs m' hold hh hl
  · exact absurd hdead hl
  · obtain ⟨e, he, heh, hel⟩ := hsafe hh
    exact absurd (hbad e he (heh.trans hh.symm)) hel
  · have hmh' : m.handle = h' := hmh
    have hupd : (m.update (Node.asQuestionable h' now) now).handle = m.handle := update_handle m _ now hmh
    have hh' : h' = h := by rw [← hmh', ← hupd]; exact hh
    obtain ⟨e, he, heh, hel⟩ := hsafe hh'
    have hem := huniq e he (heh.trans hh'.symm) hel
    subst hem
    -- the entry is not bad: a questionable offer leaves it as it is
    have : e.update (Node.asQuestionable h' now) now = e := by
      unfold Node.update
      rw [hq]
      rcases status_cases e now with hb | hb | hb
      · exact absurd hb hel
      · rw [hb]
      · rw [hb]
    rw [this] at hl ⊢
    exact hs e he heh hl

/-! ### what one step of the node does to the table -/

/-- the kinds of table operations that depend on who the peer is -/
inductive TKind where
  | good | hearsay | recv
  deriving DecidableEq, Repr

/-- the table evolves, at the instant `now`, by offers of answering nodes (as good), hearsay offers
(as questionable), queries sent (`local_request`) and queries received (`remote_request`); `N` lists
who may be offered as good, named by hearsay, or recorded as having queried us -/
inductive TEv (now : Nat) (N : List (TKind × Handle)) : Table → Table → Prop where
  | refl (t : Table) : TEv now N t t
  | good (t t' : Table) (h : Handle) (hN : (TKind.good, h) ∈ N) : TEv now N t t' → TEv now N t (t'.addNode (Node.asGood h now) now)
  | hearsay (t t' : Table) (h : Handle) (hN : (TKind.hearsay, h) ∈ N) : TEv now N t t' → TEv now N t (t'.addNode (Node.asQuestionable h now) now)
  | qsent (t t' : Table) (h : Handle) : TEv now N t t' → TEv now N t (markRequested t' h now)
  | qrecv (t t' : Table) (h : Handle) (hN : (TKind.recv, h) ∈ N) : TEv now N t t' → TEv now N t (t'.modifyNode h now (fun m => m.remoteRequest now)).1

theorem TEv.trans {now : Nat} {N : List (TKind × Handle)} {a b c : Table} (h1 : TEv now N a b) (h2 : TEv now N b c) : TEv now N a c := by
  induction h2 with
  | refl => exact h1
  | good t' h hN _ ih => exact .good _ _ h hN ih
  | hearsay t' h hN _ ih => exact .hearsay _ _ h hN ih
  | qsent t' h _ ih => exact .qsent _ _ h ih
  | qrecv t' h hN _ ih => exact .qrecv _ _ h hN ih

theorem TEv.mono {now : Nat} {N N' : List (TKind × Handle)} {a b : Table} (h : TEv now N a b) (hsub : ∀ x ∈ N, x ∈ N') : TEv now N' a b := by
  induction h with
  | refl => exact .refl _
  | good t' h hN _ ih => exact .good _ _ h (hsub _ hN) ih
  | hearsay t' h hN _ ih => exact .hearsay _ _ h (hsub _ hN) ih
  | qsent t' h _ ih => exact .qsent _ _ h ih
  | qrecv t' h hN _ ih => exact .qrecv _ _ h (hsub _ hN) ih

theorem TEv.inv {now : Nat} {N : List (TKind × Handle)} {a b : Table} (h : TEv now N a b) (hi : TInv a) : TInv b ∧ SameEnv a b := by
  induction h with
  | refl => exact ⟨hi, sameEnv_refl _⟩
  | good t' h _ _ ih =>
    obtain ⟨h2, e2⟩ := tinv_addNode t' _ now ih.1
    exact ⟨h2, sameEnv_trans ih.2 e2⟩
  | hearsay t' h _ _ ih =>
    obtain ⟨h2, e2⟩ := tinv_addNode t' _ now ih.1
    exact ⟨h2, sameEnv_trans ih.2 e2⟩
  | qsent t' h _ ih =>
    obtain ⟨h2, e2⟩ := tinv_markRequested t' h now ih.1
    exact ⟨h2, sameEnv_trans ih.2 e2⟩
  | qrecv t' h _ _ ih =>
    obtain ⟨h2, e2⟩ := tinv_modifyNode t' h now (fun m => m.remoteRequest now) ih.1 (fun m => ⟨rfl, rfl⟩)
    exact ⟨h2, sameEnv_trans ih.2 e2⟩

/-- **the rely, proved**: one step of the node at `now ≥ τ` that does not name `h` by hearsay keeps the shield of `h` -/
theorem TEv.shield {now : Nat} {N : List (TKind × Handle)} {a b : Table} (hev : TEv now N a b) (hi : TInv a) (τ : Nat) (hle : τ ≤ now)
    (hnow : 900000000000 ≤ now) (h : Handle) (hN : (TKind.hearsay, h) ∉ N) (hs : Shielded a h τ) : Shielded b h τ := by
  induction hev with
  | refl => exact hs
  | good t' h' _ hp ih => exact shielded_offer_good t' (hp.inv hi).1 h' now h τ hle ih
  | hearsay t' h' hN' hp ih =>
    exact shielded_offer_hearsay t' (hp.inv hi).1 h' now hnow h τ ih (fun he => absurd (he ▸ hN') hN)
  | qsent t' h' _ ih => exact shielded_markRequested t' h' now h τ ih hle
  | qrecv t' h' _ _ ih => exact shielded_markRemote t' h' now h τ ih

theorem TEv.rely {now : Nat} {N : List (TKind × Handle)} {a b : Table} (hev : TEv now N a b) (hi : TInv a) (τ : Nat) (hle : τ ≤ now)
    (hnow : 900000000000 ≤ now) (C : List Handle) (hCN : ∀ h ∈ C, (TKind.hearsay, h) ∉ N) : Rely C τ a b :=
  fun h hc hs => hev.shield hi τ hle hnow h (hCN h hc) hs

/-- what an accepted answer from `h` naming `named` may do -/
def answerMarks (h : Handle) (named : List Handle) : List (TKind × Handle) :=
  (TKind.good, h) :: named.map (fun x => (TKind.hearsay, x))

theorem addNodes_tev (t0 t : Table) (now : Nat) (N : List (TKind × Handle)) (h : Handle) (named : List Handle)
    (hsub : ∀ x ∈ answerMarks h named, x ∈ N)
    (hr : TEv now N t0 t) : TEv now N t0 (t.addNodes (Node.asGood h now) named now) := by
  unfold Table.addNodes
  have key : ∀ (l : List Handle) (acc : Table), (∀ x ∈ l, (TKind.hearsay, x) ∈ N) → TEv now N t0 acc →
      TEv now N t0 (l.foldl (fun acc h => acc.addNode (Node.asQuestionable h now) now) acc) := by
    intro l
    induction l with
    | nil => intro acc _ h; exact h
    | cons x l ih => intro acc hs h; exact ih _ (fun y hy => hs y (List.mem_cons_of_mem _ hy)) (.hearsay _ _ x (hs x List.mem_cons_self) h)
  exact key named _ (fun x hx => hsub _ (List.mem_cons_of_mem _ (List.mem_map.mpr ⟨x, hx, rfl⟩)))
    (.good _ _ h (hsub _ List.mem_cons_self) hr)

end Btdht
