import Btdht.Proofs.ReachHandler
/-!
C01 helpers (network composition, client side): the closed loop of `Proofs/Reach.lean` for a network
in which every node, asked, names **every other node** of the network (but never itself): the
answers of real serving nodes that all know each other. (`Reach.lean`'s `Truthful` asks for the 8
nodes closest to the target *including the answering node*, which no real node ever names; and
it fixes the token of each node in advance, while real tokens rotate.)

`GTruthful`: the answer claims the answering node's id, carries *some* token of admissible length,
names only nodes of the network, and names every node of the network but the answering one.
The invariant `GInv` is `RInv` with: token values left open (the network level tracks them), "every
query went to a candidate" (`qcand`), and, in the end-game, *all* nodes of the network are candidates.
-/
namespace Btdht

structure GTruthful (N : List Handle) (v6 : Bool) (h : Handle) (rsp : Resp) : Prop where
  id : rsp.id = h.id
  token : ∃ t, rsp.token = some t ∧ t.length ≤ Constants.MAX_TOKEN_LEN
  sub : ∀ x ∈ (if v6 then rsp.nodes6 else rsp.nodes4), x ∈ N
  all : ∀ x ∈ N, x ≠ h → x ∈ (if v6 then rsp.nodes6 else rsp.nodes4)
  ne : (if v6 then rsp.nodes6 else rsp.nodes4) ≠ []

def GEvOk (N : List Handle) (c : RCfg) (now : Nat) : ReachEv → Prop
  | .resp h tid rsp => h ∈ N ∧ (∃ q ∈ c.log, q.1 = tid ∧ q.2.1 = h.addr) ∧ GTruthful N c.l.v6 h rsp
  | .timeout tid => ∃ q ∈ c.log, q.1 = tid ∧ q.2.2 + Constants.LOOKUP_TIMEOUT_ns ≤ now

structure GAdm (N : List Handle) (D : Nat) (c : RCfg) (env : LEnv) (ev : ReachEv) : Prop where
  sends : ∀ a, env.sendFails a = false
  mono : c.now ≤ env.now
  timely : Timely N D c env.now
  ev : GEvOk N c env.now ev

structure GInv (N : List Handle) (target : Bytes) (c : RCfg) : Prop where
  tgt : c.l.target = target
  q : QInv c.l c.log c.answered
  cand : CandInv N target c.l.sorted
  toks : ∀ p ∈ c.l.tokens, p.1 ∈ N
  ansTok : ∀ q ∈ c.log, q.1 ∈ c.answered → ∀ h ∈ N, h.addr = q.2.1 → c.l.tokens.any (·.1 = h) = true
  ansLog : ∀ t ∈ c.answered, ∃ q ∈ c.log, q.1 = t
  flags : ∀ e ∈ c.l.sorted, e.2.2 = true → ∃ q ∈ c.log, q.2.1 = e.2.1.addr
  dst : ∀ q ∈ c.log, (∃ h ∈ N, h.addr = q.2.1) ∧ q.2.2 ≤ c.now
  reg : c.l.inEndgame = false → c.egAt = none ∧ c.l.active ≠ []
  /-- every query went to a candidate -/
  qcand : ∀ q ∈ c.log, ∃ e ∈ c.l.sorted, e.2.1.addr = q.2.1
  eg : c.l.inEndgame = true → (∃ t, c.egAt = some t ∧ ∀ q ∈ c.log, q.2.2 ≤ t) ∧
    (∀ x ∈ N, x ∈ c.l.sorted.map (·.2.1)) ∧ (∀ e ∈ c.l.sorted, e.2.2 = true)

/-- what handling a truthful answer gives, after the id was removed from the outstanding ones -/
structure GCore (N : List Handle) (l1 : Lookup) (env1 : LEnv) (log : QLog) (ans : List Tid) (h : Handle) (t : Bytes)
    (r : Lookup × LEnv × List Effect) : Prop where
  st : Static l1 r.1
  q : QInv r.1 (log ++ queriesOf env1.now r.2.2) ans
  cand : CandInv N l1.target r.1.sorted
  tokens : r.1.tokens = l1.tokens.filter (·.1 ≠ h) ++ [(h, t)]
  flags : ∀ e ∈ r.1.sorted, e.2.2 = true → ∃ q ∈ log ++ queriesOf env1.now r.2.2, q.2.1 = e.2.1.addr
  src : ∀ q ∈ queriesOf env1.now r.2.2, q.2.2 = env1.now ∧ (∃ x ∈ N, x.addr = q.2.1) ∧ ∃ e ∈ r.1.sorted, e.2.1.addr = q.2.1
  keep : ∀ e ∈ l1.sorted, e.2.1 ∈ r.1.sorted.map (·.2.1)
  hasAll : (l1.inEndgame = true ∨ r.1.inEndgame = true) → ∀ x ∈ N, x ∈ r.1.sorted.map (·.2.1)
  phaseEg : l1.inEndgame = true → r.1.inEndgame = true ∧ r.2.2 = [] ∧ r.1.sorted = l1.sorted
  phaseReg : l1.inEndgame = false → (r.1.inEndgame = false ∧ r.1.active ≠ []) ∨
    (r.1.inEndgame = true ∧ ∀ e ∈ r.1.sorted, e.2.2 = true)

theorem map_flags_handles (l : List (Bytes × Handle × Bool)) :
    (l.map (fun e => (e.1, e.2.1, true))).map (·.2.1) = l.map (·.2.1) := by
  simp [List.map_map, Function.comp_def]

/-- in the end-game an answer only records the token: the candidates are all known already -/
theorem gcore_eg {N : List Handle} (l1 : Lookup) (env1 : LEnv) (log : QLog) (ans : List Tid)
    (h : Handle) (rsp : Resp) (d : Bytes) (t : Bytes)
    (hn : NetOk N l1.target) (ht : rsp.token = some t) (htl : t.length ≤ Constants.MAX_TOKEN_LEN)
    (htr : GTruthful N l1.v6 h rsp)
    (hq : QInv l1 log ans) (hc : CandInv N l1.target l1.sorted)
    (hflags : ∀ e ∈ l1.sorted, e.2.2 = true → ∃ q ∈ log, q.2.1 = e.2.1.addr)
    (heg : l1.inEndgame = true) (hhas : ∀ x ∈ N, x ∈ l1.sorted.map (·.2.1)) :
    GCore N l1 env1 log ans h t (respCore l1 env1 h rsp d) := by
  unfold respCore
  rw [ht, recordToken_some _ _ _ htl]
  simp only
  have A := absorbNodes_res { l1 with tokens := l1.tokens.filter (·.1 ≠ h) ++ [(h, t)] } hn _ d hc htr.sub htr.ne
  generalize ({ l1 with tokens := l1.tokens.filter (·.1 ≠ h) ++ [(h, t)] } : Lookup).absorbNodes
    (if l1.v6 = true then rsp.nodes6 else rsp.nodes4) d = A' at A
  have hsame := A.same (fun x hx => hhas x (htr.sub x hx))
  have hcs : A'.1.continueSearch env1 A'.2.1 A'.2.2 = (A'.1, env1, []) := by
    unfold Lookup.continueSearch
    rw [if_neg (by rw [A.eg]; simp [heg])]
  rw [hcs]
  simp only at hsame
  refine ⟨⟨A.st.aid, A.st.selfId, A.st.v6, A.st.target, A.st.ann, A.st.stream⟩, ?_, hsame ▸ hc, A.tokens, fun e he hfl => ?_,
    fun q hqm => by simp [queriesOf_nil] at hqm, fun e he => ?_, fun _ => by simp only; rw [hsame]; exact hhas,
    fun _ => ⟨A.eg.trans heg, rfl, hsame⟩, fun hc' => by rw [heg] at hc'; cases hc'⟩
  · simp only [queriesOf_nil, List.append_nil]
    exact qinv_transfer hq A.st.aid A.nextSeq A.active
  · simp only at he
    rw [hsame] at he
    obtain ⟨q, hq1, hq2⟩ := hflags e he hfl
    exact ⟨q, List.mem_append_left _ hq1, hq2⟩
  · simp only
    rw [hsame]; exact List.mem_map.mpr ⟨e, he, rfl⟩

/-- outside the end-game an answer makes every node of the network a candidate; those picked are
queried at once, and if nothing is outstanding then, the end-game round queries all the others -/
theorem gcore_reg {N : List Handle} (l1 : Lookup) (env1 : LEnv) (log : QLog) (ans : List Tid)
    (h : Handle) (rsp : Resp) (d : Bytes) (t : Bytes)
    (hn : NetOk N l1.target) (ht : rsp.token = some t) (htl : t.length ≤ Constants.MAX_TOKEN_LEN)
    (htr : GTruthful N l1.v6 h rsp) (hf : ∀ a, env1.sendFails a = false)
    (hq : QInv l1 log ans) (hc : CandInv N l1.target l1.sorted)
    (hflags : ∀ e ∈ l1.sorted, e.2.2 = true → ∃ q ∈ log, q.2.1 = e.2.1.addr)
    (heg : l1.inEndgame = false) (hhin : h ∈ l1.sorted.map (·.2.1)) :
    GCore N l1 env1 log ans h t (respCore l1 env1 h rsp d) := by
  unfold respCore
  rw [ht, recordToken_some _ _ _ htl]
  simp only
  have A := absorbNodes_res { l1 with tokens := l1.tokens.filter (·.1 ≠ h) ++ [(h, t)] } hn _ d hc htr.sub htr.ne
  generalize ({ l1 with tokens := l1.tokens.filter (·.1 ≠ h) ++ [(h, t)] } : Lookup).absorbNodes
    (if l1.v6 = true then rsp.nodes6 else rsp.nodes4) d = A' at A
  have hqA : QInv A'.1 log ans := qinv_transfer hq A.st.aid A.nextSeq A.active
  have C := continueSearch_res A'.1 env1 log ans A'.2.1 A'.2.2 hf hqA (A.eg.trans heg) (fun picks hp => (A.picks picks hp).1)
  generalize A'.1.continueSearch env1 A'.2.1 A'.2.2 = r at C
  have hAinv : CandInv N l1.target A'.1.sorted := A.inv
  have hAfl : ∀ e0 ∈ A'.1.sorted, e0.2.2 = true → ∃ q ∈ log ++ queriesOf env1.now r.2.2, q.2.1 = e0.2.1.addr := by
    intro e0 he0 hfl
    rcases A.fresh e0 he0 with hold | hnew
    · obtain ⟨q, hq1, hq2⟩ := hflags e0 hold hfl
      exact ⟨q, List.mem_append_left _ hq1, hq2⟩
    · obtain ⟨picks, hp, p, hpm, hu, hpe⟩ := hnew hfl
      obtain ⟨q, hq1, hq2⟩ := C.picked picks hp p hpm hu
      exact ⟨q, List.mem_append_right _ hq1, by rw [hq2, hpe]⟩
  -- every node of the network is a candidate after the bookkeeping
  have hAhas : ∀ x ∈ N, x ∈ A'.1.sorted.map (·.2.1) := by
    intro x hx
    by_cases hxh : x = h
    · obtain ⟨e, he, hee⟩ := List.mem_map.mp hhin
      exact List.mem_map.mpr ⟨e, A.keep e he, hee.trans hxh.symm⟩
    · exact A.has x (htr.all x hx hxh)
  -- the handles of the candidates after the step are those after the bookkeeping
  have hhandles : r.1.sorted.map (·.2.1) = A'.1.sorted.map (·.2.1) := by
    rcases C.phase with ⟨_, _, hs⟩ | ⟨_, hs, _⟩
    · rw [hs]
    · rw [hs]; exact map_flags_handles _
  have hst : Static l1 r.1 :=
    Static.trans (a := l1) ⟨A.st.aid, A.st.selfId, A.st.v6, A.st.target, A.st.ann, A.st.stream⟩ C.st
  refine ⟨hst, C.q, ?_, C.tokens.trans A.tokens, ?_, fun q hqm => ?_, fun e he => ?_, fun _ => by rw [hhandles]; exact hAhas,
    fun hc' => (by rw [heg] at hc'; cases hc'), fun _ => ?_⟩
  · rcases C.phase with ⟨_, _, hs⟩ | ⟨_, hs, _⟩
    · rw [hs]; exact hAinv
    · rw [hs]; exact candInv_flags hAinv
  · intro e he hfl
    rcases C.phase with ⟨_, _, hs⟩ | ⟨_, hs, hcov⟩
    · rw [hs] at he; exact hAfl e he hfl
    · rw [hs] at he
      obtain ⟨e0, he0, rfl⟩ := List.mem_map.mp he
      cases hfl0 : e0.2.2 with
      | true => exact hAfl e0 he0 hfl0
      | false =>
        obtain ⟨q, hq1, hq2⟩ := hcov e0 he0 hfl0
        exact ⟨q, List.mem_append_right _ hq1, hq2⟩
  · obtain ⟨h1, h2⟩ := C.src q hqm
    have hcandA : ∃ e ∈ A'.1.sorted, e.2.1.addr = q.2.1 := by
      rcases h2 with ⟨picks, hp, p, hpm, hu, hpe⟩ | ⟨e, he, hpe⟩
      · obtain ⟨e, he, hee⟩ := List.mem_map.mp (A.has p.1 ((A.picks picks hp).2 p hpm hu))
        exact ⟨e, he, by rw [hee, hpe]⟩
      · exact ⟨e, he, hpe.symm⟩
    obtain ⟨e, he, hea⟩ := hcandA
    refine ⟨h1, ⟨e.2.1, hAinv.sub e he, hea⟩, ?_⟩
    have : e.2.1 ∈ r.1.sorted.map (·.2.1) := by rw [hhandles]; exact List.mem_map.mpr ⟨e, he, rfl⟩
    obtain ⟨e', he', hee'⟩ := List.mem_map.mp this
    exact ⟨e', he', by rw [hee']; exact hea⟩
  · rw [hhandles]; exact List.mem_map.mpr ⟨e, A.keep e he, rfl⟩
  · rcases C.phase with ⟨h1, h2, _⟩ | ⟨h1, hs, _⟩
    · exact Or.inl ⟨h1, h2⟩
    · refine Or.inr ⟨h1, fun e he => ?_⟩
      rw [hs] at he
      obtain ⟨e0, _, rfl⟩ := List.mem_map.mp he
      rfl

/-- the invariant after an accepted truthful answer, from the description of what handling it does -/
theorem ginv_of_core {N : List Handle} (c : RCfg) (env env1 : LEnv) (h : Handle) (tid : Tid) (u : Nat) (t : Bytes)
    (r : Lookup × LEnv × List Effect)
    (hn : NetOk N c.l.target) (hinv : GInv N c.l.target c) (hmono : c.now ≤ env.now) (hn1 : env1.now = env.now)
    (hhN : h ∈ N) (hlog : (tid, h.addr, u) ∈ c.log)
    (hcore : GCore N { c.l with active := c.l.active.filter (·.1 ≠ tid) } env1 c.log (tid :: c.answered) h t r) :
    GInv N c.l.target
      { l := r.1, now := env.now, log := c.log ++ queriesOf env.now r.2.2, answered := tid :: c.answered,
        egAt := (if !c.l.inEndgame && r.1.inEndgame then some env.now else c.egAt) } := by
  have hq := hcore.q
  have hflags := hcore.flags
  have hsrc := hcore.src
  have htoks := hcore.tokens
  have hpe := hcore.phaseEg
  have hpr := hcore.phaseReg
  have hkeep := hcore.keep
  have hall := hcore.hasAll
  rw [hn1] at hq hflags hsrc
  simp only at htoks hpe hpr hkeep hall
  have hany : ∀ x, (c.l.tokens.any (·.1 = x) = true ∨ x = h) → r.1.tokens.any (·.1 = x) = true := by
    intro x hx
    rw [htoks, List.any_append]
    by_cases hxh : x = h
    · subst hxh; simp
    · rcases hx with hx | hx
      · obtain ⟨p, hp, hpx⟩ := List.any_eq_true.mp hx
        have hpx' : p.1 = x := by simpa using hpx
        have : (c.l.tokens.filter (·.1 ≠ h)).any (·.1 = x) = true :=
          List.any_eq_true.mpr ⟨p, List.mem_filter.mpr ⟨hp, by simp [hpx', hxh]⟩, hpx⟩
        rw [this]; rfl
      · exact absurd hx hxh
  refine ⟨hcore.st.target, hq, hcore.cand, fun p hp => ?_, fun q hqm hans x hx hxa => ?_, fun t ht => ?_, hflags,
    fun q hqm => ?_, fun hreg => ?_, fun q hqm => ?_, fun heg => ?_⟩
  · simp only at hp
    rw [htoks] at hp
    rcases List.mem_append.mp hp with hp | hp
    · exact hinv.toks p (List.mem_filter.mp hp).1
    · rw [List.mem_singleton.mp hp]; exact hhN
  · simp only at hqm hans ⊢
    have hold : ∃ q0 ∈ c.log, q0.1 = q.1 := by
      rcases List.mem_cons.mp hans with ht | ht
      · exact ⟨_, hlog, ht.symm⟩
      · exact hinv.ansLog _ ht
    obtain ⟨q0, hq0, hq0t⟩ := hold
    have haddr : q0.2.1 = q.2.1 := hq.uniq q0 (List.mem_append_left _ hq0) q hqm hq0t
    apply hany
    rcases List.mem_cons.mp hans with ht | ht
    · right
      have : q0.2.1 = h.addr := hinv.q.uniq q0 hq0 _ hlog (hq0t.trans ht)
      exact hn.addr_inj hx hhN (by rw [hxa, ← haddr, this])
    · left
      exact hinv.ansTok q0 hq0 (hq0t ▸ ht) x hx (by rw [hxa, haddr])
  · simp only at ht ⊢
    rcases List.mem_cons.mp ht with ht | ht
    · exact ⟨_, List.mem_append_left _ hlog, ht.symm⟩
    · obtain ⟨q, hq1, hq2⟩ := hinv.ansLog t ht
      exact ⟨q, List.mem_append_left _ hq1, hq2⟩
  · simp only at hqm ⊢
    rcases List.mem_append.mp hqm with hqm | hqm
    · exact ⟨(hinv.dst q hqm).1, Nat.le_trans (hinv.dst q hqm).2 hmono⟩
    · obtain ⟨h1, h2, _⟩ := hsrc q hqm
      exact ⟨h2, by rw [h1]; exact Nat.le_refl _⟩
  · simp only at hreg ⊢
    cases hold : c.l.inEndgame with
    | true => have := (hpe hold).1; rw [hreg] at this; cases this
    | false =>
      rcases hpr hold with ⟨_, h2⟩ | ⟨h1, _⟩
      · exact ⟨by simp [hreg, (hinv.reg hold).1], h2⟩
      · rw [hreg] at h1; cases h1
  · simp only at hqm ⊢
    rcases List.mem_append.mp hqm with hqm | hqm
    · obtain ⟨e, he, hea⟩ := hinv.qcand q hqm
      obtain ⟨e', he', hee'⟩ := List.mem_map.mp (hkeep e he)
      exact ⟨e', he', by rw [hee']; exact hea⟩
    · exact (hsrc q hqm).2.2
  · simp only at heg ⊢
    refine ⟨?_, hall (Or.inr heg), ?_⟩
    · cases hold : c.l.inEndgame with
      | true =>
        obtain ⟨t, ht1, ht2⟩ := (hinv.eg hold).1
        refine ⟨t, by simp [ht1], fun q hqm => ?_⟩
        rw [(hpe hold).2.1, queriesOf_nil, List.append_nil] at hqm
        exact ht2 q hqm
      | false =>
        refine ⟨env.now, by simp [heg], fun q hqm => ?_⟩
        rcases List.mem_append.mp hqm with hqm | hqm
        · exact Nat.le_trans (hinv.dst q hqm).2 hmono
        · rw [(hsrc q hqm).1]; exact Nat.le_refl _
    · cases hold : c.l.inEndgame with
      | true => rw [(hpe hold).2.2]; exact (hinv.eg hold).2.2
      | false =>
        rcases hpr hold with ⟨h1, _⟩ | ⟨_, h2⟩
        · rw [heg] at h1; cases h1
        · exact h2

/-- how a step changes the recorded tokens: the first answer to a query records the answering
node's token; a repeated answer and a (late) query timeout change nothing at all -/
def TokEvo (c : RCfg) (ev : ReachEv) (c' : RCfg) : Prop :=
  match ev with
  | .resp h tid rsp => (tid ∈ c.answered ∧ c'.l = c.l) ∨
      (tid ∉ c.answered ∧ ∃ t, rsp.token = some t ∧ c'.l.tokens = c.l.tokens.filter (·.1 ≠ h) ++ [(h, t)])
  | .timeout _ => c'.l = c.l

theorem gstep_resp_fresh {N : List Handle} {target : Bytes} {D : Nat} (hn : NetOk N target)
    (c : RCfg) (env : LEnv) (h : Handle) (tid : Tid) (rsp : Resp) (hinv : GInv N target c)
    (hadm : GAdm N D c env (.resp h tid rsp)) (hna : tid ∉ c.answered) :
    GInv N target (c.step env (.resp h tid rsp)) ∧ Static c.l (c.step env (.resp h tid rsp)).l ∧
    ∃ t, rsp.token = some t ∧ (c.step env (.resp h tid rsp)).l.tokens = c.l.tokens.filter (·.1 ≠ h) ++ [(h, t)] := by
  obtain ⟨hhN, ⟨⟨tid', a, u⟩, hlog, htid', ha⟩, htr⟩ := hadm.ev
  simp only at htid' ha
  rw [htid', ha] at hlog
  have htgt := hinv.tgt
  subst htgt
  obtain ⟨t, ht, htl⟩ := htr.token
  obtain ⟨e0, he0, he0t⟩ := hinv.q.act _ hlog hna
  simp only at he0t
  cases hfind : c.l.active.find? (·.1 = tid) with
  | none =>
    have := List.find?_eq_none.mp hfind e0 he0
    simp [he0t] at this
  | some entry =>
    obtain ⟨env1, hf1, hn1, heq⟩ := recvResponse_core c.l env h tid rsp entry hfind
    have hf : ∀ a, env1.sendFails a = false := fun a => by rw [hf1]; exact hadm.sends a
    have hq1 : QInv { c.l with active := c.l.active.filter (·.1 ≠ tid) } c.log (tid :: c.answered) := by
      refine ⟨hinv.q.seq, fun q hq hnans => ?_, fun e he => ?_, fun t ht => ?_, hinv.q.uniq,
        fun e he => hinv.q.alog e (List.mem_filter.mp he).1⟩
      · have hne : q.1 ≠ tid := fun hc => hnans (hc ▸ List.mem_cons_self)
        obtain ⟨e, he, het⟩ := hinv.q.act q hq (fun hc => hnans (List.mem_cons_of_mem _ hc))
        exact ⟨e, List.mem_filter.mpr ⟨he, by simp [het, hne]⟩, het⟩
      · obtain ⟨he1, he2⟩ := List.mem_filter.mp he
        intro hc
        rcases List.mem_cons.mp hc with hc | hc
        · simp [hc] at he2
        · exact hinv.q.nans e he1 hc
      · rcases List.mem_cons.mp ht with ht | ht
        · rw [ht]; exact (hinv.q.seq _ hlog).2
        · exact hinv.q.aseq t ht
    -- the answering node is a candidate: the query went to a candidate with its address
    have hhin : h ∈ c.l.sorted.map (·.2.1) := by
      obtain ⟨e, he, hea⟩ := hinv.qcand _ hlog
      have : e.2.1 = h := hn.addr_inj (hinv.cand.sub e he) hhN hea
      exact List.mem_map.mpr ⟨e, he, this⟩
    have hcore : GCore N { c.l with active := c.l.active.filter (·.1 ≠ tid) } env1 c.log (tid :: c.answered) h t
        (respCore { c.l with active := c.l.active.filter (·.1 ≠ tid) } env1 h rsp entry.2.1) := by
      cases heg : c.l.inEndgame with
      | true => exact gcore_eg _ env1 c.log _ h rsp _ t hn ht htl htr hq1 hinv.cand hinv.flags heg (hinv.eg heg).2.1
      | false => exact gcore_reg _ env1 c.log _ h rsp _ t hn ht htl htr hf hq1 hinv.cand hinv.flags heg hhin
    have hres := ginv_of_core c env env1 h tid u t _ hn hinv hadm.mono hn1 hhN hlog hcore
    have hstep : c.step env (.resp h tid rsp) =
        { l := (respCore { c.l with active := c.l.active.filter (·.1 ≠ tid) } env1 h rsp entry.2.1).1, now := env.now,
          log := c.log ++ queriesOf env.now (respCore { c.l with active := c.l.active.filter (·.1 ≠ tid) } env1 h rsp entry.2.1).2.2,
          answered := tid :: c.answered,
          egAt := (if !c.l.inEndgame && (respCore { c.l with active := c.l.active.filter (·.1 ≠ tid) } env1 h rsp entry.2.1).1.inEndgame
            then some env.now else c.egAt) } := by
      unfold RCfg.step
      simp only [heq, queriesOf_yields]
    rw [hstep]
    exact ⟨hres, ⟨hcore.st.aid, hcore.st.selfId, hcore.st.v6, hcore.st.target, hcore.st.ann, hcore.st.stream⟩, t, ht, hcore.tokens⟩

theorem gstep_resp_dup {N : List Handle} {target : Bytes} {D : Nat}
    (c : RCfg) (env : LEnv) (h : Handle) (tid : Tid) (rsp : Resp) (hinv : GInv N target c)
    (hadm : GAdm N D c env (.resp h tid rsp)) (hans : tid ∈ c.answered) :
    GInv N target (c.step env (.resp h tid rsp)) ∧ (c.step env (.resp h tid rsp)).l = c.l := by
  have hnone : c.l.active.find? (·.1 = tid) = none := by
    apply List.find?_eq_none.mpr
    intro e he hc
    have : e.1 = tid := by simpa using hc
    exact hinv.q.nans e he (this ▸ hans)
  have hstep : c.l.recvResponse env h tid rsp = (c.l, env, []) := recvResponse_unknown c.l env h tid rsp hnone
  have hcfg : c.step env (.resp h tid rsp) = { c with now := env.now, answered := tid :: c.answered } := by
    unfold RCfg.step
    simp only [hstep, queriesOf_nil, List.append_nil]
    cases c.l.inEndgame <;> simp
  rw [hcfg]
  have hmem : ∀ t, t ∈ tid :: c.answered ↔ t ∈ c.answered := fun t =>
    ⟨fun ht => by rcases List.mem_cons.mp ht with ht | ht; exact ht ▸ hans; exact ht, fun ht => List.mem_cons_of_mem _ ht⟩
  refine ⟨⟨hinv.tgt, ⟨hinv.q.seq, fun q hq hna => hinv.q.act q hq (fun hc => hna ((hmem _).mpr hc)),
      fun e he hc => hinv.q.nans e he ((hmem _).mp hc), fun t ht => hinv.q.aseq t ((hmem t).mp ht), hinv.q.uniq, hinv.q.alog⟩,
    hinv.cand, hinv.toks, fun q hq ha => hinv.ansTok q hq ((hmem _).mp ha), fun t ht => hinv.ansLog t ((hmem t).mp ht), hinv.flags,
    fun q hq => ⟨(hinv.dst q hq).1, Nat.le_trans (hinv.dst q hq).2 hadm.mono⟩, hinv.reg, hinv.qcand, hinv.eg⟩, rfl⟩

/-- a query timeout that is not early finds its query answered: it changes nothing -/
theorem gstep_timeout {N : List Handle} {target : Bytes} {D : Nat} (hD : D < Constants.LOOKUP_TIMEOUT_ns)
    (c : RCfg) (env : LEnv) (tid : Tid) (hinv : GInv N target c) (hadm : GAdm N D c env (.timeout tid)) :
    GInv N target (c.step env (.timeout tid)) ∧ (c.step env (.timeout tid)).l = c.l := by
  obtain ⟨⟨tid', a, u⟩, hlog, htid', hdue⟩ := hadm.ev
  simp only at htid' hdue
  rw [htid'] at hlog
  have hans : tid ∈ c.answered := by
    apply Classical.byContradiction
    intro hna
    have := hadm.timely (tid, a, u) hlog hna (hinv.dst _ hlog).1
    simp only at this
    omega
  have hnone : c.l.active.find? (·.1 = tid) = none := by
    apply List.find?_eq_none.mpr
    intro e he hc
    have : e.1 = tid := by simpa using hc
    exact hinv.q.nans e he (this ▸ hans)
  have hstep : c.l.recvTimeout env tid = (c.l, env, []) := by
    unfold Lookup.recvTimeout
    rw [hnone]
  have hcfg : c.step env (.timeout tid) = { c with now := env.now } := by
    unfold RCfg.step
    simp only [hstep, queriesOf_nil, List.append_nil]
    cases c.l.inEndgame <;> simp
  rw [hcfg]
  exact ⟨⟨hinv.tgt, hinv.q, hinv.cand, hinv.toks, hinv.ansTok, hinv.ansLog, hinv.flags,
    fun q hq => ⟨(hinv.dst q hq).1, Nat.le_trans (hinv.dst q hq).2 hadm.mono⟩, hinv.reg, hinv.qcand, hinv.eg⟩, rfl⟩

theorem gtimeout_noop {N : List Handle} {target : Bytes} {D : Nat} (hD : D < Constants.LOOKUP_TIMEOUT_ns)
    (c : RCfg) (env : LEnv) (tid : Tid) (hinv : GInv N target c) (hadm : GAdm N D c env (.timeout tid)) :
    c.l.recvTimeout env tid = (c.l, env, []) ∧ c.step env (.timeout tid) = { c with now := env.now } := by
  obtain ⟨⟨tid', a, u⟩, hlog, htid', hdue⟩ := hadm.ev
  simp only at htid' hdue
  rw [htid'] at hlog
  have hans : tid ∈ c.answered := by
    apply Classical.byContradiction
    intro hna
    have := hadm.timely (tid, a, u) hlog hna (hinv.dst _ hlog).1
    simp only at this
    omega
  have hnone : c.l.active.find? (·.1 = tid) = none := by
    apply List.find?_eq_none.mpr
    intro e he hc
    have : e.1 = tid := by simpa using hc
    exact hinv.q.nans e he (this ▸ hans)
  have hstep : c.l.recvTimeout env tid = (c.l, env, []) := by
    unfold Lookup.recvTimeout
    rw [hnone]
  refine ⟨hstep, ?_⟩
  unfold RCfg.step
  simp only [hstep, queriesOf_nil, List.append_nil]
  cases c.l.inEndgame <;> simp

/-- **every admissible step keeps the invariant** -/
theorem gstep_inv {N : List Handle} {target : Bytes} {D : Nat} (hn : NetOk N target) (hD : D < Constants.LOOKUP_TIMEOUT_ns)
    (c : RCfg) (env : LEnv) (ev : ReachEv) (h : GInv N target c) (hadm : GAdm N D c env ev) :
    GInv N target (c.step env ev) ∧ Static c.l (c.step env ev).l ∧ TokEvo c ev (c.step env ev) := by
  cases ev with
  | resp x tid rsp =>
    by_cases hans : tid ∈ c.answered
    · obtain ⟨h1, h2⟩ := gstep_resp_dup c env x tid rsp h hadm hans
      exact ⟨h1, by rw [h2]; exact Static.refl _, Or.inl ⟨hans, h2⟩⟩
    · obtain ⟨h1, h2, h3⟩ := gstep_resp_fresh hn c env x tid rsp h hadm hans
      exact ⟨h1, h2, Or.inr ⟨hans, h3⟩⟩
  | timeout tid =>
    obtain ⟨h1, h2⟩ := gstep_timeout hD c env tid h hadm
    exact ⟨h1, by rw [h2]; exact Static.refl _, h2⟩

theorem ginv_not_completed {N : List Handle} {target : Bytes} {c : RCfg} (hinv : GInv N target c) :
    c.l.completedNow = false := by
  unfold Lookup.completedNow
  cases heg : c.l.inEndgame with
  | true => simp
  | false =>
    have := (hinv.reg heg).2
    cases hact : c.l.active with
    | nil => exact absurd hact this
    | cons a t => simp

/-- when the end-game timer fires (not early) on a timely network, every node of the network is a
candidate holding a token, and the announce targets are the 8 closest nodes of the network -/
theorem gfinish_targets {N : List Handle} {target : Bytes} {D : Nat} (hn : NetOk N target)
    (hD : D < Constants.ENDGAME_TIMEOUT_ns) (c : RCfg) (now : Nat) (hinv : GInv N target c)
    (htimely : Timely N D c now) (hdue : ∃ t, c.egAt = some t ∧ t + Constants.ENDGAME_TIMEOUT_ns ≤ now) :
    c.l.announceTargets.map (·.2.1) = closest8 target N ∧
    (∀ x ∈ N, c.l.tokens.any (·.1 = x) = true) ∧ (∀ q ∈ c.log, q.1 ∈ c.answered) := by
  obtain ⟨t, ht, hdue⟩ := hdue
  have heg : c.l.inEndgame = true := by
    cases hc : c.l.inEndgame with
    | true => rfl
    | false => have := (hinv.reg hc).1; rw [ht] at this; cases this
  obtain ⟨⟨t', ht', hle⟩, hhas, hall⟩ := hinv.eg heg
  have htt : t' = t := by rw [ht] at ht'; exact (Option.some.inj ht').symm
  subst htt
  have hansw : ∀ q ∈ c.log, q.1 ∈ c.answered := by
    intro q hq
    apply Classical.byContradiction
    intro hna
    have h1 := htimely q hq hna (hinv.dst q hq).1
    have h2 := hle q hq
    omega
  have htokAny : ∀ e ∈ c.l.sorted, c.l.tokens.any (·.1 = e.2.1) = true := by
    intro e he
    obtain ⟨q, hq, hqa⟩ := hinv.flags e he (hall e he)
    exact hinv.ansTok q hq (hansw q hq) e.2.1 (hinv.cand.sub e he) hqa.symm
  refine ⟨?_, fun x hx => ?_, hansw⟩
  · unfold Lookup.announceTargets
    rw [List.filter_eq_self.mpr (fun e he => htokAny e he), List.map_take]
    have h8 : Constants.ANNOUNCE_PICK_NUM = 8 := by decide
    rw [h8]
    exact take_eq_closestK hn 8 _ (candInv_strict hn hinv.cand)
      (fun s hs => by obtain ⟨e, he, rfl⟩ := List.mem_map.mp hs; exact hinv.cand.sub e he)
      (fun x hx => hhas x (mem_closestK hx))
  · obtain ⟨e, he, rfl⟩ := List.mem_map.mp (hhas x hx)
    exact htokAny e he

theorem start_qcand (aid stream : Nat) (selfId : Bytes) (v6 : Bool) (target : Bytes) (ann : Bool) (env : LEnv)
    (hf : ∀ a, env.sendFails a = false) :
    ∀ q ∈ queriesOf env.now (Lookup.new aid stream selfId v6 target ann env).2.2,
      ∃ e ∈ (Lookup.new aid stream selfId v6 target ann env).1.sorted, e.2.1.addr = q.2.1 := by
  unfold Lookup.new
  simp only
  generalize (((env.table.closestNodes target env.now).filter (fun n => n.status env.now = .good)).take Constants.MAX_BUCKET_SIZE).foldl
    (fun acc n => insertSorted acc target n.handle false) [] = S0
  by_cases hne : (S0.take Constants.INITIAL_PICK_NUM).map (fun (x : Bytes × Handle × Bool) => (x.2.1, xorBytes x.2.1.id target)) = []
  · intro q hq
    rw [hne] at hq
    simp [Lookup.requestRound, queriesOf_nil] at hq
  · have RR := requestRound_ok
      { aid := aid, nextSeq := 0, selfId := selfId, v6 := v6, target := target, inEndgame := false, willAnnounce := ann,
        active := [], tokens := [], requested := [],
        sorted := (S0.take Constants.INITIAL_PICK_NUM).map (fun (x : Bytes × Handle × Bool) => (x.1, x.2.1, true)) ++
          S0.drop Constants.INITIAL_PICK_NUM, stream := stream }
      env [] [] _ hf ⟨by simp, by simp, by simp, by simp, by simp, by simp⟩ hne
    generalize Lookup.requestRound _ env _ = r at RR
    intro q hq
    obtain ⟨_, hd, hhd, h2⟩ := RR.src q hq
    obtain ⟨e0, he0, rfl⟩ := List.mem_map.mp hhd
    rw [RR.sorted]
    exact ⟨(e0.1, e0.2.1, true), List.mem_append_left _ (List.mem_map.mpr ⟨e0, he0, rfl⟩), h2.symm⟩

/-- **the invariant holds right after `TableLookup::new`** when the routing table's good nodes are
nodes of the network, there is at least one, and the sends succeed -/
theorem start_ginv {N : List Handle} {target : Bytes} (hn : NetOk N target)
    (aid stream : Nat) (selfId : Bytes) (v6 ann : Bool) (env : LEnv) (hf : ∀ a, env.sendFails a = false)
    (hgood : ∀ h ∈ goodHandles env target, h ∈ N) (hne : goodHandles env target ≠ []) :
    GInv N target (RCfg.start (Lookup.new aid stream selfId v6 target ann env) env.now) ∧
    (Lookup.new aid stream selfId v6 target ann env).1.aid = aid ∧
    (Lookup.new aid stream selfId v6 target ann env).1.selfId = selfId ∧
    (Lookup.new aid stream selfId v6 target ann env).1.v6 = v6 ∧
    (Lookup.new aid stream selfId v6 target ann env).1.willAnnounce = ann ∧
    (Lookup.new aid stream selfId v6 target ann env).1.stream = stream ∧
    (Lookup.new aid stream selfId v6 target ann env).1.tokens = [] := by
  obtain ⟨h0, s1, s2, s3, s4, s5⟩ := start_inv (tok := fun _ => []) hn aid stream selfId v6 ann env hf hgood hne
  have hneg : (RCfg.start (Lookup.new aid stream selfId v6 target ann env) env.now).l.inEndgame = false := by
    cases hc : (RCfg.start (Lookup.new aid stream selfId v6 target ann env) env.now).l.inEndgame with
    | false => rfl
    | true =>
      obtain ⟨⟨t, ht, _⟩, _⟩ := h0.eg hc
      simp [RCfg.start] at ht
  have htoks : (Lookup.new aid stream selfId v6 target ann env).1.tokens = [] := by
    cases hl : (Lookup.new aid stream selfId v6 target ann env).1.tokens with
    | nil => rfl
    | cons p ps =>
      -- tokens are only recorded from answers, none was handled yet
      exfalso
      have hk := (requestRound_keeps env.table
        { aid := aid, nextSeq := 0, selfId := selfId, v6 := v6, target := target, inEndgame := false, willAnnounce := ann,
          active := [], tokens := [], requested := [], sorted := [], stream := stream } env [] (.refl _)).1.tokens
      revert hl
      unfold Lookup.new
      simp only
      intro hl
      have key : ∀ (l : Lookup) (nodes : List (Handle × Bytes)), (l.requestRound env nodes).1.tokens = l.tokens :=
        fun l nodes => (requestRound_keeps env.table l env nodes (.refl _)).1.tokens
      rw [key] at hl
      cases hl
  refine ⟨⟨h0.tgt, h0.q, h0.cand, fun p hp => ?_, h0.ansTok, h0.ansLog, h0.flags, h0.dst, h0.reg, ?_,
    fun heg => by rw [hneg] at heg; cases heg⟩, s1, s2, s3, s4, s5, htoks⟩
  · simp only [RCfg.start] at hp; rw [htoks] at hp; cases hp
  · intro q hq
    exact start_qcand aid stream selfId v6 target ann env hf q hq

end Btdht
