import Btdht.Proofs.BootTime
/-
C15 timed clause, part 3: frame lemmas for the clock and the queue of routed answers.
-/
namespace Btdht

/-- the transition leaves the clock and the queue of routed answers alone -/
def CR (s s' : DState) : Prop := s'.clock = s.clock ∧ s'.ready = s.ready

theorem CR.refl (s : DState) : CR s s := ⟨rfl, rfl⟩
theorem CR.trans {a b c : DState} (h1 : CR a b) (h2 : CR b c) : CR a c := ⟨h2.1.trans h1.1, h2.2.trans h1.2⟩

theorem setPub_cr (s : DState) (p : BPub) : CR s (s.setPub p).1 := by
  unfold DState.setPub; split <;> exact ⟨rfl, rfl⟩

theorem beginAttempt_cr (s : DState) (now : Nat) : CR s (s.beginAttempt now).1 := by
  unfold DState.beginAttempt
  simp only
  split
  · exact CR.trans (b := { s with stale := [] }) ⟨rfl, rfl⟩ (CR.trans (setPub_cr _ _) ⟨rfl, rfl⟩)
  · split
    · exact CR.trans (b := { s with stale := [], h := { s.h with table := { s.h.table with routers := (s.cfg.contacts).1 } } })
        ⟨rfl, rfl⟩ (CR.trans (setPub_cr _ _) ⟨rfl, rfl⟩)
    · exact CR.trans (b := { s with stale := [], h := { s.h with table := { s.h.table with routers := (s.cfg.contacts).1 } } })
        ⟨rfl, rfl⟩ (CR.trans (setPub_cr _ _) ⟨rfl, rfl⟩)

theorem finishInitial_cr (s : DState) (responses : Nat) (remaining : List Pending) (now : Nat) :
    CR s (s.finishInitial responses remaining now).1 := by
  unfold DState.finishInitial
  split
  · exact CR.trans (setPub_cr s .idle) ⟨rfl, rfl⟩
  · exact CR.trans (setPub_cr s .bootstrapping) ⟨rfl, rfl⟩

theorem sweepDone_cr (s : DState) (now : Nat) : CR s (s.sweepDone now).1 := by
  unfold DState.sweepDone
  simp only
  split
  · exact CR.trans (setPub_cr s .idle) ⟨rfl, rfl⟩
  · exact CR.trans (setPub_cr s .bootstrapped) ⟨rfl, rfl⟩

theorem bucketSend_cr (target : Bytes) (now : Nat) (acc : DState × List Pending × List DEv) (hd : Handle) :
    CR acc.1 (bucketSend target now acc hd).1 := by
  obtain ⟨s, active, evs⟩ := acc
  unfold bucketSend
  simp only
  split <;> exact ⟨rfl, rfl⟩

theorem bucketRound_cr (s : DState) (k now : Nat) : CR s (s.bucketRound k now).1 := by
  unfold DState.bucketRound
  have hf := foldl_pred (fun (acc : DState × List Pending × List DEv) => CR s acc.1)
    (bucketSend (flipBit s.h.selfId k) now) (fun b a hb => CR.trans hb (bucketSend_cr _ now b a)) (s.bucketPicks k now) (s, [], [])
    (CR.refl s)
  simp only
  split
  · exact CR.trans hf ⟨rfl, rfl⟩
  · exact CR.trans hf ⟨rfl, rfl⟩

theorem periodicCheck_cr (s : DState) (now : Nat) : CR s (s.periodicCheck now).1 := by
  unfold DState.periodicCheck
  split
  · exact beginAttempt_cr s now
  · exact ⟨rfl, rfl⟩

theorem firstRoundSend_cr (s : DState) (tid : Tid) (rl nl : List Addr) (count : Nat) (active : List Pending)
    (responses stopAt now : Nat) (r : DState × List DEv) (hr : s.firstRoundSend tid rl nl count active responses stopAt now = some r) :
    CR s r.1 := by
  unfold DState.firstRoundSend at hr
  split at hr
  · simp at hr
  · simp only [Option.some.injEq] at hr; subst hr; exact ⟨rfl, rfl⟩

theorem bStepMain_cr (s : DState) (now : Nat) (r : DState × List DEv) (hb : s.bStepMain now = some r) : CR s r.1 := by
  unfold DState.bStepMain at hb
  split at hb
  · simp at hb
  · simp at hb
  · split at hb
    · simp only [Option.some.injEq] at hb; subst hb; exact beginAttempt_cr s now
    · simp at hb
  · split at hb
    · simp only [Option.some.injEq] at hb; subst hb; exact periodicCheck_cr s now
    · simp at hb
  · simp only at hb
    split at hb
    · simp only [Option.some.injEq] at hb; subst hb; exact ⟨rfl, rfl⟩
    · split at hb
      · split at hb
        · simp only [Option.some.injEq] at hb; subst hb; exact finishInitial_cr s _ [] now
        · simp at hb
      · split at hb
        · split at hb
          · exact firstRoundSend_cr s _ _ _ _ _ _ _ now r hb
          · simp at hb
        · split at hb
          · simp only [Option.some.injEq] at hb; subst hb; exact ⟨rfl, rfl⟩
          · exact firstRoundSend_cr s _ _ _ _ _ _ _ now r hb
  · split at hb
    · simp only [Option.some.injEq] at hb; subst hb; exact bucketRound_cr s _ now
    · simp only [Option.some.injEq] at hb; subst hb; exact sweepDone_cr s now
  · simp only at hb
    split at hb
    · simp only [Option.some.injEq] at hb; subst hb; exact ⟨rfl, rfl⟩
    · split at hb
      · simp only [Option.some.injEq] at hb; subst hb; exact ⟨rfl, rfl⟩
      · simp at hb

theorem workerMessage_cr (s : DState) (p : Pending) (body : Body) (src : Addr) (now : Nat) :
    CR s (s.workerMessage p body src now).1 := by
  unfold DState.workerMessage
  cases body with
  | resp r =>
    simp only
    split
    · split
      · split
        · exact CR.trans (b := { s with h := { s.h with table := s.h.table.addNodes (Node.asGood ⟨r.id, src⟩ now) (s.h.namedBy r) now } })
            ⟨rfl, rfl⟩ (finishInitial_cr _ _ _ now)
        · exact ⟨rfl, rfl⟩
      · exact ⟨rfl, rfl⟩
    · split <;> exact ⟨rfl, rfl⟩
    · exact ⟨rfl, rfl⟩
  | req r =>
    simp only
    split
    · split <;> exact ⟨rfl, rfl⟩
    · split <;> exact ⟨rfl, rfl⟩
    · exact ⟨rfl, rfl⟩
  | err c m =>
    simp only
    split
    · split <;> exact ⟨rfl, rfl⟩
    · split <;> exact ⟨rfl, rfl⟩
    · exact ⟨rfl, rfl⟩

theorem refreshRound_clock (s : DState) (now : Nat) : (s.refreshRound now).1.clock = s.clock := by
  unfold DState.refreshRound
  simp only

theorem startLookup_clock (s : DState) (ih : Bytes) (ann : Bool) (now : Nat) : (s.startLookup ih ann now).1.clock = s.clock := by
  unfold DState.startLookup; split <;> rfl

theorem startQueued_clock (s : DState) (now : Nat) : (s.startQueued now).1.clock = s.clock := by
  unfold DState.startQueued
  have hf := foldl_pred (fun (acc : DState × List DEv) => acc.1.clock = s.clock)
    (fun (acc : DState × List DEv) q => ((acc.1.startLookup q.1 q.2 now).1, acc.2 ++ (acc.1.startLookup q.1 q.2 now).2))
    (fun b a hb => by
      have h := startLookup_clock b.1 a.1 a.2 now
      exact h.trans hb)
    s.queued ({ s with queued := [] }, []) rfl
  exact hf

theorem firstRefresh_clock (s : DState) (now : Nat) : (s.firstRefresh now).1.clock = s.clock := by
  unfold DState.firstRefresh
  split
  · rfl
  · exact refreshRound_clock _ now

theorem bootstrapSuccess_clock (s : DState) (now : Nat) : (s.bootstrapSuccess now).1.clock = s.clock := by
  unfold DState.bootstrapSuccess
  simp only
  rw [startQueued_clock]
  exact firstRefresh_clock _ now

theorem hObserve_clock (s : DState) (now : Nat) : (s.hObserve now).1.clock = s.clock := by
  unfold DState.hObserve
  split
  · rfl
  · simp only
    split
    · exact bootstrapSuccess_clock _ now
    · rfl

theorem fireOne_clock (s : DState) (now : Nat) (r : DState × List DEv) (hf : s.fireOne now = some r) : r.1.clock = s.clock := by
  unfold DState.fireOne at hf
  cases hp : s.h.timer.pop with
  | none => simp [hp] at hf
  | some pe =>
    obtain ⟨timer, e⟩ := pe
    simp only [hp] at hf
    split at hf
    · split at hf
      · simp only [Option.some.injEq] at hf; subst hf; rfl
      · simp only [Option.some.injEq] at hf; subst hf; rfl
    · simp at hf

theorem command_clock (s : DState) (c : Cmd) (now : Nat) : (s.command c now).1.clock = s.clock := by
  cases c with
  | startBootstrap =>
    simp only [DState.command]
    split
    · exact (beginAttempt_cr s now).1
    · rfl
  | checkBootstrap => simp only [DState.command]; split <;> rfl
  | startLookup ih ann => simp only [DState.command]; exact startLookup_clock s ih ann now
  | getLocalAddr => rfl
  | getState => rfl
  | loadContacts => rfl

theorem datagram_clock (s : DState) (tid : InTid) (body : Body) (src : Addr) (now : Nat) :
    (s.datagram tid body src now).1.clock = s.clock := by
  unfold DState.datagram
  simp only
  split <;> rfl

end Btdht
