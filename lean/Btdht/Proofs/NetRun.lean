import Btdht.Proofs.NetStepF
/-!
C01 helpers: the start of the search, and the invariant along a whole run.
-/
namespace Btdht

/-- the network just before the search starts: every node serves and knows all the others, none runs
a search, nothing is in flight -/
structure Ready (P : Phase) (cfg : NetCfg) : Prop where
  len : cfg.nodes.length = P.N.length
  nodes : ∀ (k : Nat) (n : NNode), cfg.nodes[k]? = some n → NodeOk P cfg.now k n
  idle : ∀ (k : Nat) (n : NNode), cfg.nodes[k]? = some n → n.st.lookups = []
  flight : cfg.flight = []
  time : cfg.now ≤ P.T0
  stores : ∀ (k : Nat) (n : NNode) (y : Addr) (t : Nat), cfg.nodes[k]? = some n → Held n.st.store ⟨P.ih, y⟩ t →
    P.T0 - t < 86400000000000 → P.Src n.handle y
  yields : cfg.yields = P.Y0
  client : ∃ n, cfg.nodes[P.ia]? = some n ∧ n.st.nextAid = P.A ∧ n.st.nextStream = P.stream ∧ n.st.announcePort = P.port ∧
    n.st.timer.entries = []

/-- **the search starts** -/
theorem sinv_start {P : Phase} (hW : NetWF P) {cfg : NetCfg} (h : Ready P cfg) (hG : P.T0 ≤ P.G) :
    ∃ c, SInv P (cfg.step (.start P.ia P.ih P.ann) P.T0) c none := by
  obtain ⟨n, hk, hnA, hnS, hnP, hnT⟩ := h.client
  have hnk := h.nodes P.ia n hk
  have hna : n.handle = P.a := by
    have h1 := hnk.handle
    rw [hW.aN] at h1
    exact (Option.some.inj h1).symm
  have hfails : ∀ a, (n.st.env P.T0).sendFails a = false := fun a => by simp [HState.env, hnk.serves.sends]
  have hwin := hW.window
  have hgn := knows_goodNodes hnk.serves.knows hnk.serves.idlen P.ih P.T0 hG
  have hgood : ∀ x ∈ goodHandles (n.st.env P.T0) P.ih, x ∈ P.N := fun x hx =>
    (List.mem_filter.mp ((hgn x).mp hx)).1
  have hne : goodHandles (n.st.env P.T0) P.ih ≠ [] := by
    obtain ⟨x, hx, hxn⟩ := exists_other hW n.handle
    have : x ∈ goodHandles (n.st.env P.T0) P.ih := (hgn x).mpr (List.mem_filter.mpr ⟨hx, by simpa using hxn⟩)
    intro hnil; rw [hnil] at this; cases this
  obtain ⟨hg, s1, s2, s3, s4, s5, s6⟩ := start_ginv hW.net n.st.nextAid n.st.nextStream n.st.selfId n.st.v6 P.ann
    (n.st.env P.T0) hfails hgood hne
  have hnc := ginv_not_completed hg
  obtain ⟨hallq, htnew⟩ := new_shape n.st.nextAid n.st.nextStream n.st.selfId n.st.v6 P.ih P.ann (n.st.env P.T0) hfails
  have hknows : Knows n.st.selfId (P.N.filter (· ≠ n.handle)) P.G
      (Lookup.new n.st.nextAid n.st.nextStream n.st.selfId n.st.v6 P.ih P.ann (n.st.env P.T0)).2.1.table :=
    new_tbl (knows_markClosed _ _ _) _ _ _ _ _ _ _ hnk.serves.knows
  have hstepE : n.st.hstepE (.start P.ih P.ann) P.T0 =
      ({ n.st with
          table := (Lookup.new n.st.nextAid n.st.nextStream n.st.selfId n.st.v6 P.ih P.ann (n.st.env P.T0)).2.1.table,
          timer := (Lookup.new n.st.nextAid n.st.nextStream n.st.selfId n.st.v6 P.ih P.ann (n.st.env P.T0)).2.1.timer,
          nextAid := n.st.nextAid + 1, nextStream := n.st.nextStream + 1,
          lookups := [(Lookup.new n.st.nextAid n.st.nextStream n.st.selfId n.st.v6 P.ih P.ann (n.st.env P.T0)).1] },
       liftEffects (Lookup.new n.st.nextAid n.st.nextStream n.st.selfId n.st.v6 P.ih P.ann (n.st.env P.T0)).2.2) := by
    simp only [HState.hstepE, client_start n.st P.ih P.ann P.T0 (h.idle P.ia n hk) hnc]
  show ∃ c, SInv P (cfg.nodeStep P.ia (.start P.ih P.ann) P.T0) c none
  rw [step_node_eq cfg P.ia n _ P.T0 hk, hstepE, h.flight, List.nil_append]
  generalize hre : Lookup.new n.st.nextAid n.st.nextStream n.st.selfId n.st.v6 P.ih P.ann (n.st.env P.T0) = r
    at hg s1 s2 s3 s4 s5 s6 hnc hallq htnew hknows
  have hsid : n.st.selfId = P.a.id := by rw [← hna]; rfl
  obtain ⟨hnewp, hnewq⟩ := client_new_pkts (c' := RCfg.start r P.T0) hW h.len (fun k n hk => (h.nodes k n hk).handle) hna
    P.T0 r.2.2 r.2.2 [] (List.append_nil _).symm (by rw [← hsid]; exact hallq) (fun y hy => by simp at hy) hg
    (s1.trans hnA) (fun q hq => hq)
  refine ⟨RCfg.start r P.T0, sinv_client_mk hW h.len h.nodes (fun k m hm _ => h.idle k m hm) hk
    { n.st with table := r.2.1.table, timer := r.2.1.timer, nextAid := n.st.nextAid + 1, nextStream := n.st.nextStream + 1,
                lookups := [r.1] } (RCfg.start r P.T0) P.T0
    h.time hG h.stores (Nat.le_refl _) rfl rfl rfl rfl hknows rfl rfl rfl ?_ hnP hg (s1.trans hnA) (s2.trans hsid)
    (s3.trans (serves_v6 hW hnk.serves)) s4 (s5.trans hnS) (Nat.le_refl _) _ _ (fun p hp => hnewp _ p hp)
    (fun q hq _ => ?_) (fun p hp => ?_) (fun q _ hqa => ?_) (fun e he => ?_)⟩
  · intro te hte
    rcases htnew te hte with hold | ⟨tid, dst, h1, h2, h3⟩ | ⟨hF, _⟩
    · simp only [HState.env] at hold
      rw [hnT] at hold; cases hold
    · refine ⟨fun tid' ht => ?_, fun tid' ht => (by rw [h1] at ht; cases ht), (by rw [h1]; simp)⟩
      rw [h1] at ht
      cases ht
      exact ⟨_, h3, rfl, (by rw [h2]; exact Nat.le_refl _)⟩
    · exact absurd hF id
  · obtain ⟨p', hp', a, b, d⟩ := hnewq q hq
    exact ⟨p', hp', a, Or.inl ⟨b, d⟩⟩
  · simp only [RCfg.start] at hp
    rw [s6] at hp; cases hp
  · simp only [RCfg.start] at hqa; cases hqa
  · rcases List.mem_append.mp he with he | he
    · rw [h.yields] at he; exact Or.inl he
    · obtain ⟨_, h2⟩ := mem_yieldsOf.mp he
      have h3 := mem_lift_yield.mp h2
      obtain ⟨_, _, e'⟩ := hallq _ h3
      cases e'

/-- the step `fire k` ends the search of node `k`: the node runs a search and the entry popped is an end-game entry -/
def SearchEnds (cfg : NetCfg) (k : Nat) : Prop :=
  ∃ (n : NNode) (t : Timer Task) (e : TimerEntry Task) (q : Tid), cfg.nodes[k]? = some n ∧ n.st.lookups ≠ [] ∧
    n.st.timer.pop = some (t, e) ∧ e.task = .lookupEndGame q

def NOp.isStart : NOp → Bool
  | .start _ _ _ => true
  | _ => false

/-- **every step keeps the invariant**; the search ends exactly at the step that pops its end-game entry -/
theorem sinv_step {P : Phase} (hW : NetWF P) {cfg : NetCfg} {c : RCfg} {fin : Option Nat} (h : SInv P cfg c fin)
    (op : NOp) (now : Nat) (hok : cfg.okStep P.D op now) (hG : now ≤ P.G) (hns : op.isStart = false) :
    ∃ c' fin', SInv P (cfg.step op now) c' fin' ∧ (∀ T, fin = some T → fin' = some T) ∧
      (fin = none → (fin' = none ∧ ¬ (op = .fire P.ia ∧ SearchEnds cfg P.ia)) ∨
        (fin' = some now ∧ op = .fire P.ia ∧ SearchEnds cfg P.ia)) := by
  cases op with
  | start k tg an => simp [NOp.isStart] at hns
  | deliver i =>
    have hi : i < cfg.flight.length := hok.2.2
    have hp : cfg.flight[i]? = some cfg.flight[i] := List.getElem?_eq_getElem hi
    have hnf : ∀ (f : Option Nat), f = none → (f = none ∧ ¬ (NOp.deliver i = .fire P.ia ∧ SearchEnds cfg P.ia)) ∨
        (f = some now ∧ NOp.deliver i = .fire P.ia ∧ SearchEnds cfg P.ia) :=
      fun f hf => Or.inl ⟨hf, fun hc => by cases hc.1⟩
    cases h.pkts _ (List.getElem_mem hi) with
    | query x tid hx hsrc hdst htid haid hbody hlog =>
      exact ⟨c, fin, sinv_deliver_query hW h i now hok hG _ hp x tid hx hsrc hdst htid haid hbody hlog, fun T hT => hT, hnf fin⟩
    | answer x tid rsp u t hx hdst hsrc htid haid hbody hlog hsent htr htok htv hvs hvc =>
      cases hf : fin with
      | none =>
        subst hf
        obtain ⟨c', hc'⟩ := sinv_deliver_answer hW h i now hok hG _ hp x tid rsp u t hx hdst hsrc htid haid hbody hlog htr htok htv
          (hvs rfl) hvc
        exact ⟨c', none, hc', fun T hT => hT, hnf none⟩
      | some T1 =>
        subst hf
        exact ⟨c, some T1, sinv_deliver_stray hW h i now hok hG _ hp tid hdst htid haid (fun r hc => by rw [hbody] at hc; cases hc),
          fun T hT => hT, fun hc => by cases hc⟩
    | announce x tid t T1 hfin hsent hx hsrc hdst htid haid hbody htv =>
      subst hfin
      exact ⟨c, some T1, sinv_deliver_announce hW h i now hok hG _ hp x tid t hsent hx hsrc hdst htid haid hbody htv,
        fun T hT => hT, fun hc => by cases hc⟩
    | reply tid hfin hdst htid haid hbody =>
      cases hf : fin with
      | none => exact absurd hf hfin
      | some T1 =>
        subst hf
        exact ⟨c, some T1, sinv_deliver_stray hW h i now hok hG _ hp tid hdst htid haid hbody, fun T hT => hT, fun hc => by cases hc⟩
  | fire k =>
    obtain ⟨hn1, htimely, n, hk, timer, e, hpop, hdue⟩ := hok
    by_cases hidle : n.st.lookups = []
    · refine ⟨c, fin, sinv_fire_idle hW h k now hn1 hG n hk hidle timer e hpop, fun T hT => hT, fun hf => Or.inl ⟨hf, ?_⟩⟩
      rintro ⟨hkk, n', _, _, _, hk', hne, _⟩
      cases hkk
      rw [hk] at hk'; cases hk'
      exact hne hidle
    · -- the node runs a search: it is the searching node, and the search has not ended
      have hkia : k = P.ia := by
        apply Classical.byContradiction
        intro hne; exact hidle (h.idle k n hk (Or.inl hne))
      subst hkia
      have hfin : fin = none := by
        cases hf : fin with
        | none => rfl
        | some T => exact absurd (h.idle _ n hk (Or.inr (by rw [hf]; simp))) hidle
      subst hfin
      obtain ⟨m, hm, hml, hmt, _⟩ := (h.client rfl).node
      rw [hk] at hm; cases hm
      obtain ⟨p1, _⟩ := pop_spec n.st.timer timer e hpop
      cases htask : e.task with
      | tableRefresh => exact absurd htask (hmt e p1).2.2
      | lookupTimeout t =>
        refine ⟨_, none, sinv_fire_timeout hW h now hn1 htimely hG n hk timer e hpop hdue t htask, fun T hT => hT,
          fun _ => Or.inl ⟨rfl, ?_⟩⟩
        rintro ⟨_, n', t', e', q, hk', _, hpop', htask'⟩
        rw [hk] at hk'; cases hk'
        rw [hpop] at hpop'; cases hpop'
        rw [htask] at htask'; cases htask'
      | lookupEndGame t =>
        exact ⟨c, some now, (sinv_fire_finish hW h now hn1 htimely hG n hk timer e hpop hdue t htask).1, fun T hT => (by cases hT),
          fun _ => Or.inr ⟨rfl, rfl, n, timer, e, t, hk, hidle, hpop, htask⟩⟩

/-! ### whole runs -/

/-- all steps happen by `G`, and none starts another search -/
def RunOk (P : Phase) (ops : List (NOp × Nat)) : Prop := ∀ p ∈ ops, p.2 ≤ P.G ∧ p.1.isStart = false

theorem sinv_run {P : Phase} (hW : NetWF P) : ∀ (ops : List (NOp × Nat)) (cfg : NetCfg) (c : RCfg) (fin : Option Nat),
    SInv P cfg c fin → NetRun P.D cfg ops → RunOk P ops →
    ∃ c' fin', SInv P (cfg.run ops) c' fin' ∧ (∀ T, fin = some T → fin' = some T)
  | [], cfg, c, fin, h, _, _ => ⟨c, fin, h, fun T hT => hT⟩
  | (op, now) :: rest, cfg, c, fin, h, hrun, hok => by
    obtain ⟨h1, h2⟩ := hrun
    obtain ⟨hG, hns⟩ := hok (op, now) List.mem_cons_self
    obtain ⟨c1, fin1, hs1, hf1, _⟩ := sinv_step hW h op now h1 hG hns
    obtain ⟨c2, fin2, hs2, hf2⟩ := sinv_run hW rest _ c1 fin1 hs1 h2 (fun p hp => hok p (List.mem_cons_of_mem _ hp))
    exact ⟨c2, fin2, hs2, fun T hT => hf2 T (hf1 T hT)⟩

/-- after every step, no datagram in flight is older than `D` -/
theorem step_flight_timely (D : Nat) (cfg : NetCfg) (op : NOp) (now : Nat) (hok : cfg.okStep D op now) :
    ∀ p ∈ (cfg.step op now).flight, (cfg.step op now).now ≤ p.sent + D ∧ (cfg.step op now).now = now := by
  obtain ⟨_, htimely, _⟩ := hok
  have hnode : ∀ (cfg' : NetCfg) (k : Nat) (o : HOp), (∀ p ∈ cfg'.flight, now ≤ p.sent + D) →
      ∀ p ∈ (cfg'.nodeStep k o now).flight, (cfg'.nodeStep k o now).now ≤ p.sent + D ∧ (cfg'.nodeStep k o now).now = now := by
    intro cfg' k o ht p hp
    unfold NetCfg.nodeStep at hp ⊢
    cases hk : cfg'.nodes[k]? with
    | none => rw [hk] at hp; simp only at hp ⊢; exact ⟨ht p hp, trivial⟩
    | some n =>
      rw [hk] at hp
      simp only at hp ⊢
      rcases List.mem_append.mp hp with hp | hp
      · exact ⟨ht p hp, trivial⟩
      · obtain ⟨_, _, _, _, _, rfl⟩ := mem_emit.mp hp
        exact ⟨Nat.le_add_right _ _, trivial⟩
  cases op with
  | start k tg an => exact hnode cfg k _ htimely
  | fire k => exact hnode cfg k _ htimely
  | deliver i =>
    intro p hp
    unfold NetCfg.step at hp ⊢
    simp only at hp ⊢
    cases hi : cfg.flight[i]? with
    | none => rw [hi] at hp; simp only at hp ⊢; exact ⟨htimely p hp, trivial⟩
    | some q =>
      rw [hi] at hp
      simp only at hp ⊢
      cases hf : cfg.nodes.findIdx? (fun n => n.addr = q.dst) with
      | none => rw [hf] at hp; simp only at hp ⊢; exact ⟨htimely p (List.mem_of_mem_eraseIdx hp), trivial⟩
      | some k =>
        rw [hf] at hp
        simp only at hp ⊢
        exact hnode { cfg with flight := cfg.flight.eraseIdx i } k _ (fun p hp => htimely p (List.mem_of_mem_eraseIdx hp)) p hp

/-- yields are never retracted -/
theorem step_yields_mono (cfg : NetCfg) (op : NOp) (now : Nat) : ∀ e ∈ cfg.yields, e ∈ (cfg.step op now).yields := by
  have hnode : ∀ (cfg' : NetCfg) (k : Nat) (o : HOp), ∀ e ∈ cfg'.yields, e ∈ (cfg'.nodeStep k o now).yields := by
    intro cfg' k o e he
    unfold NetCfg.nodeStep
    cases cfg'.nodes[k]? with
    | none => exact he
    | some n => exact List.mem_append_left _ he
  intro e he
  cases op with
  | start k tg an => exact hnode cfg k _ e he
  | fire k => exact hnode cfg k _ e he
  | deliver i =>
    unfold NetCfg.step
    simp only
    cases cfg.flight[i]? with
    | none => exact he
    | some q =>
      simp only
      cases cfg.nodes.findIdx? (fun n => n.addr = q.dst) with
      | none => exact he
      | some k => exact hnode { cfg with flight := cfg.flight.eraseIdx i } k _ e he

theorem run_yields_mono : ∀ (ops : List (NOp × Nat)) (cfg : NetCfg), ∀ e ∈ cfg.yields, e ∈ (cfg.run ops).yields
  | [], _, _, he => he
  | (op, now) :: rest, cfg, e, he => run_yields_mono rest _ e (step_yields_mono cfg op now e he)

theorem run_append (cfg : NetCfg) : ∀ (a b : List (NOp × Nat)), cfg.run (a ++ b) = (cfg.run a).run b := by
  intro a
  induction a generalizing cfg with
  | nil => intro b; rfl
  | cons x xs ih => intro b; obtain ⟨op, now⟩ := x; exact ih (cfg.step op now) b

theorem netRun_append (D : Nat) : ∀ (a b : List (NOp × Nat)) (cfg : NetCfg),
    NetRun D cfg (a ++ b) ↔ NetRun D cfg a ∧ NetRun D (cfg.run a) b := by
  intro a
  induction a with
  | nil => intro b cfg; simp [NetRun, NetCfg.run]
  | cons x xs ih =>
    intro b cfg
    obtain ⟨op, now⟩ := x
    simp only [List.cons_append, NetRun, NetCfg.run]
    rw [ih b (cfg.step op now)]
    exact ⟨fun ⟨h1, h2, h3⟩ => ⟨⟨h1, h2⟩, h3⟩, fun ⟨⟨h1, h2⟩, h3⟩ => ⟨h1, h2, h3⟩⟩

/-- at the end of a non-empty run no datagram in flight is older than `D` -/
theorem run_flight_timely (D : Nat) : ∀ (ops : List (NOp × Nat)) (cfg : NetCfg), ops ≠ [] → NetRun D cfg ops →
    ∀ p ∈ (cfg.run ops).flight, (cfg.run ops).now ≤ p.sent + D
  | [], _, h, _ => absurd rfl h
  | [(op, now)], cfg, _, hrun => fun p hp => (step_flight_timely D cfg op now hrun.1 p hp).1
  | (op, now) :: x :: rest, cfg, _, hrun => run_flight_timely D (x :: rest) _ (by simp) hrun.2

/-- just before the step that ends the search, the contact held by a node that must hold it has been yielded -/
theorem finish_yielded {P : Phase} (hW : NetWF P) {cfg : NetCfg} {c : RCfg} (h : SInv P cfg c none) (now : Nat)
    (hok : cfg.okStep P.D (.fire P.ia) now) (hse : SearchEnds cfg P.ia) (x : Handle) (hx : x ∈ P.N) (hm : P.Must x) :
    (P.ia, P.stream, P.x) ∈ cfg.yields := by
  obtain ⟨_, htimely, n, hk, timer, e, hpop, hdue⟩ := hok
  obtain ⟨n', timer', e', q, hk', _, hpop', htask⟩ := hse
  rw [hk] at hk'; cases hk'
  rw [hpop] at hpop'; cases hpop'
  have hc := h.client rfl
  obtain ⟨m, hm', _, hmt, _⟩ := hc.node
  rw [hk] at hm'; cases hm'
  obtain ⟨p1, _⟩ := pop_spec n.st.timer timer e hpop
  obtain ⟨_, u, hu, hud⟩ := (hmt e p1).2.1 q htask
  have hE : Constants.ENDGAME_TIMEOUT_ns = Constants.LOOKUP_TIMEOUT_ns := by decide
  obtain ⟨_, _, hansw⟩ := gfinish_targets (hc.ginv.tgt ▸ hW.net) (by rw [hE]; exact hW.lat) c now hc.ginv
    (client_timely h now htimely) ⟨u, hu, by omega⟩
  have heg : c.l.inEndgame = true := by
    cases hcc : c.l.inEndgame with
    | true => rfl
    | false => have := (hc.ginv.reg hcc).1; rw [hu] at this; cases this
  obtain ⟨_, hall, hflags⟩ := hc.ginv.eg heg
  obtain ⟨e0, he0, hex⟩ := List.mem_map.mp (hall x hx)
  obtain ⟨qq, hqq, hqa⟩ := hc.ginv.flags e0 he0 (hflags e0 he0)
  exact hc.yielded qq hqq (hansw qq hqq) x hx (by rw [hqa, hex]) hm

/-- **one search in a network of serving nodes that all know each other**: from a `Ready` network,
the search is started at `T0`, the run goes on (`ops1`), the search's end-game entry fires at `T1`,
the run goes on (`ops2`). At the end the invariant holds with "ended at `T1`", and the contact held
by the nodes that must hold it has been yielded on the search's stream. -/
theorem phase_run {P : Phase} (hW : NetWF P) {cfg0 : NetCfg} (hR : Ready P cfg0) (hTG : P.T0 ≤ P.G)
    (ops1 ops2 : List (NOp × Nat)) (T1 : Nat)
    (hrun : NetRun P.D cfg0 ((.start P.ia P.ih P.ann, P.T0) :: (ops1 ++ (.fire P.ia, T1) :: ops2)))
    (hok1 : RunOk P ops1) (hT1 : T1 ≤ P.G) (hok2 : RunOk P ops2)
    (hends : SearchEnds (cfg0.run ((.start P.ia P.ih P.ann, P.T0) :: ops1)) P.ia) :
    ∃ c, SInv P (cfg0.run ((.start P.ia P.ih P.ann, P.T0) :: (ops1 ++ (.fire P.ia, T1) :: ops2))) c (some T1) ∧
      ∀ x ∈ P.N, P.Must x →
        (P.ia, P.stream, P.x) ∈ (cfg0.run ((.start P.ia P.ih P.ann, P.T0) :: (ops1 ++ (.fire P.ia, T1) :: ops2))).yields := by
  obtain ⟨_, hrest⟩ := hrun
  obtain ⟨hr1, hr2⟩ := (netRun_append P.D ops1 _ _).mp hrest
  obtain ⟨hfire, hr3⟩ := hr2
  obtain ⟨c0, h0⟩ := sinv_start hW hR hTG
  obtain ⟨c1, fin1, h1, _⟩ := sinv_run hW ops1 _ c0 none h0 hr1 hok1
  -- the search has not ended before: the node still runs it
  have hfin1 : fin1 = none := by
    cases hf : fin1 with
    | none => rfl
    | some T =>
      obtain ⟨n, _, _, _, hk, hne, _⟩ := hends
      exact absurd (h1.idle _ n hk (Or.inr (by rw [hf]; simp))) hne
  subst hfin1
  have hy := fun x hx hm => finish_yielded hW h1 T1 hfire hends x hx hm
  obtain ⟨c2, fin2, h2, _, hflip⟩ := sinv_step hW h1 (.fire P.ia) T1 hfire hT1 rfl
  have hfin2 : fin2 = some T1 := by
    rcases hflip rfl with ⟨_, hno⟩ | ⟨hf, _⟩
    · exact absurd ⟨rfl, hends⟩ hno
    · exact hf
  subst hfin2
  obtain ⟨c3, fin3, h3, hkeep⟩ := sinv_run hW ops2 _ c2 (some T1) h2 hr3 hok2
  have hfin3 := hkeep T1 rfl
  subst hfin3
  have hrw : cfg0.run ((.start P.ia P.ih P.ann, P.T0) :: (ops1 ++ (.fire P.ia, T1) :: ops2)) =
      ((((cfg0.step (.start P.ia P.ih P.ann) P.T0).run ops1).step (.fire P.ia) T1).run ops2) := by
    show (cfg0.step (.start P.ia P.ih P.ann) P.T0).run (ops1 ++ (.fire P.ia, T1) :: ops2) = _
    rw [run_append]; rfl
  rw [hrw]
  exact ⟨c3, h3, fun x hx hm => run_yields_mono ops2 _ _ (step_yields_mono _ _ _ _ (hy x hx hm))⟩

/-! ### consequences of the invariant at the end of a phase -/

/-- an announce in flight was sent when the search ended -/
theorem annTo_sent {P : Phase} {cfg : NetCfg} {c : RCfg} {T1 : Nat} (h : SInv P cfg c (some T1)) {x : Handle} {p : Pkt}
    (hp : p ∈ cfg.flight) (ha : IsAnnTo P x p) : p.sent = T1 := by
  obtain ⟨_, t, hb⟩ := ha
  cases h.pkts p hp with
  | query _ _ _ _ _ _ _ hbody _ => rw [hb] at hbody; cases hbody
  | answer _ _ _ _ _ _ _ _ _ _ hbody => rw [hb] at hbody; cases hbody
  | announce _ _ _ T hfin hsent => cases hfin; exact hsent
  | reply _ _ _ _ _ hbody => exact absurd hb (hbody _)

/-- with at most 8 nodes, the 8 closest are all of them -/
theorem closest8_all (target : Bytes) (N : List Handle) (h : N.length ≤ 8) : ∀ x ∈ N, x ∈ closest8 target N := by
  intro x hx
  unfold closest8 closestK
  have hp := sortDist_perm target N
  rw [List.take_of_length_le (by rw [hp.length_eq]; exact h)]
  exact hp.symm.subset hx

/-- **after an announcing search** each of the 8 closest nodes holds the pair with an insertion time in
`[T1, T1 + D]`, or its announce is still in flight — which is impossible once `T1 + D` has passed -/
theorem ann_result {P : Phase} {cfg : NetCfg} {c : RCfg} {T1 : Nat} (h : SInv P cfg c (some T1)) (hann : P.ann = true)
    (htimely : ∀ p ∈ cfg.flight, cfg.now ≤ p.sent + P.D) :
    ∀ x ∈ closest8 P.ih P.N,
      (cfg.now ≤ T1 + P.D ∧ ∃ p ∈ cfg.flight, IsAnnTo P x p) ∨
      ∃ (k : Nat) (n : NNode) (t : Nat), cfg.nodes[k]? = some n ∧ n.handle = x ∧ Held n.st.store P.item t ∧ T1 ≤ t ∧ t ≤ T1 + P.D := by
  intro x hx
  rcases h.ann T1 rfl hann x hx with ⟨p, hp, ha⟩ | hr
  · left
    have := htimely p hp
    rw [annTo_sent h hp ha] at this
    exact ⟨this, p, hp, ha⟩
  · exact Or.inr hr

/-- the nodes that hold `(ih, x)` in `cfg` with an insertion time that keeps it alive until `G` -/
def HoldsLive (cfg : NetCfg) (ih : Bytes) (x : Addr) (G : Nat) (h : Handle) : Prop :=
  ∃ (k : Nat) (n : NNode) (t : Nat), cfg.nodes[k]? = some n ∧ n.handle = h ∧ Held n.st.store ⟨ih, x⟩ t ∧ G < t + 86400000000000

/-- **the next search can start** in the network a finished search leaves behind, once nothing is in
flight any more — within the same window `G` (so the routing tables are still known to be good) -/
theorem ready_next {P1 P2 : Phase} (hW1 : NetWF P1) {cfg : NetCfg} {c : RCfg} {T1 : Nat} (h : SInv P1 cfg c (some T1))
    (hfl : cfg.flight = []) (hN : P2.N = P1.N) (hG : P2.G = P1.G)
    (hMust : P2.Must = HoldsLive cfg P2.ih P2.x P2.G) (hSrc : ∀ x y, P2.Src x y) (hY : P2.Y0 = cfg.yields)
    (hsmall : ∀ (k : Nat) (n : NNode), cfg.nodes[k]? = some n → othersCount n.st.store P2.item ≤ 39)
    (htime : cfg.now ≤ P2.T0)
    (hclient : ∃ n, cfg.nodes[P2.ia]? = some n ∧ n.st.nextAid = P2.A ∧ n.st.nextStream = P2.stream ∧
      n.st.announcePort = P2.port ∧ n.st.timer.entries = []) :
    Ready P2 cfg := by
  refine ⟨by rw [hN]; exact h.len, fun k n hk => ?_, fun k n hk => h.idle k n hk (Or.inr (by simp)), hfl, htime,
    fun _ _ _ _ _ _ _ => hSrc _ _, hY.symm, hclient⟩
  have hnk := h.nodes k n hk
  refine ⟨by rw [hN]; exact hnk.handle, by rw [hN, hG]; exact hnk.serves, hnk.tokClock, hnk.storeWF, hsmall k n hk, fun hm => ?_,
    hnk.noRefresh⟩
  rw [hMust] at hm
  obtain ⟨j, m, t, hj, hmh, ht, hlt⟩ := hm
  obtain ⟨_, hmn⟩ := node_unique hW1 h hj hk hmh
  subst hmn
  exact ⟨t, ht, hlt⟩

end Btdht
