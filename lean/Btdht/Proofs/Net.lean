import Btdht.Proofs.NetServer
import Btdht.Proofs.ReachG
/-!
C01 helpers: **the network layer** — a specification of the environment, not a model of code.

A network is a finite list of nodes (`NNode`: UDP address + the handler model's state `HState`) and
a bag of datagrams in flight (`Pkt`). A step is one `HOp` at one node at an instant: the delivery of
a datagram in flight to the node it is addressed to (`deliver`), the start of a search by the API
(`start`), the firing of the earliest timer entry (`fire`). Every datagram a step hands to the
socket with success towards the address of a node of the network (the node's own address included)
joins the bag, stamped with the instant; datagrams to addresses outside the network vanish. Nothing
else is ever delivered: no loss, no duplication, no third parties, no forgery — by construction.

`NetRun D`: a run in which time does not go backwards, every datagram is delivered at most `D`
after it was sent (no step happens while a datagram in flight is older than `D`: *timely*, hence
every datagram is delivered in any run that lasts long enough: *loss-free*), and timer entries do
not fire before their deadline. (How *late* timers fire does not matter for the statements here.)
The run records, as a history variable, what every node yielded on its search streams.
-/
namespace Btdht

structure Pkt where
  src : Addr
  dst : Addr
  tid : InTid
  body : Body
  sent : Nat

structure NNode where
  addr : Addr
  st : HState

def NNode.handle (n : NNode) : Handle := ⟨n.st.selfId, n.addr⟩

structure NetCfg where
  nodes : List NNode
  flight : List Pkt
  /-- the instant of the last step -/
  now : Nat
  /-- history: (node index, stream, address) of every yield so far -/
  yields : List (Nat × Nat × Addr)

/-- a handler step together with its effects -/
def HState.hstepE (s : HState) (op : HOp) (now : Nat) : HState × List HEffect :=
  match op with
  | .incoming tid body src => s.handleIncoming tid body src now
  | .start target ann => ((s.startLookup target ann now).1, (s.startLookup target ann now).2.1)
  | .fire => ((s.fireTimer now).1, (s.fireTimer now).2.1)

theorem hstepE_fst (s : HState) (op : HOp) (now : Nat) : (s.hstepE op now).1 = s.hstep op now := by
  cases op <;> rfl

inductive NOp where
  /-- the `i`-th datagram in flight is delivered -/
  | deliver (i : Nat)
  | start (k : Nat) (target : Bytes) (announce : Bool)
  | fire (k : Nat)

/-- the datagrams among the effects of a step of the node at `src` that went out towards a node of the network -/
def emit (nodes : List NNode) (src : Addr) (now : Nat) (effs : List HEffect) : List Pkt :=
  effs.filterMap fun e => match e with
    | .send dst tid body true => if nodes.any (fun n => n.addr = dst) then some ⟨src, dst, tid, body, now⟩ else none
    | _ => none

def yieldsOf (k : Nat) (effs : List HEffect) : List (Nat × Nat × Addr) :=
  effs.filterMap fun e => match e with
    | .yield st a => some (k, st, a)
    | _ => none

/-- node `k` performs `op` at `now` -/
def NetCfg.nodeStep (cfg : NetCfg) (k : Nat) (op : HOp) (now : Nat) : NetCfg :=
  match cfg.nodes[k]? with
  | none => { cfg with now := now }
  | some n =>
    { nodes := cfg.nodes.set k { n with st := (n.st.hstepE op now).1 },
      flight := cfg.flight ++ emit cfg.nodes n.addr now (n.st.hstepE op now).2,
      now := now,
      yields := cfg.yields ++ yieldsOf k (n.st.hstepE op now).2 }

def NetCfg.step (cfg : NetCfg) (op : NOp) (now : Nat) : NetCfg :=
  match op with
  | .deliver i =>
    match cfg.flight[i]? with
    | none => { cfg with now := now }
    | some p =>
      match cfg.nodes.findIdx? (fun n => n.addr = p.dst) with
      | none => { cfg with flight := cfg.flight.eraseIdx i, now := now }
      | some k => ({ cfg with flight := cfg.flight.eraseIdx i }).nodeStep k (.incoming p.tid p.body p.src) now
  | .start k target ann => cfg.nodeStep k (.start target ann) now
  | .fire k => cfg.nodeStep k .fire now

/-- when a step may happen: time does not go back; no datagram in flight is older than `D`; the
datagram / node exists; a timer entry does not fire before its deadline -/
def NetCfg.okStep (D : Nat) (cfg : NetCfg) (op : NOp) (now : Nat) : Prop :=
  cfg.now ≤ now ∧ (∀ p ∈ cfg.flight, now ≤ p.sent + D) ∧
  match op with
  | .deliver i => i < cfg.flight.length
  | .start k _ _ => k < cfg.nodes.length
  | .fire k => ∃ n, cfg.nodes[k]? = some n ∧ ∃ t e, n.st.timer.pop = some (t, e) ∧ e.deadline ≤ now

def NetCfg.run (cfg : NetCfg) : List (NOp × Nat) → NetCfg
  | [] => cfg
  | (op, now) :: rest => NetCfg.run (cfg.step op now) rest

/-- a loss-free, timely run with timers that are not early -/
def NetRun (D : Nat) : NetCfg → List (NOp × Nat) → Prop
  | _, [] => True
  | cfg, (op, now) :: rest => cfg.okStep D op now ∧ NetRun D (cfg.step op now) rest

end Btdht
