import Btdht.Proofs.NetTable
import Btdht.Proofs.Deadline
import Btdht.Proofs.Token
import Btdht.Proofs.Storage
import Btdht.Props.C05
/-!
C01 helpers (network composition, server side): what a serving node that knows everybody answers.

`Serves M G s`: the node `s` serves queries, its sends succeed, and its routing table lists exactly
the handles `M` (the other nodes of the network, all of the node's own address family) as good
until `G` (`Knows`). Queries never change that (`serves_request`); `serves_getPeers` is the content
of a `get_peers` answer; `serves_announce` what an `announce_peer` with a valid token does.
-/
namespace Btdht

structure Serves (M : List Handle) (G : Nat) (s : HState) : Prop where
  serving : s.readOnly = false
  sends : s.failAddrs = []
  idlen : s.selfId.length = 20
  knows : Knows s.selfId M G s.table
  fam : ∀ x ∈ M, x.addr.v6 = s.v6
  noph : placeholderHandle ∉ M

theorem serves_markRemote {M : List Handle} {G : Nat} {s : HState} (h : Serves M G s) (id : Bytes) (src : Addr) (now : Nat) :
    Serves M G (s.markRemote id src now) :=
  ⟨h.serving, h.sends, h.idlen, knows_modifyNode h.knows _ now _ (fun _ => ⟨rfl, rfl⟩), h.fam, h.noph⟩

/-- the fields a query can change: routing table (request marks), peer store, token store -/
theorem handleRequest_static (s : HState) (tid : InTid) (r : Req) (src : Addr) (now : Nat) :
    (s.handleRequest tid r src now).1.selfId = s.selfId ∧ (s.handleRequest tid r src now).1.v6 = s.v6 ∧
    (s.handleRequest tid r src now).1.readOnly = s.readOnly ∧ (s.handleRequest tid r src now).1.failAddrs = s.failAddrs ∧
    (s.handleRequest tid r src now).1.announcePort = s.announcePort ∧
    (s.handleRequest tid r src now).1.nextStream = s.nextStream := by
  unfold HState.handleRequest
  split
  · exact ⟨rfl, rfl, rfl, rfl, rfl, rfl⟩
  · cases r with
    | ping id => exact ⟨rfl, rfl, rfl, rfl, rfl, rfl⟩
    | findNode id target want => exact ⟨rfl, rfl, rfl, rfl, rfl, rfl⟩
    | getPeers id ih want => exact ⟨rfl, rfl, rfl, rfl, rfl, rfl⟩
    | announce id ih port token =>
      simp only [HState.checkToken, HState.markRemote]
      repeat' (first | exact ⟨rfl, rfl, rfl, rfl, rfl, rfl⟩ | split)

/-- the routing table after a query: the sender's entry, if listed, is marked -/
theorem handleRequest_table (s : HState) (tid : InTid) (r : Req) (src : Addr) (now : Nat) :
    (s.handleRequest tid r src now).1.table = s.table ∨
    ∃ id, (s.handleRequest tid r src now).1.table = (s.markRemote id src now).table := by
  unfold HState.handleRequest
  split
  · exact Or.inl rfl
  · cases r with
    | ping id => exact Or.inr ⟨id, rfl⟩
    | findNode id target want => exact Or.inr ⟨id, rfl⟩
    | getPeers id ih want => exact Or.inr ⟨id, rfl⟩
    | announce id ih port token =>
      refine Or.inr ⟨id, ?_⟩
      simp only [HState.checkToken]
      repeat' (first | rfl | split)

/-- **queries never change what a node knows** -/
theorem serves_request {M : List Handle} {G : Nat} {s : HState} (h : Serves M G s) (tid : InTid) (r : Req) (src : Addr) (now : Nat) :
    Serves M G (s.handleRequest tid r src now).1 := by
  obtain ⟨h1, h2, h3, h4, _, _⟩ := handleRequest_static s tid r src now
  refine ⟨h3.trans h.serving, h4.trans h.sends, by rw [h1]; exact h.idlen, ?_, by rw [h2]; exact h.fam, h.noph⟩
  rw [h1]
  rcases handleRequest_table s tid r src now with e | ⟨id, e⟩
  · rw [e]; exact h.knows
  · rw [e]; exact (serves_markRemote h id src now).knows

/-- the datagram a `get_peers` query for `ih` from `src` is answered with by a node that serves and
knows exactly `M`: own id; the token made for the requester's IP with the current secret (after the
rotation check at `now`); values = the stored contacts of the requester's family, capped; node
list (own family, `want` absent) = exactly `M` -/
theorem serves_getPeers {M : List Handle} {G : Nat} {s : HState} (h : Serves M G s) (tid : InTid) (id ih : Bytes)
    (src : Addr) (now : Nat) (hnG : now ≤ G) :
    ∃ rs, s.handleRequest tid (.getPeers id ih none) src now =
        ({ (s.markRemote id src now) with store := (s.store.find ih now).1, tokens := s.tokens.refreshCheck now },
          [.send src tid (.resp rs) true]) ∧
      rs.id = s.selfId ∧ rs.token = some (tokEnc ⟨src.ip, (s.tokens.refreshCheck now).curr⟩) ∧
      rs.values = (((s.store.find ih now).2.filter (fun a => a.v6 = src.v6)).take (if src.v6 then 40 else 100)) ∧
      (∀ x ∈ (if s.v6 then rs.nodes6 else rs.nodes4), x ∈ M) ∧ (∀ x ∈ M, x ∈ (if s.v6 then rs.nodes6 else rs.nodes4)) := by
  have c4 : Constants.MAX_VALUES_V4 = 100 := by decide
  have c6 : Constants.MAX_VALUES_V6 = 40 := by decide
  have hk := (serves_markRemote h id src now).knows
  have hrep := knows_replyNodes hk h.idlen ih s.v6 now hnG
  have hfa : (!s.failAddrs.contains src) = true := by rw [h.sends]; rfl
  unfold HState.handleRequest
  simp only [h.serving, Bool.false_eq_true, if_false, c4, c6, hfa]
  refine ⟨_, rfl, rfl, rfl, rfl, ?_, ?_⟩
  · intro x hx
    cases hv : s.v6 with
    | false =>
      rw [hv] at hx hrep
      simp only [HState.closestFor, HState.markRemote, hv, Bool.false_eq_true, if_false] at hx
      exact (hrep.1 x (by simpa [replyNodes, HState.markRemote] using hx)).1
    | true =>
      rw [hv] at hx hrep
      simp only [HState.closestFor, HState.markRemote, hv, if_true] at hx
      exact (hrep.1 x (by simpa [replyNodes, HState.markRemote] using hx)).1
  · intro x hx
    have hin := hrep.2 x hx (h.fam x hx)
    cases hv : s.v6 with
    | false =>
      rw [hv] at hin
      simp only [HState.closestFor, HState.markRemote, hv, Bool.false_eq_true, if_false]
      simpa [replyNodes, HState.markRemote] using hin
    | true =>
      rw [hv] at hin
      simp only [HState.closestFor, HState.markRemote, hv, if_true]
      simpa [replyNodes, HState.markRemote] using hin

/-! ### the peer store: what is held, found, added -/

/-- the store holds the pair `it` with insertion time `t` -/
def Held (st : Storage) (it : Item) (t : Nat) : Prop := (⟨it, t⟩ : Expiration) ∈ st.expires

theorem expiration_ns : Constants.EXPIRATION_TIME_ns = 86400000000000 := by decide

theorem mem_sPurge {l : List Expiration} {now : Nat} {e : Expiration} :
    e ∈ sPurge l now ↔ e ∈ l ∧ now - e.inserted < 86400000000000 := by
  simp only [sPurge, List.mem_filter, Expiration.isExpired, expiration_ns, Bool.not_eq_true', decide_eq_false_iff_not]
  constructor
  · rintro ⟨h1, h2⟩; exact ⟨h1, by omega⟩
  · rintro ⟨h1, h2⟩; exact ⟨h1, by omega⟩

theorem held_find {st : Storage} {t0 now : Nat} (hw : StWF st t0) (hn : t0 ≤ now) (ih : Bytes) (it : Item) (t : Nat) :
    Held (st.find ih now).1 it t ↔ Held st it t ∧ now - t < 86400000000000 := by
  unfold Held
  rw [(find_refines st t0 now hw hn ih).1]
  exact mem_sPurge

theorem found_iff {st : Storage} {t0 now : Nat} (hw : StWF st t0) (hn : t0 ≤ now) (ih : Bytes) (a : Addr) :
    a ∈ (st.find ih now).2 ↔ ∃ t, Held st ⟨ih, a⟩ t ∧ now - t < 86400000000000 := by
  rw [(find_refines st t0 now hw hn ih).2.1.mem_iff]
  simp only [sFind, List.mem_map, List.mem_filter, decide_eq_true_eq]
  constructor
  · rintro ⟨e, ⟨he, hih⟩, rfl⟩
    obtain ⟨h1, h2⟩ := mem_sPurge.mp he
    refine ⟨e.inserted, ?_, h2⟩
    unfold Held
    have : (⟨⟨ih, e.item.addr⟩, e.inserted⟩ : Expiration) = e := by
      cases e with | mk item ins => cases item; simp at hih; simp [hih]
    rw [this]; exact h1
  · rintro ⟨t, h1, h2⟩
    exact ⟨⟨⟨ih, a⟩, t⟩, ⟨mem_sPurge.mpr ⟨h1, h2⟩, rfl⟩, rfl⟩

theorem find_lengths {st : Storage} {t0 now : Nat} (hw : StWF st t0) (hn : t0 ≤ now) (ih : Bytes) :
    (st.find ih now).1.expires.length ≤ st.expires.length ∧ (st.find ih now).2.length ≤ st.expires.length := by
  obtain ⟨h1, h2, _⟩ := find_refines st t0 now hw hn ih
  rw [h1, h2.length_eq]
  simp only [sFind, sPurge, List.length_map]
  exact ⟨List.length_filter_le _ _, Nat.le_trans (List.length_filter_le _ _) (List.length_filter_le _ _)⟩

/-- an `add` with room: accepted, the pair is held with the time `now`, other unexpired pairs stay -/
theorem add_spec {st : Storage} {t0 now : Nat} (hw : StWF st t0) (hn : t0 ≤ now) (it : Item)
    (hroom : st.expires.length < Constants.MAX_ITEMS_STORED) :
    (st.add it now).2 = true ∧ Held (st.add it now).1 it now ∧
    (st.add it now).1.expires.length ≤ st.expires.length + 1 ∧
    (∀ it' t, Held (st.add it now).1 it' t → (it' = it ∧ t = now) ∨ (Held st it' t ∧ now - t < 86400000000000)) ∧
    (∀ it' t, it' ≠ it → Held st it' t → now - t < 86400000000000 → Held (st.add it now).1 it' t) := by
  obtain ⟨h1, h2, _⟩ := add_refines st t0 now hw hn it
  have hpl : (sPurge st.expires now).length ≤ st.expires.length := List.length_filter_le _ _
  unfold Held
  rw [h1, h2]
  unfold sAdd
  simp only
  split
  · refine ⟨rfl, by simp, ?_, fun it' t hm => ?_, fun it' t hne hm hlt => ?_⟩
    · simp only [List.length_append, List.length_singleton]
      exact Nat.succ_le_succ (Nat.le_trans (List.length_filter_le _ _) hpl)
    · rcases List.mem_append.mp hm with hm | hm
      · exact Or.inr (mem_sPurge.mp (List.mem_filter.mp hm).1)
      · simp at hm; exact Or.inl hm
    · exact List.mem_append_left _ (List.mem_filter.mpr ⟨mem_sPurge.mpr ⟨hm, hlt⟩, by simpa using hne⟩)
  · rw [if_pos (Nat.lt_of_le_of_lt hpl hroom)]
    refine ⟨rfl, by simp, ?_, fun it' t hm => ?_, fun it' t _ hm hlt => ?_⟩
    · simp only [List.length_append, List.length_singleton]; omega
    · rcases List.mem_append.mp hm with hm | hm
      · exact Or.inr (mem_sPurge.mp hm)
      · simp at hm; exact Or.inl hm
    · exact List.mem_append_left _ (mem_sPurge.mpr ⟨hm, hlt⟩)

/-- the number of stored pairs other than `it` -/
def othersCount (st : Storage) (it : Item) : Nat := (st.expires.filter (fun e => e.item ≠ it)).length

theorem length_le_others (l : List Expiration) (it : Item) (h : (l.map (·.item)).Nodup) :
    l.length ≤ (l.filter (fun e => e.item ≠ it)).length + 1 := by
  induction l with
  | nil => simp
  | cons x xs ih =>
    rw [List.map_cons, List.nodup_cons] at h
    rw [List.filter_cons]
    by_cases hx : x.item = it
    · have : xs.filter (fun e => e.item ≠ it) = xs := by
        apply List.filter_eq_self.mpr
        intro a ha
        simp only [ne_eq, decide_not, Bool.not_eq_eq_eq_not, Bool.not_true, decide_eq_false_iff_not]
        intro hc
        exact h.1 (List.mem_map.mpr ⟨a, ha, hc.trans hx.symm⟩)
      rw [if_neg (by simp [hx]), this]
      simp only [List.length_cons]; omega
    · have := ih h.2
      rw [if_pos (by simp [hx])]
      simp only [List.length_cons]; omega

theorem total_le_others {st : Storage} {t0 : Nat} (hw : StWF st t0) (it : Item) :
    st.expires.length ≤ othersCount st it + 1 := length_le_others _ it hw.nodup

theorem others_find {st : Storage} {t0 now : Nat} (hw : StWF st t0) (hn : t0 ≤ now) (ih : Bytes) (it : Item) :
    othersCount (st.find ih now).1 it ≤ othersCount st it := by
  unfold othersCount
  rw [(find_refines st t0 now hw hn ih).1]
  simp only [sFind, sPurge, List.filter_filter]
  rw [show (fun a : Expiration => (decide (a.item ≠ it) && !a.isExpired now)) =
      (fun a => (!a.isExpired now) && decide (a.item ≠ it)) from funext fun a => Bool.and_comm _ _, ← List.filter_filter]
  exact List.length_filter_le _ _

theorem others_add_self {st : Storage} {t0 now : Nat} (hw : StWF st t0) (hn : t0 ≤ now) (it : Item) :
    othersCount (st.add it now).1 it ≤ othersCount st it := by
  unfold othersCount
  rw [(add_refines st t0 now hw hn it).1]
  have hp : ((sPurge st.expires now).filter (fun e => e.item ≠ it)).length ≤ (st.expires.filter (fun e => e.item ≠ it)).length := by
    simp only [sPurge, List.filter_filter]
    rw [show (fun a : Expiration => (decide (a.item ≠ it) && !a.isExpired now)) =
        (fun a => (!a.isExpired now) && decide (a.item ≠ it)) from funext fun a => Bool.and_comm _ _, ← List.filter_filter]
    exact List.length_filter_le _ _
  unfold sAdd
  simp only
  split
  · rw [List.filter_append, List.filter_filter]
    simp only [Bool.and_self, List.filter_cons, List.filter_nil, ne_eq, not_true_eq_false, decide_false, Bool.false_eq_true,
      if_false, List.append_nil]
    exact hp
  · split
    · rw [List.filter_append]
      simp only [List.filter_cons, List.filter_nil, ne_eq, not_true_eq_false, decide_false, Bool.false_eq_true,
        if_false, List.append_nil]
      exact hp
    · exact hp

/-! ### tokens -/

theorem tokDec_tokEnc (t : TokTerm) (hb : ∀ b ∈ t.ip, b < 256) : tokDec? (tokEnc t) = some t := by
  unfold tokDec? tokEnc
  simp only
  rw [if_pos (by omega)]
  have h1 : (t.ip ++ List.replicate (19 - t.ip.length) 256).filter (· < 256) = t.ip := by
    rw [List.filter_append, List.filter_eq_self.mpr (fun b hb' => by simpa using hb b hb')]
    have : (List.replicate (19 - t.ip.length) 256).filter (· < 256) = [] := by
      apply List.filter_eq_nil_iff.mpr
      intro a ha
      rw [(List.mem_replicate.mp ha).2]; decide
    rw [this, List.append_nil]
  rw [h1]
  simp

/-- **an announce carrying a valid token is accepted and stored**: the token is the term made for
the announcer's IP with a secret `k` that is valid since `ti` (`Valid`: issued by this node's store at
`ti`, C06), the announce arrives no later than 10 minutes after `ti`, and the store has room -/
theorem serves_announce {M : List Handle} {G : Nat} {s : HState} (h : Serves M G s) (tid : InTid) (id ih : Bytes) (port : Option Nat)
    (k ti : Nat) (src : Addr) (now t0 : Nat) (hip : src.ip.length ≤ 19) (hb : ∀ b ∈ src.ip, b < 256)
    (hv : Valid k ti s.tokens) (hlr : s.tokens.lastRefresh ≤ now) (ht : now ≤ ti + 600000000000)
    (hw : StWF s.store t0) (ht0 : t0 ≤ now) (hroom : s.store.expires.length < Constants.MAX_ITEMS_STORED) :
    s.handleRequest tid (.announce id ih port (tokEnc ⟨src.ip, k⟩)) src now =
      ({ (s.markRemote id src now) with tokens := s.tokens.refreshCheck now,
                                        store := (s.store.add ⟨ih, connectAddr port src⟩ now).1 },
       [.send src tid (.resp (emptyResp s.selfId)) true]) := by
  have hfa : (!s.failAddrs.contains src) = true := by rw [h.sends]; rfl
  have h20 : Constants.INFO_HASH_LEN = 20 := by decide
  have hv' := valid_refresh k ti s.tokens now hv hlr ht
  have hacc := valid_accept src.ip k ti _ hv'
  have hadd := (add_spec hw ht0 ⟨ih, connectAddr port src⟩ hroom).1
  have hchk : (s.markRemote id src now).checkToken (tokEnc ⟨src.ip, k⟩) src now =
      ({ (s.markRemote id src now) with tokens := s.tokens.refreshCheck now }, true) := by
    unfold HState.checkToken
    rw [if_pos (by rw [h20]; exact tokEnc_length _ hip), tokDec_tokEnc _ hb]
    have hor : k = (s.tokens.refreshCheck now).curr ∨ k = (s.tokens.refreshCheck now).last := by simpa using hacc
    simp only [TokenStore.checkin, HState.markRemote]
    congr 1
    rw [Bool.and_eq_true, Bool.or_eq_true]
    refine ⟨decide_eq_true trivial, ?_⟩
    rcases hor with h1 | h1
    · exact Or.inl (decide_eq_true h1)
    · exact Or.inr (decide_eq_true h1)
  unfold HState.handleRequest
  simp only [h.serving, Bool.false_eq_true, if_false, hchk, Bool.not_true, hfa]
  have hst : (s.markRemote id src now).store = s.store := rfl
  simp only [hst, hadd, if_true]

end Btdht
