import Btdht.Proofs.Sorted
/-!
C02 helpers (reachability): on a truthful, timely network an announcing search ends having
announced to exactly the 8 nodes of the network closest to the info-hash.

Plan: the lookup is driven by a timed event sequence (`ReachEv`); a ghost log of the queries it sent
and of the answers handled so far states the environment contract (`Timely`, `Admissible`); the
invariant `RInv` is kept by every step; at the end-game deadline every candidate holds a token and
the first 8 candidates are the 8 closest nodes of the network.
-/
namespace Btdht

/-! ### the order on distances -/

theorem bytesCmp_eq : ∀ (a b : Bytes), bytesCmp a b = .eq → a = b
  | [], [], _ => rfl
  | [], _ :: _, h => by simp [bytesCmp] at h
  | _ :: _, [], h => by simp [bytesCmp] at h
  | x :: xs, y :: ys, h => by
    unfold bytesCmp at h
    by_cases h1 : x < y
    · simp [h1] at h
    · by_cases h2 : x > y
      · simp [h1, h2] at h
      · have : x = y := by omega
        subst this
        simp only [Nat.lt_irrefl, if_false] at h
        rw [bytesCmp_eq xs ys h]

theorem bLe_antisymm {a b : Bytes} (h1 : bLe a b) (h2 : bLe b a) : a = b := by
  apply bytesCmp_eq
  cases hc : bytesCmp a b with
  | eq => rfl
  | gt => exact absurd hc h1
  | lt => exact absurd ((bytesCmp_swap' a b).mp hc) h2

theorem bLe_total (a b : Bytes) : bLe a b ∨ bLe b a := by
  cases hc : bytesCmp a b with
  | eq => exact Or.inl (bLe_of_eq hc)
  | lt => exact Or.inl (bLe_of_lt hc)
  | gt => exact Or.inr (bLe_of_not_gt_swap hc)

theorem nat_xor_cancel (t a b : Nat) (h : t ^^^ a = t ^^^ b) : a = b := by
  have : t ^^^ (t ^^^ a) = t ^^^ (t ^^^ b) := by rw [h]
  simpa [← Nat.xor_assoc] using this

theorem xorBytes_inj : ∀ (t a b : Bytes), a.length = t.length → b.length = t.length →
    xorBytes t a = xorBytes t b → a = b
  | [], a, b, ha, hb, _ => by
    have h1 : a = [] := List.eq_nil_of_length_eq_zero ha
    have h2 : b = [] := List.eq_nil_of_length_eq_zero hb
    rw [h1, h2]
  | t :: ts, [], _, ha, _, _ => by simp at ha
  | t :: ts, _ :: _, [], _, hb, _ => by simp at hb
  | t :: ts, a :: as, b :: bs, ha, hb, h => by
    simp only [xorBytes, List.zipWith_cons_cons, List.cons.injEq] at h
    have h1 := nat_xor_cancel t a b h.1
    have h2 := xorBytes_inj ts as bs (by simpa using ha) (by simpa using hb) h.2
    rw [h1, h2]

/-- XOR distance of a node to the target -/
def distTo (target : Bytes) (h : Handle) : Bytes := xorBytes target h.id

/-- `a` is strictly closer to the target than `b` -/
def Closer (target : Bytes) (a b : Handle) : Prop := bytesCmp (distTo target a) (distTo target b) = .lt

theorem closer_irrefl (target : Bytes) (a : Handle) : ¬ Closer target a a := by
  simp [Closer, bytesCmp_refl]

theorem closer_asymm {target : Bytes} {a b : Handle} (h : Closer target a b) : ¬ Closer target b a := by
  unfold Closer at *
  have := (bytesCmp_swap' _ _).mp h
  rw [this]; simp

/-! ### the nodes of a network closest to the target -/

/-- insert `h` into a list sorted by distance to the target (before the first node that is not closer) -/
def insertDist (target : Bytes) (h : Handle) : List Handle → List Handle
  | [] => [h]
  | x :: xs =>
    if bytesCmp (distTo target h) (distTo target x) == .gt then x :: insertDist target h xs else h :: x :: xs

/-- the nodes of `N` sorted by XOR distance to the target (insertion sort) -/
def sortDist (target : Bytes) (N : List Handle) : List Handle := N.foldr (insertDist target) []

/-- the (up to) `k` nodes of the network `N` closest to the target, closest first -/
def closestK (k : Nat) (target : Bytes) (N : List Handle) : List Handle := (sortDist target N).take k

/-- the (up to) 8 nodes of the network `N` closest to the target, closest first -/
def closest8 (target : Bytes) (N : List Handle) : List Handle := closestK 8 target N

theorem insertDist_perm (target : Bytes) (h : Handle) : ∀ (l : List Handle), (insertDist target h l).Perm (h :: l)
  | [] => List.Perm.refl _
  | x :: xs => by
    unfold insertDist
    split
    · exact ((insertDist_perm target h xs).cons x).trans (List.Perm.swap h x xs)
    · exact List.Perm.refl _

theorem sortDist_perm (target : Bytes) : ∀ (N : List Handle), (sortDist target N).Perm N
  | [] => List.Perm.refl _
  | x :: xs => (insertDist_perm target x _).trans ((sortDist_perm target xs).cons x)

/-- sorted by distance, ties allowed -/
def DistSorted (target : Bytes) (l : List Handle) : Prop := l.Pairwise (fun a b => bLe (distTo target a) (distTo target b))

theorem insertDist_sorted (target : Bytes) (h : Handle) : ∀ (l : List Handle), DistSorted target l →
    DistSorted target (insertDist target h l)
  | [], _ => by simp [insertDist, DistSorted]
  | x :: xs, hs => by
    unfold insertDist
    have hs' := List.pairwise_cons.mp hs
    split
    · rename_i hgt
      have hgt' : bytesCmp (distTo target h) (distTo target x) = .gt := by simpa using hgt
      refine List.pairwise_cons.mpr ⟨fun y hy => ?_, insertDist_sorted target h xs hs'.2⟩
      rcases List.mem_cons.mp ((insertDist_perm target h xs).subset hy) with rfl | hy
      · exact bLe_of_not_gt_swap hgt'
      · exact hs'.1 y hy
    · rename_i hgt
      have hle : bLe (distTo target h) (distTo target x) := by simpa [bLe] using hgt
      refine List.pairwise_cons.mpr ⟨fun y hy => ?_, hs⟩
      rcases List.mem_cons.mp hy with rfl | hy
      · exact hle
      · exact bLe_trans hle (hs'.1 y hy)

theorem sortDist_sorted (target : Bytes) : ∀ (N : List Handle), DistSorted target (sortDist target N)
  | [] => by simp [sortDist, DistSorted]
  | x :: xs => insertDist_sorted target x _ (sortDist_sorted target xs)

/-! ### an initial segment of a strictly sorted list -/

/-- a duplicate-free, downward closed part `C` of a strictly sorted list `S` is its initial segment -/
theorem perm_take_of_downclosed {α} [DecidableEq α] (R : α → α → Prop) (hirr : ∀ a, ¬ R a a) :
    ∀ (S C : List α), S.Pairwise R → C.Nodup → (∀ c ∈ C, c ∈ S) →
      (∀ c ∈ C, ∀ s ∈ S, R s c → s ∈ C) → C.Perm (S.take C.length)
  | [], C, _, _, hsub, _ => by
    have : C = [] := List.eq_nil_iff_forall_not_mem.mpr (fun c hc => by simpa using hsub c hc)
    subst this; simp
  | s :: S', C, hS, hC, hsub, hdown => by
    cases hCe : C with
    | nil => simp
    | cons c0 C0 =>
      rw [← hCe]
      have hS' := List.pairwise_cons.mp hS
      have hc0 : c0 ∈ C := by rw [hCe]; exact List.mem_cons_self
      -- the head of `S` is in `C`
      have hs : s ∈ C := by
        rcases List.mem_cons.mp (hsub c0 hc0) with h | h
        · exact h ▸ hc0
        · exact hdown c0 hc0 s List.mem_cons_self (hS'.1 c0 h)
      have hlen : C.length = (C.erase s).length + 1 := by
        rw [List.length_erase, if_pos hs]
        have : 0 < C.length := List.length_pos_of_mem hs
        omega
      have ih := perm_take_of_downclosed R hirr S' (C.erase s) hS'.2 (hC.erase s)
        (fun c hc => by
          obtain ⟨hne, hc'⟩ := hC.mem_erase_iff.mp hc
          rcases List.mem_cons.mp (hsub c hc') with h | h
          · exact absurd h hne
          · exact h)
        (fun c hc x hx hR => by
          obtain ⟨_, hc'⟩ := hC.mem_erase_iff.mp hc
          refine hC.mem_erase_iff.mpr ⟨fun hxs => ?_, hdown c hc' x (List.mem_cons_of_mem _ hx) hR⟩
          subst hxs
          exact hirr x (hS'.1 x hx))
      rw [hlen, List.take_succ_cons]
      exact (List.perm_cons_erase hs).trans (ih.cons s)

theorem nodup_of_pairwise_irrefl {α} (R : α → α → Prop) (hirr : ∀ a, ¬ R a a) {l : List α} (h : l.Pairwise R) : l.Nodup :=
  h.imp (fun {a b} hab (heq : a = b) => hirr a (by rw [← heq] at hab; exact hab))

/-! ### the network -/

/-- (E4) the network: a finite set of nodes with pairwise distinct ids (as long as the target: 20
bytes) and pairwise distinct addresses; the all-zero placeholder handle `0…0 @ 0.0.0.0:0` (no node
can answer from the unspecified address, port 0) is not one of them -/
structure NetOk (N : List Handle) (target : Bytes) : Prop where
  idLen : ∀ h ∈ N, h.id.length = target.length
  ids : (N.map (·.id)).Nodup
  addrs : (N.map (·.addr)).Nodup
  noDummy : dummyHandle ∉ N

theorem inj_of_nodup_map {α β} (f : α → β) : ∀ (l : List α), (l.map f).Nodup → ∀ a ∈ l, ∀ b ∈ l, f a = f b → a = b
  | [], _, a, ha, _, _, _ => by simp at ha
  | x :: xs, h, a, ha, b, hb, hab => by
    simp only [List.map_cons, List.nodup_cons, List.mem_map, not_exists, not_and] at h
    rcases List.mem_cons.mp ha with ha' | ha' <;> rcases List.mem_cons.mp hb with hb' | hb'
    · rw [ha', hb']
    · rw [ha'] at hab; exact absurd hab.symm (h.1 b hb')
    · rw [hb'] at hab; exact absurd hab (h.1 a ha')
    · exact inj_of_nodup_map f xs h.2 a ha' b hb' hab

theorem nodup_of_nodup_map {α β} (f : α → β) {l : List α} (h : (l.map f).Nodup) : l.Nodup := by
  unfold List.Nodup at *
  rw [List.pairwise_map] at h
  exact h.imp (fun {a b} hab (heq : a = b) => hab (by rw [heq]))

theorem NetOk.id_inj {N : List Handle} {target : Bytes} (hn : NetOk N target) {a b : Handle} (ha : a ∈ N) (hb : b ∈ N)
    (h : a.id = b.id) : a = b := inj_of_nodup_map _ N hn.ids a ha b hb h

theorem NetOk.addr_inj {N : List Handle} {target : Bytes} (hn : NetOk N target) {a b : Handle} (ha : a ∈ N) (hb : b ∈ N)
    (h : a.addr = b.addr) : a = b := inj_of_nodup_map _ N hn.addrs a ha b hb h

theorem NetOk.nodup {N : List Handle} {target : Bytes} (hn : NetOk N target) : N.Nodup := nodup_of_nodup_map _ hn.ids

theorem NetOk.dist_inj {N : List Handle} {target : Bytes} (hn : NetOk N target) {a b : Handle} (ha : a ∈ N) (hb : b ∈ N)
    (h : distTo target a = distTo target b) : a = b :=
  hn.id_inj ha hb (xorBytes_inj target a.id b.id (hn.idLen a ha) (hn.idLen b hb) h)

/-- distinct nodes of the network sorted by distance are strictly sorted -/
theorem NetOk.strict {N : List Handle} {target : Bytes} (hn : NetOk N target) {l : List Handle} (hsub : ∀ x ∈ l, x ∈ N)
    (hnd : l.Nodup) (hs : DistSorted target l) : l.Pairwise (Closer target) := by
  have := hs.and hnd
  refine this.imp_of_mem (fun {a b} ha hb hab => ?_)
  unfold Closer
  cases hc : bytesCmp (distTo target a) (distTo target b) with
  | lt => rfl
  | gt => exact absurd hc hab.1
  | eq => exact absurd (hn.dist_inj (hsub a ha) (hsub b hb) (bytesCmp_eq _ _ hc)) hab.2

theorem mem_closestK {k : Nat} {target : Bytes} {N : List Handle} {c : Handle} (h : c ∈ closestK k target N) : c ∈ N :=
  (sortDist_perm target N).subset (List.mem_of_mem_take h)

/-- **a strictly sorted list of network nodes that contains the `k` closest nodes starts with them** -/
theorem take_eq_closestK {N : List Handle} {target : Bytes} (hn : NetOk N target) (k : Nat) (S : List Handle)
    (hS : S.Pairwise (Closer target)) (hsub : ∀ s ∈ S, s ∈ N) (hC : ∀ c ∈ closestK k target N, c ∈ S) :
    S.take k = closestK k target N := by
  have hperm := sortDist_perm target N
  have hMnd : (sortDist target N).Nodup := hperm.nodup_iff.mpr hn.nodup
  have hMs : (sortDist target N).Pairwise (Closer target) :=
    hn.strict (fun x hx => hperm.subset hx) hMnd (sortDist_sorted target N)
  have hSnd : S.Nodup := nodup_of_pairwise_irrefl _ (closer_irrefl target) hS
  have hCnd : (closestK k target N).Nodup := hMnd.sublist (List.take_sublist _ _)
  have hanti : ∀ a b : Handle, a ∈ S.take k → b ∈ closestK k target N → Closer target a b → Closer target b a → a = b :=
    fun a b _ _ h1 h2 => absurd h2 (closer_asymm h1)
  -- the `k` closest are downward closed
  have hdown : ∀ c ∈ closestK k target N, ∀ s ∈ S, Closer target s c → s ∈ closestK k target N := by
    intro c hc s hs hsc
    have hsM : s ∈ sortDist target N := hperm.symm.subset (hsub s hs)
    rw [← List.take_append_drop k (sortDist target N)] at hsM hMs
    rcases List.mem_append.mp hsM with h | h
    · exact h
    · exact absurd hsc (closer_asymm ((List.pairwise_append.mp hMs).2.2 c hc s h))
  have hp := perm_take_of_downclosed (Closer target) (closer_irrefl target) S (closestK k target N) hS hCnd hC hdown
  have hCs : (closestK k target N).Pairwise (Closer target) := hMs.sublist (List.take_sublist _ _)
  by_cases hk : k ≤ (sortDist target N).length
  · have hlen : (closestK k target N).length = k := by simp [closestK, List.length_take, Nat.min_eq_left hk]
    rw [hlen] at hp
    exact List.Perm.eq_of_pairwise hanti (hS.sublist (List.take_sublist _ _)) hCs hp.symm
  · have hlen : (closestK k target N).length = (sortDist target N).length := by
      simp only [closestK, List.length_take]; omega
    have h1 : S.length ≤ N.length := hSnd.length_le_of_subset (fun s hs => hsub s hs)
    have h2 : (closestK k target N).length ≤ S.length := hCnd.length_le_of_subset (fun c hc => hC c hc)
    have h3 := hperm.length_eq
    have e1 : S.take k = S := List.take_of_length_le (by omega)
    have e2 : S.take (closestK k target N).length = S := List.take_of_length_le (by omega)
    rw [e2] at hp
    rw [e1]
    exact List.Perm.eq_of_pairwise (fun a b _ _ h1 h2 => absurd h2 (closer_asymm h1)) hS hCs hp.symm

/-! ### the binary search finds a key that is present -/

theorem binarySearch_go_base (keys : List Bytes) (key : Bytes) :
    ∀ (fuel base size : Nat), (base = 0 ∨ bLe (keys.getD base []) key) →
      (binarySearch.go keys key fuel base size = 0 ∨ bLe (keys.getD (binarySearch.go keys key fuel base size) []) key) := by
  intro fuel
  induction fuel with
  | zero => intro base size h; unfold binarySearch.go; exact h
  | succ fuel ih =>
    intro base size h
    unfold binarySearch.go
    by_cases hgt : size > 1
    · rw [if_pos hgt]
      simp only
      apply ih
      by_cases hc : (bytesCmp (keys.getD (base + size / 2) []) key == .gt) = true
      · rw [if_pos hc]; exact h
      · rw [if_neg hc]; exact Or.inr (by simpa [bLe] using hc)
    · rw [if_neg hgt]; exact h

theorem mem_getD {keys : List Bytes} {key : Bytes} (h : key ∈ keys) : ∃ j, j < keys.length ∧ keys.getD j [] = key := by
  obtain ⟨j, hj, rfl⟩ := List.mem_iff_getElem.mp h
  exact ⟨j, hj, getD_eq_getElem' _ _ hj⟩

/-- on a sorted key list: `Ok idx` points at the key; a key that is present is found -/
theorem binarySearch_found (keys : List Bytes) (key : Bytes) (hs : SortedKeys keys) :
    ((binarySearch keys key).1 = true → (binarySearch keys key).2 < keys.length ∧ keys.getD (binarySearch keys key).2 [] = key) ∧
    (key ∈ keys → (binarySearch keys key).1 = true) := by
  unfold binarySearch
  simp only
  by_cases h0 : keys.length = 0
  · rw [if_pos h0]
    refine ⟨fun h => absurd h (by simp), fun h => ?_⟩
    have := List.length_pos_of_mem h
    omega
  · rw [if_neg h0]
    obtain ⟨hb, hlo, hhi⟩ := binarySearch_go keys key hs keys.length 0 keys.length (Nat.le_refl _) (by omega) (by omega)
      (fun i hi => by omega) (fun i hi hil => by omega)
    have hbase := binarySearch_go_base keys key keys.length 0 keys.length (Or.inl rfl)
    generalize binarySearch.go keys key keys.length 0 keys.length = b at hb hlo hhi hbase
    -- where a present key can be
    have hpres : key ∈ keys → bytesCmp (keys.getD b []) key = .eq := by
      intro hmem
      obtain ⟨j, hj, hjk⟩ := mem_getD hmem
      rcases Nat.lt_trichotomy j b with hlt | heq | hgt
      · have hb0 : b ≠ 0 := by omega
        have h1 : bLe (keys.getD b []) key := hbase.resolve_left hb0
        have h2 : bLe key (keys.getD b []) := by
          have := sortedKeys_getD hs (Nat.le_of_lt hlt) hb
          rwa [hjk] at this
        rw [bLe_antisymm h1 h2]; exact bytesCmp_refl _
      · rw [← heq, hjk]; exact bytesCmp_refl _
      · have := hhi j (by omega) hj
        rw [hjk, bytesCmp_refl] at this
        cases this
    cases hc : bytesCmp (keys.getD b []) key with
    | eq => exact ⟨fun _ => ⟨hb, bytesCmp_eq _ _ hc⟩, fun _ => rfl⟩
    | lt => exact ⟨fun h => absurd h (by simp), fun hm => by have := hpres hm; rw [hc] at this; cases this⟩
    | gt => exact ⟨fun h => absurd h (by simp), fun hm => by have := hpres hm; rw [hc] at this; cases this⟩

/-! ### the candidate list holds nodes of the network, each once -/

/-- the candidate list: sorted by distance, made of nodes of the network, no node twice -/
structure CandInv (N : List Handle) (target : Bytes) (nodes : List (Bytes × Handle × Bool)) : Prop where
  ok : CandOk target nodes
  sub : ∀ e ∈ nodes, e.2.1 ∈ N
  nodup : (nodes.map (·.2.1)).Nodup

theorem perm_insert_at {α} (l : List α) (i : Nat) (x : α) : (l.take i ++ [x] ++ l.drop i).Perm (x :: l) := by
  have : l.take i ++ [x] ++ l.drop i = l.take i ++ x :: l.drop i := by simp
  rw [this]
  refine List.perm_middle.trans ?_
  rw [List.take_append_drop]

/-- inserting a node of the network: nothing happens if it is a candidate already, else it is
inserted once (with the given flag) -/
theorem insertSorted_cases {N : List Handle} {target : Bytes} (hn : NetOk N target) (nodes : List (Bytes × Handle × Bool))
    (h : Handle) (p : Bool) (hc : CandInv N target nodes) (hh : h ∈ N) :
    (h ∈ nodes.map (·.2.1) ∧ insertSorted nodes target h p = nodes) ∨
    (h ∉ nodes.map (·.2.1) ∧ ∃ idx, insertSorted nodes target h p =
      nodes.take idx ++ [(xorBytes target h.id, h, p)] ++ nodes.drop idx) := by
  have bf := binarySearch_found (nodes.map (·.1)) (xorBytes target h.id) hc.ok.sorted
  unfold insertSorted
  simp only
  cases hb : binarySearch (nodes.map (·.1)) (xorBytes target h.id) with
  | mk found idx =>
    rw [hb] at bf
    cases found with
    | true =>
      obtain ⟨hlt, hkey⟩ := bf.1 rfl
      simp only at hlt hkey
      have hlt' : idx < nodes.length := by simpa using hlt
      rw [getD_eq_getElem' _ _ hlt, List.getElem_map] at hkey
      have hmem : nodes[idx] ∈ nodes := List.getElem_mem hlt'
      have hd := hc.ok.dist _ hmem
      have heq : nodes[idx].2.1 = h := hn.dist_inj (hc.sub _ hmem) hh (by unfold distTo; rw [← hd, hkey])
      left
      refine ⟨List.mem_map.mpr ⟨_, hmem, heq⟩, ?_⟩
      simp only [List.getElem?_eq_getElem hlt']
      rw [if_neg (by simp [heq])]
    | false =>
      right
      refine ⟨fun hm => ?_, idx, rfl⟩
      obtain ⟨e, he, heq⟩ := List.mem_map.mp hm
      have hd := hc.ok.dist e he
      rw [heq] at hd
      have : xorBytes target h.id ∈ nodes.map (·.1) := List.mem_map.mpr ⟨e, he, hd⟩
      have := bf.2 this
      simp at this

/-- what one insertion does to a candidate list -/
structure InsRes (N : List Handle) (target : Bytes) (old new : List (Bytes × Handle × Bool)) (hs : List Handle) (f : Handle → Bool) : Prop where
  inv : CandInv N target new
  keep : ∀ e ∈ old, e ∈ new
  has : ∀ h ∈ hs, h ∈ new.map (·.2.1)
  fresh : ∀ e ∈ new, e ∈ old ∨ (e.2.1 ∈ hs ∧ e.2.2 = f e.2.1)
  same : (∀ h ∈ hs, h ∈ old.map (·.2.1)) → new = old

theorem insertSorted_res {N : List Handle} {target : Bytes} (hn : NetOk N target) (nodes : List (Bytes × Handle × Bool))
    (h : Handle) (f : Handle → Bool) (hc : CandInv N target nodes) (hh : h ∈ N) :
    InsRes N target nodes (insertSorted nodes target h (f h)) [h] f := by
  rcases insertSorted_cases hn nodes h (f h) hc hh with ⟨hin, heq⟩ | ⟨hnot, idx, heq⟩
  · rw [heq]
    exact ⟨hc, fun e he => he, fun x hx => by rw [List.mem_singleton.mp hx]; exact hin, fun e he => Or.inl he, fun _ => rfl⟩
  · have hok := insertSorted_ok target nodes h (f h) hc.ok
    rw [heq] at hok ⊢
    have hperm := perm_insert_at nodes idx (xorBytes target h.id, h, f h)
    have hmem : ∀ e, e ∈ nodes.take idx ++ [(xorBytes target h.id, h, f h)] ++ nodes.drop idx ↔
        e = (xorBytes target h.id, h, f h) ∨ e ∈ nodes := fun e => by rw [hperm.mem_iff, List.mem_cons]
    refine ⟨⟨hok, fun e he => ?_, ?_⟩, fun e he => (hmem e).mpr (Or.inr he), fun x hx => ?_, fun e he => ?_, fun hall => ?_⟩
    · rcases (hmem e).mp he with rfl | he
      · exact hh
      · exact hc.sub e he
    · have := (hperm.map (·.2.1)).nodup_iff.mpr (by
        simp only [List.map_cons, List.nodup_cons]
        exact ⟨hnot, hc.nodup⟩)
      exact this
    · rw [List.mem_singleton.mp hx]
      exact List.mem_map.mpr ⟨_, (hmem _).mpr (Or.inl rfl), rfl⟩
    · rcases (hmem e).mp he with rfl | he
      · exact Or.inr ⟨List.mem_singleton.mpr rfl, rfl⟩
      · exact Or.inl he
    · exact absurd (hall h (List.mem_singleton.mpr rfl)) hnot

/-- what `insert_sorted_node` over the nodes named by an answer does to the candidate list -/
theorem foldl_insert_res {N : List Handle} {target : Bytes} (hn : NetOk N target) (f : Handle → Bool) :
    ∀ (hs : List Handle) (nodes : List (Bytes × Handle × Bool)), CandInv N target nodes → (∀ h ∈ hs, h ∈ N) →
      InsRes N target nodes (hs.foldl (fun acc n => insertSorted acc target n (f n)) nodes) hs f
  | [], nodes, hc, _ => ⟨hc, fun e he => he, fun h hh => by simp at hh, fun e he => Or.inl he, fun _ => rfl⟩
  | x :: xs, nodes, hc, hsub => by
    have r1 := insertSorted_res hn nodes x f hc (hsub x List.mem_cons_self)
    have r2 := foldl_insert_res hn f xs _ r1.inv (fun h hh => hsub h (List.mem_cons_of_mem _ hh))
    simp only [List.foldl_cons]
    refine ⟨r2.inv, fun e he => r2.keep e (r1.keep e he), fun h hh => ?_, fun e he => ?_, fun hall => ?_⟩
    · rcases List.mem_cons.mp hh with rfl | hh
      · obtain ⟨e, he, heq⟩ := List.mem_map.mp (r1.has h (List.mem_singleton.mpr rfl))
        exact List.mem_map.mpr ⟨e, r2.keep e he, heq⟩
      · exact r2.has h hh
    · rcases r2.fresh e he with h1 | ⟨h1, h2⟩
      · rcases r1.fresh e h1 with h3 | ⟨h3, h4⟩
        · exact Or.inl h3
        · exact Or.inr ⟨by rw [List.mem_singleton.mp h3]; exact List.mem_cons_self, h4⟩
      · exact Or.inr ⟨List.mem_cons_of_mem _ h1, h2⟩
    · have e1 := r1.same (fun h hh => by rw [List.mem_singleton.mp hh]; exact hall x List.mem_cons_self)
      rw [e1] at r2 ⊢
      exact r2.same (fun h hh => hall h (List.mem_cons_of_mem _ hh))

/-! ### the picks of an iterative round -/

theorem insertClosest_go_unused (target : Bytes) (h : Handle) (nd : Bytes) :
    ∀ (picks : List (Handle × Bool)), (∀ p ∈ picks, p.2 = false → p.1 = dummyHandle) →
      ∀ p ∈ insertClosest.go target h nd picks, p.2 = false → p.1 = dummyHandle
  | [], _, p, hp, _ => by simp [insertClosest.go] at hp
  | (old, used) :: rest, hP, p, hp, hu => by
    unfold insertClosest.go at hp
    split at hp
    · rcases List.mem_cons.mp hp with rfl | hp
      · cases hu
      · exact hP p (List.mem_cons_of_mem _ hp) hu
    · split at hp
      · rcases List.mem_cons.mp hp with rfl | hp
        · cases hu
        · exact hP p (List.mem_cons_of_mem _ hp) hu
      · rcases List.mem_cons.mp hp with rfl | hp
        · exact hP _ List.mem_cons_self hu
        · exact insertClosest_go_unused target h nd rest (fun q hq => hP q (List.mem_cons_of_mem _ hq)) p hp hu

theorem insertClosest_go_used (target : Bytes) (h : Handle) (nd : Bytes) :
    ∀ (picks : List (Handle × Bool)), picks ≠ [] →
      insertClosest.go target h nd picks ≠ [] ∧ ∃ p ∈ insertClosest.go target h nd picks, p.2 = true
  | [], hne => absurd rfl hne
  | (old, used) :: rest, _ => by
    unfold insertClosest.go
    split
    · exact ⟨by simp, _, List.mem_cons_self, rfl⟩
    · rename_i hu
      split
      · exact ⟨by simp, _, List.mem_cons_self, rfl⟩
      · exact ⟨by simp, _, List.mem_cons_self, by simpa using hu⟩

/-- a slot of the pick array that was not used still holds the placeholder handle -/
theorem pickIterate_unused (nodes : List Handle) (target : Bytes) :
    ∀ p ∈ pickIterate nodes target, p.2 = false → p.1 = dummyHandle := by
  unfold pickIterate
  have key := foldl_pred (fun (acc : List (Handle × Bool)) => ∀ p ∈ acc, p.2 = false → p.1 = dummyHandle)
    (fun acc h => insertClosest acc target h)
    (fun b a hb => by unfold insertClosest; exact insertClosest_go_unused target a _ b hb)
    nodes (List.replicate Constants.ITERATIVE_PICK_NUM (dummyHandle, false))
    (fun p hp _ => by rw [(List.mem_replicate.mp hp).2])
  exact key

/-- when there is something to pick from, something is picked -/
theorem pickIterate_some_used (nodes : List Handle) (target : Bytes) (hne : nodes ≠ []) :
    ∃ p ∈ pickIterate nodes target, p.2 = true := by
  unfold pickIterate
  have key : ∀ (ns : List Handle) (acc : List (Handle × Bool)), acc ≠ [] → ns ≠ [] →
      ∃ p ∈ ns.foldl (fun acc h => insertClosest acc target h) acc, p.2 = true := by
    intro ns
    induction ns with
    | nil => intro acc _ h; exact absurd rfl h
    | cons x xs ih =>
      intro acc hacc _
      simp only [List.foldl_cons]
      have h1 := insertClosest_go_used target x (xorBytes target x.id) acc hacc
      by_cases hxs : xs = []
      · subst hxs; exact h1.2
      · exact ih _ h1.1 hxs
  exact key nodes _ (by decide) hne

/-! ### the ghost log of the queries a search sent -/

/-- a logged query: transaction id, destination address, instant it was handed to the socket -/
abbrev QLog := List (Tid × Addr × Nat)

/-- the `get_peers` queries that went out among the effects of a step performed at `now` -/
def queriesOf (now : Nat) (effs : List Effect) : QLog :=
  effs.filterMap fun e => match e with
    | .send dst tid (.getPeers _ _ _) true => some (tid, dst, now)
    | _ => none

theorem queriesOf_append (now : Nat) (a b : List Effect) : queriesOf now (a ++ b) = queriesOf now a ++ queriesOf now b := by
  simp [queriesOf, List.filterMap_append]

theorem queriesOf_nil (now : Nat) : queriesOf now [] = [] := rfl

theorem queriesOf_query (now : Nat) (l : Lookup) (dst : Addr) (tid : Tid) :
    queriesOf now [.send dst tid (getPeersReq l) true] = [(tid, dst, now)] := rfl

theorem queriesOf_snoc (now : Nat) (effs : List Effect) (l : Lookup) (dst : Addr) (tid : Tid) :
    queriesOf now (effs ++ [.send dst tid (getPeersReq l) true]) = queriesOf now effs ++ [(tid, dst, now)] := by
  rw [queriesOf_append]; rfl

/-- fields of a search that never change -/
structure Static (l l' : Lookup) : Prop where
  aid : l'.aid = l.aid
  selfId : l'.selfId = l.selfId
  v6 : l'.v6 = l.v6
  target : l'.target = l.target
  ann : l'.willAnnounce = l.willAnnounce
  stream : l'.stream = l.stream

theorem Static.refl (l : Lookup) : Static l l := ⟨rfl, rfl, rfl, rfl, rfl, rfl⟩
theorem Static.trans {a b c : Lookup} (h1 : Static a b) (h2 : Static b c) : Static a c :=
  ⟨h2.aid.trans h1.aid, h2.selfId.trans h1.selfId, h2.v6.trans h1.v6, h2.target.trans h1.target,
   h2.ann.trans h1.ann, h2.stream.trans h1.stream⟩

/-- the bookkeeping of outstanding queries: every logged query carries an id this search drew,
and is outstanding (`active_lookups`) unless its answer was handled -/
structure QInv (l : Lookup) (log : QLog) (answered : List Tid) : Prop where
  seq : ∀ q ∈ log, q.1.aid = l.aid ∧ q.1.seq < l.nextSeq
  act : ∀ q ∈ log, q.1 ∉ answered → ∃ e ∈ l.active, e.1 = q.1
  nans : ∀ e ∈ l.active, e.1 ∉ answered
  aseq : ∀ t ∈ answered, t.seq < l.nextSeq
  uniq : ∀ q ∈ log, ∀ q' ∈ log, q.1 = q'.1 → q.2.1 = q'.2.1
  alog : ∀ e ∈ l.active, ∃ q ∈ log, q.1 = e.1

/-- drawing the next id and entering the query as outstanding -/
theorem qinv_push {l l' : Lookup} {log : QLog} {ans : List Tid} (h : QInv l log ans) (d : Bytes) (key : Nat × Nat)
    (a : Addr) (now : Nat) (haid : l'.aid = l.aid) (hseq : l'.nextSeq = l.nextSeq + 1)
    (hact : l'.active = l.active.filter (·.1 ≠ (⟨l.aid, l.nextSeq⟩ : Tid)) ++ [(⟨l.aid, l.nextSeq⟩, d, key)]) :
    QInv l' (log ++ [(⟨l.aid, l.nextSeq⟩, a, now)]) ans := by
  constructor
  · intro q hq
    rw [haid, hseq]
    rcases List.mem_append.mp hq with hq | hq
    · have := h.seq q hq
      exact ⟨this.1, by omega⟩
    · rw [List.mem_singleton.mp hq]; exact ⟨rfl, by simp⟩
  · intro q hq hna
    rw [hact]
    rcases List.mem_append.mp hq with hq | hq
    · obtain ⟨e, he, heq⟩ := h.act q hq hna
      refine ⟨e, List.mem_append_left _ (List.mem_filter.mpr ⟨he, ?_⟩), heq⟩
      have := (h.seq q hq).2
      simp only [ne_eq, decide_not, Bool.not_eq_eq_eq_not, Bool.not_true, decide_eq_false_iff_not]
      intro hc
      rw [← heq, hc] at this
      simp at this
    · rw [List.mem_singleton.mp hq]
      exact ⟨_, List.mem_append_right _ (List.mem_singleton.mpr rfl), rfl⟩
  · intro e he
    rw [hact] at he
    rcases List.mem_append.mp he with he | he
    · exact h.nans e (List.mem_filter.mp he).1
    · rw [List.mem_singleton.mp he]
      intro hc
      have := h.aseq _ hc
      simp at this
  · intro t ht
    rw [hseq]
    exact Nat.lt_succ_of_lt (h.aseq t ht)
  · intro q hq q' hq' heq
    rcases List.mem_append.mp hq with hq | hq <;> rcases List.mem_append.mp hq' with hq' | hq'
    · exact h.uniq q hq q' hq' heq
    · have := (h.seq q hq).2
      rw [List.mem_singleton.mp hq'] at heq
      rw [heq] at this
      simp at this
    · have := (h.seq q' hq').2
      rw [List.mem_singleton.mp hq] at heq
      rw [← heq] at this
      simp at this
    · rw [List.mem_singleton.mp hq, List.mem_singleton.mp hq']
  · intro e he
    rw [hact] at he
    rcases List.mem_append.mp he with he | he
    · obtain ⟨q, hq1, hq2⟩ := h.alog e (List.mem_filter.mp he).1
      exact ⟨q, List.mem_append_left _ hq1, hq2⟩
    · rw [List.mem_singleton.mp he]
      exact ⟨_, List.mem_append_right _ (List.mem_singleton.mpr rfl), rfl⟩

/-! ### a request round when every send succeeds (E1) -/

/-- the loop of `start_request_round` after the nodes `done`, every send succeeding -/
structure RAcc (l : Lookup) (env : LEnv) (log : QLog) (ans : List Tid) (done : List (Handle × Bytes)) (acc : RoundAcc) : Prop where
  fails : acc.env.sendFails = env.sendFails
  now : acc.env.now = env.now
  st : Static l acc.l
  sorted : acc.l.sorted = l.sorted
  tokens : acc.l.tokens = l.tokens
  eg : acc.l.inEndgame = l.inEndgame
  q : QInv acc.l (log ++ queriesOf env.now acc.effs) ans
  sent : acc.sent = done.length
  cover : ∀ hd ∈ done, ∃ q ∈ queriesOf env.now acc.effs, q.2.1 = hd.1.addr
  src : ∀ q ∈ queriesOf env.now acc.effs, q.2.2 = env.now ∧ ∃ hd ∈ done, q.2.1 = hd.1.addr
  act : done ≠ [] → acc.l.active ≠ []

theorem requestStep_racc (l : Lookup) (env : LEnv) (log : QLog) (ans : List Tid) (done : List (Handle × Bytes))
    (acc : RoundAcc) (hd : Handle × Bytes) (hf : ∀ a, env.sendFails a = false) (h : RAcc l env log ans done acc) :
    RAcc l env log ans (done ++ [hd]) (requestStep acc hd) := by
  have hq := qinv_push (l' := (requestStep acc hd).l) h.q hd.2
    (acc.env.timer.scheduleAt (acc.env.now + Constants.LOOKUP_TIMEOUT_ns) (.lookupTimeout ⟨acc.l.aid, acc.l.nextSeq⟩)).2
    hd.1.addr env.now
  have hnf : ¬ (acc.env.sendFails hd.1.addr = true) := by rw [h.fails, hf]; simp
  unfold requestStep at hq ⊢
  simp only at hq ⊢
  rw [if_neg hnf] at hq ⊢
  have hq' := hq rfl rfl rfl
  refine ⟨h.fails, h.now, ⟨h.st.aid, h.st.selfId, h.st.v6, h.st.target, h.st.ann, h.st.stream⟩, h.sorted, h.tokens, h.eg,
    ?_, ?_, ?_, ?_, ?_⟩
  · simp only
    rw [queriesOf_snoc, ← List.append_assoc]
    exact hq'
  · simp only [List.length_append, List.length_singleton]; rw [h.sent]
  · intro x hx
    simp only
    rw [queriesOf_snoc]
    rcases List.mem_append.mp hx with hx | hx
    · obtain ⟨q, hq1, hq2⟩ := h.cover x hx
      exact ⟨q, List.mem_append_left _ hq1, hq2⟩
    · rw [List.mem_singleton.mp hx]
      exact ⟨_, List.mem_append_right _ (List.mem_singleton.mpr rfl), rfl⟩
  · intro q hqm
    simp only at hqm
    rw [queriesOf_snoc] at hqm
    rcases List.mem_append.mp hqm with hqm | hqm
    · obtain ⟨h1, x, hx, h2⟩ := h.src q hqm
      exact ⟨h1, x, List.mem_append_left _ hx, h2⟩
    · rw [List.mem_singleton.mp hqm]
      exact ⟨rfl, hd, List.mem_append_right _ (List.mem_singleton.mpr rfl), rfl⟩
  · intro _
    simp

theorem foldl_requestStep_racc (l : Lookup) (env : LEnv) (log : QLog) (ans : List Tid) (hf : ∀ a, env.sendFails a = false) :
    ∀ (ns done : List (Handle × Bytes)) (acc : RoundAcc), RAcc l env log ans done acc →
      RAcc l env log ans (done ++ ns) (ns.foldl requestStep acc)
  | [], done, acc, h => by simpa using h
  | x :: xs, done, acc, h => by
    have := foldl_requestStep_racc l env log ans hf xs (done ++ [x]) _ (requestStep_racc l env log ans done acc x hf h)
    simpa using this

/-- what a request round does when every send succeeds -/
structure RoundOk (l : Lookup) (env : LEnv) (log : QLog) (ans : List Tid) (ns : List (Handle × Bytes))
    (r : Lookup × LEnv × List Effect) : Prop where
  fails : r.2.1.sendFails = env.sendFails
  now : r.2.1.now = env.now
  st : Static l r.1
  sorted : r.1.sorted = l.sorted
  tokens : r.1.tokens = l.tokens
  eg : r.1.inEndgame = l.inEndgame
  q : QInv r.1 (log ++ queriesOf env.now r.2.2) ans
  cover : ∀ hd ∈ ns, ∃ q ∈ queriesOf env.now r.2.2, q.2.1 = hd.1.addr
  src : ∀ q ∈ queriesOf env.now r.2.2, q.2.2 = env.now ∧ ∃ hd ∈ ns, q.2.1 = hd.1.addr
  act : r.1.active ≠ []

theorem requestRound_ok (l : Lookup) (env : LEnv) (log : QLog) (ans : List Tid) (ns : List (Handle × Bytes))
    (hf : ∀ a, env.sendFails a = false) (hq : QInv l log ans) (hne : ns ≠ []) :
    RoundOk l env log ans ns (l.requestRound env ns) := by
  have h0 : RAcc l env log ans [] { l := l, env := env, effs := [], sent := 0 } :=
    ⟨rfl, rfl, Static.refl l, rfl, rfl, rfl, by simpa [queriesOf_nil] using hq, rfl, fun hd h => by simp at h,
      fun q h => by simp [queriesOf_nil] at h, fun h => absurd rfl h⟩
  have h1 := foldl_requestStep_racc l env log ans hf ns [] _ h0
  simp only [List.nil_append] at h1
  unfold Lookup.requestRound
  simp only
  have hs : ¬ ((ns.foldl requestStep { l := l, env := env, effs := [], sent := 0 }).sent = 0) := by
    rw [h1.sent]
    exact fun h => hne (List.eq_nil_of_length_eq_zero h)
  rw [if_neg hs]
  exact ⟨h1.fails, h1.now, h1.st, h1.sorted, h1.tokens, h1.eg, h1.q, h1.cover, h1.src, h1.act hne⟩

/-! ### the end-game round when every send succeeds (E1) -/

/-- the loop of `start_endgame_round` after the candidates `done`, every send succeeding -/
structure EAcc (l : Lookup) (env : LEnv) (log : QLog) (ans : List Tid) (done : List (Bytes × Handle × Bool)) (acc : EndAcc) : Prop where
  fails : acc.env.sendFails = env.sendFails
  now : acc.env.now = env.now
  st : Static l acc.l
  tokens : acc.l.tokens = l.tokens
  eg : acc.l.inEndgame = true
  q : QInv acc.l (log ++ queriesOf env.now acc.effs) ans
  out : acc.out = done.map (fun e => (e.1, e.2.1, true))
  cover : ∀ e ∈ done, e.2.2 = false → ∃ q ∈ queriesOf env.now acc.effs, q.2.1 = e.2.1.addr
  src : ∀ q ∈ queriesOf env.now acc.effs, q.2.2 = env.now ∧ ∃ e ∈ done, q.2.1 = e.2.1.addr

theorem endgameStep_eacc (l : Lookup) (env : LEnv) (log : QLog) (ans : List Tid) (done : List (Bytes × Handle × Bool))
    (key : Nat × Nat) (acc : EndAcc) (e : Bytes × Handle × Bool) (hf : ∀ a, env.sendFails a = false)
    (h : EAcc l env log ans done acc) : EAcc l env log ans (done ++ [e]) (endgameStep key acc e) := by
  by_cases hfl : e.2.2 = true
  · -- queried before: kept as it is
    have he : e = (e.1, e.2.1, true) := by rw [← hfl]
    unfold endgameStep
    rw [if_pos hfl]
    refine ⟨h.fails, h.now, h.st, h.tokens, h.eg, h.q, ?_, ?_, ?_⟩
    · simp only [List.map_append, List.map_cons, List.map_nil]; rw [h.out, ← he]
    · intro x hx hxf
      rcases List.mem_append.mp hx with hx | hx
      · exact h.cover x hx hxf
      · rw [List.mem_singleton.mp hx, hfl] at hxf; cases hxf
    · intro q hq
      obtain ⟨h1, x, hx, h2⟩ := h.src q hq
      exact ⟨h1, x, List.mem_append_left _ hx, h2⟩
  · have hq := qinv_push (l' := (endgameStep key acc e).l) h.q e.1 key e.2.1.addr env.now
    have hnf : ¬ (acc.env.sendFails e.2.1.addr = true) := by rw [h.fails, hf]; simp
    unfold endgameStep at hq ⊢
    rw [if_neg hfl] at hq ⊢
    simp only at hq ⊢
    rw [if_neg hnf] at hq ⊢
    have hq' := hq rfl rfl rfl
    refine ⟨h.fails, h.now, ⟨h.st.aid, h.st.selfId, h.st.v6, h.st.target, h.st.ann, h.st.stream⟩, h.tokens, h.eg, ?_, ?_, ?_, ?_⟩
    · simp only
      rw [queriesOf_snoc, ← List.append_assoc]
      exact hq'
    · simp only [List.map_append, List.map_cons, List.map_nil]; rw [h.out]
    · intro x hx hxf
      simp only
      rw [queriesOf_snoc]
      rcases List.mem_append.mp hx with hx | hx
      · obtain ⟨q, hq1, hq2⟩ := h.cover x hx hxf
        exact ⟨q, List.mem_append_left _ hq1, hq2⟩
      · rw [List.mem_singleton.mp hx]
        exact ⟨_, List.mem_append_right _ (List.mem_singleton.mpr rfl), rfl⟩
    · intro q hqm
      simp only at hqm
      rw [queriesOf_snoc] at hqm
      rcases List.mem_append.mp hqm with hqm | hqm
      · obtain ⟨h1, x, hx, h2⟩ := h.src q hqm
        exact ⟨h1, x, List.mem_append_left _ hx, h2⟩
      · rw [List.mem_singleton.mp hqm]
        exact ⟨rfl, e, List.mem_append_right _ (List.mem_singleton.mpr rfl), rfl⟩

theorem foldl_endgameStep_eacc (l : Lookup) (env : LEnv) (log : QLog) (ans : List Tid) (key : Nat × Nat)
    (hf : ∀ a, env.sendFails a = false) :
    ∀ (es done : List (Bytes × Handle × Bool)) (acc : EndAcc), EAcc l env log ans done acc →
      EAcc l env log ans (done ++ es) (es.foldl (endgameStep key) acc)
  | [], done, acc, h => by simpa using h
  | x :: xs, done, acc, h => by
    have := foldl_endgameStep_eacc l env log ans key hf xs (done ++ [x]) _ (endgameStep_eacc l env log ans done key acc x hf h)
    simpa using this

/-- what the end-game round does when every send succeeds: every candidate not queried before is
queried now, and all candidates are marked as queried -/
structure EndOk (l : Lookup) (env : LEnv) (log : QLog) (ans : List Tid) (r : Lookup × LEnv × List Effect) : Prop where
  fails : r.2.1.sendFails = env.sendFails
  now : r.2.1.now = env.now
  st : Static l r.1
  tokens : r.1.tokens = l.tokens
  eg : r.1.inEndgame = true
  q : QInv r.1 (log ++ queriesOf env.now r.2.2) ans
  sorted : r.1.sorted = l.sorted.map (fun e => (e.1, e.2.1, true))
  cover : ∀ e ∈ l.sorted, e.2.2 = false → ∃ q ∈ queriesOf env.now r.2.2, q.2.1 = e.2.1.addr
  src : ∀ q ∈ queriesOf env.now r.2.2, q.2.2 = env.now ∧ ∃ e ∈ l.sorted, q.2.1 = e.2.1.addr

theorem endgameRound_ok (l : Lookup) (env : LEnv) (log : QLog) (ans : List Tid)
    (hf : ∀ a, env.sendFails a = false) (hq : QInv l log ans) : EndOk l env log ans (l.endgameRound env) := by
  have hq0 : QInv { l with inEndgame := true, nextSeq := l.nextSeq + 1 } (log ++ queriesOf env.now []) ans := by
    rw [queriesOf_nil, List.append_nil]
    exact ⟨fun q hqm => ⟨(hq.seq q hqm).1, Nat.lt_succ_of_lt (hq.seq q hqm).2⟩, hq.act, hq.nans,
      fun t ht => Nat.lt_succ_of_lt (hq.aseq t ht), hq.uniq, hq.alog⟩
  have h0 : EAcc l env log ans []
      { l := { l with inEndgame := true, nextSeq := l.nextSeq + 1 },
        env := { env with timer := (env.timer.scheduleAt (env.now + Constants.ENDGAME_TIMEOUT_ns) (.lookupEndGame ⟨l.aid, l.nextSeq⟩)).1 },
        effs := [], out := [] } :=
    ⟨rfl, rfl, ⟨rfl, rfl, rfl, rfl, rfl, rfl⟩, rfl, rfl, hq0, rfl, fun e h => by simp at h, fun q h => by simp [queriesOf_nil] at h⟩
  have h1 := foldl_endgameStep_eacc l env log ans
    (env.timer.scheduleAt (env.now + Constants.ENDGAME_TIMEOUT_ns) (.lookupEndGame ⟨l.aid, l.nextSeq⟩)).2 hf l.sorted [] _ h0
  simp only [List.nil_append] at h1
  unfold Lookup.endgameRound
  simp only
  exact ⟨h1.fails, h1.now, ⟨h1.st.aid, h1.st.selfId, h1.st.v6, h1.st.target, h1.st.ann, h1.st.stream⟩, h1.tokens, h1.eg,
    ⟨h1.q.seq, h1.q.act, h1.q.nans, h1.q.aseq, h1.q.uniq, h1.q.alog⟩, h1.out, h1.cover, h1.src⟩

/-! ### the closed loop: the search driven by a truthful, timely network -/

/-- the state of the closed loop: the search, plus a ghost record of what it sent and which
answers were handled so far -/
structure RCfg where
  l : Lookup
  /-- instant of the last step -/
  now : Nat
  /-- every `get_peers` query that went out so far -/
  log : QLog
  /-- the ids whose answer has been handled -/
  answered : List Tid
  /-- the instant the end-game round started -/
  egAt : Option Nat

/-- the events the handler feeds a stored search with (besides the final end-game timer):
`HState.lookupResponse` calls `recvResponse` with the responder's handle `⟨rsp.id, src⟩` and the
transaction id, `HState.lookupTimeout` calls `recvTimeout` -/
inductive ReachEv where
  | resp (h : Handle) (tid : Tid) (rsp : Resp)
  | timeout (tid : Tid)

def RCfg.step (c : RCfg) (env : LEnv) (ev : ReachEv) : RCfg :=
  let r := match ev with
    | .resp h tid rsp => c.l.recvResponse env h tid rsp
    | .timeout tid => c.l.recvTimeout env tid
  { l := r.1, now := env.now, log := c.log ++ queriesOf env.now r.2.2,
    answered := match ev with
      | .resp _ tid _ => tid :: c.answered
      | .timeout _ => c.answered,
    egAt := if !c.l.inEndgame && r.1.inEndgame then some env.now else c.egAt }

def RCfg.run (c : RCfg) : List (LEnv × ReachEv) → RCfg
  | [] => c
  | (env, ev) :: rest => (c.step env ev).run rest

/-- the state right after `TableLookup::new` returned `r` at instant `now` -/
def RCfg.start (r : Lookup × LEnv × List Effect) (now : Nat) : RCfg :=
  { l := r.1, now := now, log := queriesOf now r.2.2, answered := [], egAt := none }

/-- (E2, content) a truthful answer of the node `h`: it claims `h`'s id, carries the token `h`
issues, and names exactly the (up to) 8 nodes of the network closest to the target, in any order
(the list for the other address family and the peer values are arbitrary) -/
structure Truthful (N : List Handle) (tok : Handle → Bytes) (target : Bytes) (v6 : Bool) (h : Handle) (rsp : Resp) : Prop where
  id : rsp.id = h.id
  token : rsp.token = some (tok h)
  nodes : (if v6 then rsp.nodes6 else rsp.nodes4).Perm (closest8 target N)

/-- (E2, timing) at the instant `now` at which the node handles an event, no query to a node of
the network has been waiting for its answer for more than `D` -/
def Timely (N : List Handle) (D : Nat) (c : RCfg) (now : Nat) : Prop :=
  ∀ q ∈ c.log, q.1 ∉ c.answered → (∃ h ∈ N, h.addr = q.2.1) → now ≤ q.2.2 + D

/-- which events may happen in state `c`: an answer to a query that went out, sent by the queried
node itself (E2; a repeated answer to the same query is allowed); the timeout of a query, not
before its deadline (E3) -/
def EvOk (N : List Handle) (tok : Handle → Bytes) (target : Bytes) (c : RCfg) (now : Nat) : ReachEv → Prop
  | .resp h tid rsp => h ∈ N ∧ (∃ q ∈ c.log, q.1 = tid ∧ q.2.1 = h.addr) ∧ Truthful N tok target c.l.v6 h rsp
  | .timeout tid => ∃ q ∈ c.log, q.1 = tid ∧ q.2.2 + Constants.LOOKUP_TIMEOUT_ns ≤ now

structure Admissible (N : List Handle) (tok : Handle → Bytes) (target : Bytes) (D : Nat) (c : RCfg) (env : LEnv) (ev : ReachEv) : Prop where
  /-- (E1) every send succeeds -/
  sends : ∀ a, env.sendFails a = false
  /-- time does not run backwards -/
  mono : c.now ≤ env.now
  timely : Timely N D c env.now
  ev : EvOk N tok target c env.now ev

/-- a run of the closed loop in which every step is admissible -/
def TruthfulRun (N : List Handle) (tok : Handle → Bytes) (target : Bytes) (D : Nat) (c : RCfg) : List (LEnv × ReachEv) → Prop
  | [] => True
  | (env, ev) :: rest => Admissible N tok target D c env ev ∧ TruthfulRun N tok target D (c.step env ev) rest

/-- the end-game timer fires (`HState.handleTask (.lookupEndGame _)` calls `recvFinished`): not
before its deadline (E3), sends succeed (E1), and answers are timely (E2) -/
structure FinishOk (N : List Handle) (D : Nat) (c : RCfg) (env : LEnv) : Prop where
  sends : ∀ a, env.sendFails a = false
  timely : Timely N D c env.now
  due : ∃ t, c.egAt = some t ∧ t + Constants.ENDGAME_TIMEOUT_ns ≤ env.now

/-! ### the candidate bookkeeping of an answer -/

/-- what `absorbNodes` does with the nodes named by a truthful answer -/
structure AbsRes (N : List Handle) (l : Lookup) (nodes : List Handle) (A : Lookup × Option (List (Handle × Bool)) × Bytes) : Prop where
  active : A.1.active = l.active
  tokens : A.1.tokens = l.tokens
  nextSeq : A.1.nextSeq = l.nextSeq
  eg : A.1.inEndgame = l.inEndgame
  st : Static l A.1
  inv : CandInv N l.target A.1.sorted
  keep : ∀ e ∈ l.sorted, e ∈ A.1.sorted
  has : ∀ h ∈ nodes, h ∈ A.1.sorted.map (·.2.1)
  same : (∀ h ∈ nodes, h ∈ l.sorted.map (·.2.1)) → A.1.sorted = l.sorted
  fresh : ∀ e ∈ A.1.sorted, e ∈ l.sorted ∨
    (e.2.2 = true → ∃ picks, A.2.1 = some picks ∧ ∃ p ∈ picks, p.2 = true ∧ p.1 = e.2.1)
  picks : ∀ picks, A.2.1 = some picks → (∃ p ∈ picks, p.2 = true) ∧ ∀ p ∈ picks, p.2 = true → p.1 ∈ nodes

theorem absorbNodes_res {N : List Handle} (l : Lookup) (hn : NetOk N l.target) (nodes : List Handle) (d : Bytes)
    (hc : CandInv N l.target l.sorted) (hsub : ∀ h ∈ nodes, h ∈ N) (hne : nodes ≠ []) :
    AbsRes N l nodes (l.absorbNodes nodes d) := by
  unfold Lookup.absorbNodes
  rw [if_neg (by simpa using hne)]
  simp only
  split
  · rename_i hlt
    -- the answer names a node closer than the distance to beat
    have r := foldl_insert_res hn (fun n => (pickIterate (nodes.filter (fun n => !l.requested.contains n)) l.target).any (fun p => p.1 = n))
      nodes l.sorted hc hsub
    have hfresh : nodes.filter (fun n => !l.requested.contains n) ≠ [] := by
      intro hnil
      rw [hnil] at hlt
      simp [bytesLtB, bytesCmp_refl] at hlt
    refine ⟨rfl, rfl, rfl, rfl, ⟨rfl, rfl, rfl, rfl, rfl, rfl⟩, r.inv, r.keep, r.has, r.same, fun e he => ?_, fun picks hp => ?_⟩
    · rcases r.fresh e he with h1 | ⟨h1, h2⟩
      · exact Or.inl h1
      · refine Or.inr (fun hfl => ⟨_, rfl, ?_⟩)
        rw [hfl] at h2
        obtain ⟨p, hp, hpe⟩ := List.any_eq_true.mp h2.symm
        have hpe' : p.1 = e.2.1 := by simpa using hpe
        refine ⟨p, hp, ?_, hpe'⟩
        cases hu : p.2 with
        | true => rfl
        | false =>
          have := pickIterate_unused _ _ p hp hu
          rw [hpe'] at this
          exact absurd (this ▸ hsub _ h1) hn.noDummy
    · simp only [Option.some.injEq] at hp
      subst hp
      refine ⟨pickIterate_some_used _ _ hfresh, fun p hp hu => ?_⟩
      exact (List.mem_filter.mp (pickIterate_used _ _ p hp hu)).1
  · have r := foldl_insert_res hn (fun _ => false) nodes l.sorted hc hsub
    refine ⟨rfl, rfl, rfl, rfl, ⟨rfl, rfl, rfl, rfl, rfl, rfl⟩, r.inv, r.keep, r.has, r.same, fun e he => ?_, fun picks hp => by cases hp⟩
    rcases r.fresh e he with h1 | ⟨_, h2⟩
    · exact Or.inl h1
    · exact Or.inr (fun hfl => by rw [hfl] at h2; cases h2)

/-! ### continuing the search after an answer (outside the end-game) -/

/-- the iterative round, every send succeeding -/
structure IterRes (l : Lookup) (env : LEnv) (log : QLog) (ans : List Tid) (it : Option (List (Handle × Bool)))
    (r : Lookup × LEnv × List Effect) : Prop where
  fails : r.2.1.sendFails = env.sendFails
  now : r.2.1.now = env.now
  st : Static l r.1
  sorted : r.1.sorted = l.sorted
  tokens : r.1.tokens = l.tokens
  eg : r.1.inEndgame = l.inEndgame
  q : QInv r.1 (log ++ queriesOf env.now r.2.2) ans
  picked : ∀ picks, it = some picks → ∀ p ∈ picks, p.2 = true → ∃ q ∈ queriesOf env.now r.2.2, q.2.1 = p.1.addr
  src : ∀ q ∈ queriesOf env.now r.2.2, q.2.2 = env.now ∧ ∃ picks, it = some picks ∧ ∃ p ∈ picks, p.2 = true ∧ q.2.1 = p.1.addr

theorem iterRound_res (l : Lookup) (env : LEnv) (log : QLog) (ans : List Tid) (it : Option (List (Handle × Bool))) (nd : Bytes)
    (hf : ∀ a, env.sendFails a = false) (hq : QInv l log ans)
    (hit : ∀ picks, it = some picks → ∃ p ∈ picks, p.2 = true) :
    IterRes l env log ans it (l.iterRound env it nd) := by
  unfold Lookup.iterRound
  cases it with
  | none =>
    exact ⟨rfl, rfl, Static.refl l, rfl, rfl, rfl, by simpa [queriesOf_nil] using hq, fun picks h => (by cases h),
      fun q h => by simp [queriesOf_nil] at h⟩
  | some picks =>
    simp only
    obtain ⟨p0, hp0, hu0⟩ := hit picks rfl
    have hne : (picks.filter (fun (p : Handle × Bool) => p.2)).map (fun (p : Handle × Bool) => (p.1, nd)) ≠ [] := by
      intro hnil
      have : (p0.1, nd) ∈ (picks.filter (fun (p : Handle × Bool) => p.2)).map (fun (p : Handle × Bool) => (p.1, nd)) :=
        List.mem_map.mpr ⟨p0, List.mem_filter.mpr ⟨hp0, hu0⟩, rfl⟩
      rw [hnil] at this
      simp at this
    have r := requestRound_ok l env log ans _ hf hq hne
    refine ⟨r.fails, r.now, r.st, r.sorted, r.tokens, r.eg, r.q, fun picks' h p hp hu => ?_, fun q hqm => ?_⟩
    · simp only [Option.some.injEq] at h
      subst h
      exact r.cover (p.1, nd) (List.mem_map.mpr ⟨p, List.mem_filter.mpr ⟨hp, hu⟩, rfl⟩)
    · obtain ⟨h1, hd, hhd, h2⟩ := r.src q hqm
      obtain ⟨p, hp, rfl⟩ := List.mem_map.mp hhd
      obtain ⟨hp1, hp2⟩ := List.mem_filter.mp hp
      exact ⟨h1, picks, rfl, p, hp1, hp2, h2⟩

/-- continuing the search outside the end-game, every send succeeding: the picked nodes are
queried; if nothing is outstanding then, the end-game round queries every candidate not queried yet -/
structure ContRes (l : Lookup) (env : LEnv) (log : QLog) (ans : List Tid) (it : Option (List (Handle × Bool)))
    (r : Lookup × LEnv × List Effect) : Prop where
  st : Static l r.1
  tokens : r.1.tokens = l.tokens
  q : QInv r.1 (log ++ queriesOf env.now r.2.2) ans
  picked : ∀ picks, it = some picks → ∀ p ∈ picks, p.2 = true → ∃ q ∈ queriesOf env.now r.2.2, q.2.1 = p.1.addr
  src : ∀ q ∈ queriesOf env.now r.2.2, q.2.2 = env.now ∧
    ((∃ picks, it = some picks ∧ ∃ p ∈ picks, p.2 = true ∧ q.2.1 = p.1.addr) ∨ ∃ e ∈ l.sorted, q.2.1 = e.2.1.addr)
  phase : (r.1.inEndgame = false ∧ r.1.active ≠ [] ∧ r.1.sorted = l.sorted) ∨
    (r.1.inEndgame = true ∧ r.1.sorted = l.sorted.map (fun e => (e.1, e.2.1, true)) ∧
      ∀ e ∈ l.sorted, e.2.2 = false → ∃ q ∈ queriesOf env.now r.2.2, q.2.1 = e.2.1.addr)

theorem continueSearch_res (l : Lookup) (env : LEnv) (log : QLog) (ans : List Tid) (it : Option (List (Handle × Bool))) (nd : Bytes)
    (hf : ∀ a, env.sendFails a = false) (hq : QInv l log ans) (heg : l.inEndgame = false)
    (hit : ∀ picks, it = some picks → ∃ p ∈ picks, p.2 = true) :
    ContRes l env log ans it (l.continueSearch env it nd) := by
  have h1 := iterRound_res l env log ans it nd hf hq hit
  unfold Lookup.continueSearch
  rw [if_pos (by simp [heg])]
  simp only
  generalize l.iterRound env it nd = r1 at h1
  by_cases hemp : r1.1.active.isEmpty = true
  · rw [if_pos hemp]
    have h2 := endgameRound_ok r1.1 r1.2.1 (log ++ queriesOf env.now r1.2.2) ans (fun a => by rw [h1.fails]; exact hf a) h1.q
    generalize r1.1.endgameRound r1.2.1 = r2 at h2
    have hq2 := h2.q
    have hc2 := h2.cover
    have hs2 := h2.src
    rw [h1.now] at hq2 hc2 hs2
    rw [List.append_assoc, ← queriesOf_append] at hq2
    refine ⟨h1.st.trans h2.st, h2.tokens.trans h1.tokens, hq2, fun picks hp p hpm hu => ?_, fun q hqm => ?_, Or.inr ⟨h2.eg, ?_, fun e he hfl => ?_⟩⟩
    · obtain ⟨q, hq1, hq2⟩ := h1.picked picks hp p hpm hu
      exact ⟨q, by simp only [queriesOf_append]; exact List.mem_append_left _ hq1, hq2⟩
    · simp only [queriesOf_append] at hqm
      rcases List.mem_append.mp hqm with hqm | hqm
      · obtain ⟨a1, a2⟩ := h1.src q hqm
        exact ⟨a1, Or.inl a2⟩
      · obtain ⟨a1, e, he, a2⟩ := hs2 q hqm
        exact ⟨a1, Or.inr ⟨e, h1.sorted ▸ he, a2⟩⟩
    · rw [h2.sorted, h1.sorted]
    · obtain ⟨q, hq1, hq2⟩ := hc2 e (by rw [h1.sorted]; exact he) hfl
      exact ⟨q, by simp only [queriesOf_append]; exact List.mem_append_right _ hq1, hq2⟩
  · rw [if_neg hemp]
    refine ⟨h1.st, h1.tokens, h1.q, h1.picked, fun q hqm => ?_, Or.inl ⟨h1.eg.trans heg, by simpa using hemp, h1.sorted⟩⟩
    obtain ⟨a1, a2⟩ := h1.src q hqm
    exact ⟨a1, Or.inl a2⟩

/-! ### the invariant of the closed loop -/

structure RInv (N : List Handle) (tok : Handle → Bytes) (target : Bytes) (c : RCfg) : Prop where
  tgt : c.l.target = target
  q : QInv c.l c.log c.answered
  cand : CandInv N target c.l.sorted
  /-- the recorded tokens are those the nodes issued -/
  toks : ∀ p ∈ c.l.tokens, p.1 ∈ N ∧ p.2 = tok p.1
  /-- a node whose answer was handled has its token recorded -/
  ansTok : ∀ q ∈ c.log, q.1 ∈ c.answered → ∀ h ∈ N, h.addr = q.2.1 → c.l.tokens.any (·.1 = h) = true
  /-- only answers to queries that went out are handled -/
  ansLog : ∀ t ∈ c.answered, ∃ q ∈ c.log, q.1 = t
  /-- a candidate marked as queried was sent a query -/
  flags : ∀ e ∈ c.l.sorted, e.2.2 = true → ∃ q ∈ c.log, q.2.1 = e.2.1.addr
  /-- queries went to nodes of the network, in the past -/
  dst : ∀ q ∈ c.log, (∃ h ∈ N, h.addr = q.2.1) ∧ q.2.2 ≤ c.now
  /-- outside the end-game something is outstanding -/
  reg : c.l.inEndgame = false → c.egAt = none ∧ c.l.active ≠ []
  /-- in the end-game: nothing was sent after it started, the 8 closest nodes are candidates, and
  every candidate was queried -/
  eg : c.l.inEndgame = true → (∃ t, c.egAt = some t ∧ ∀ q ∈ c.log, q.2.2 ≤ t) ∧
    (∀ x ∈ closest8 target N, x ∈ c.l.sorted.map (·.2.1)) ∧ (∀ e ∈ c.l.sorted, e.2.2 = true)

/-- a query timeout that is not early finds its query answered: it changes nothing -/
theorem step_timeout {N : List Handle} {tok : Handle → Bytes} {target : Bytes} {D : Nat} (hD : D < Constants.LOOKUP_TIMEOUT_ns)
    (c : RCfg) (env : LEnv) (tid : Tid) (hinv : RInv N tok target c) (hadm : Admissible N tok target D c env (.timeout tid)) :
    RInv N tok target (c.step env (.timeout tid)) ∧ (c.step env (.timeout tid)).l = c.l := by
  obtain ⟨⟨tid', a, u⟩, hlog, htid', hdue⟩ := hadm.ev
  simp only at htid' hdue
  rw [htid'] at hlog
  -- the query was answered
  have hans : tid ∈ c.answered := by
    apply Classical.byContradiction
    intro hna
    have := hadm.timely (tid, a, u) hlog hna (hinv.dst _ hlog).1
    simp only at this
    omega
  have hnone : c.l.active.find? (·.1 = tid) = none := by
    apply List.find?_eq_none.mpr
    intro e he hc
    have : e.1 = tid := by simpa using hc
    exact hinv.q.nans e he (this ▸ hans)
  have hstep : c.l.recvTimeout env tid = (c.l, env, []) := by
    unfold Lookup.recvTimeout
    rw [hnone]
  have hcfg : c.step env (.timeout tid) = { c with now := env.now } := by
    unfold RCfg.step
    simp only [hstep, queriesOf_nil, List.append_nil]
    cases c.l.inEndgame <;> simp
  rw [hcfg]
  exact ⟨⟨hinv.tgt, hinv.q, hinv.cand, hinv.toks, hinv.ansTok, hinv.ansLog, hinv.flags,
    fun q hq => ⟨(hinv.dst q hq).1, Nat.le_trans (hinv.dst q hq).2 hadm.mono⟩, hinv.reg, hinv.eg⟩, rfl⟩

/-! ### an accepted truthful answer -/

theorem recordToken_some (l : Lookup) (h : Handle) (t : Bytes) (hlen : t.length ≤ Constants.MAX_TOKEN_LEN) :
    l.recordToken h (some t) = { l with tokens := l.tokens.filter (·.1 ≠ h) ++ [(h, t)] } := by
  unfold Lookup.recordToken
  simp only
  rw [if_pos hlen]

theorem queriesOf_yields (now : Nat) (effs : List Effect) (st : Nat) (vals : List Addr) :
    queriesOf now (effs ++ vals.map (fun a => Effect.yield st a)) = queriesOf now effs := by
  rw [queriesOf_append]
  have : queriesOf now (vals.map (fun a => Effect.yield st a)) = [] := by
    unfold queriesOf
    apply List.filterMap_eq_nil_iff.mpr
    intro e he
    obtain ⟨a, _, rfl⟩ := List.mem_map.mp he
    rfl
  rw [this, List.append_nil]

/-- the part of `recv_response` after the id was found outstanding and removed -/
def respCore (l1 : Lookup) (env1 : LEnv) (h : Handle) (rsp : Resp) (d : Bytes) : Lookup × LEnv × List Effect :=
  ((l1.recordToken h rsp.token).absorbNodes (if (l1.recordToken h rsp.token).v6 then rsp.nodes6 else rsp.nodes4) d).1.continueSearch env1
    ((l1.recordToken h rsp.token).absorbNodes (if (l1.recordToken h rsp.token).v6 then rsp.nodes6 else rsp.nodes4) d).2.1
    ((l1.recordToken h rsp.token).absorbNodes (if (l1.recordToken h rsp.token).v6 then rsp.nodes6 else rsp.nodes4) d).2.2

theorem recvResponse_core (l : Lookup) (env : LEnv) (h : Handle) (tid : Tid) (rsp : Resp)
    (entry : Tid × Bytes × (Nat × Nat)) (hfind : l.active.find? (·.1 = tid) = some entry) :
    ∃ env1 : LEnv, env1.sendFails = env.sendFails ∧ env1.now = env.now ∧
      l.recvResponse env h tid rsp =
        ((respCore { l with active := l.active.filter (·.1 ≠ tid) } env1 h rsp entry.2.1).1,
         (respCore { l with active := l.active.filter (·.1 ≠ tid) } env1 h rsp entry.2.1).2.1,
         (respCore { l with active := l.active.filter (·.1 ≠ tid) } env1 h rsp entry.2.1).2.2 ++
           rsp.values.map (fun a => .yield l.stream a)) := by
  refine ⟨if !l.inEndgame then { env with timer := (env.timer.cancel entry.2.2).1 } else env, ?_, ?_, ?_⟩
  · split <;> rfl
  · split <;> rfl
  · unfold Lookup.recvResponse respCore
    simp only [hfind]

/-- what handling a truthful answer gives, after the id was removed from the outstanding ones -/
structure CoreRes (N : List Handle) (tok : Handle → Bytes) (l1 : Lookup) (env1 : LEnv) (log : QLog) (ans : List Tid) (h : Handle)
    (r : Lookup × LEnv × List Effect) : Prop where
  st : Static l1 r.1
  q : QInv r.1 (log ++ queriesOf env1.now r.2.2) ans
  cand : CandInv N l1.target r.1.sorted
  tokens : r.1.tokens = l1.tokens.filter (·.1 ≠ h) ++ [(h, tok h)]
  flags : ∀ e ∈ r.1.sorted, e.2.2 = true → ∃ q ∈ log ++ queriesOf env1.now r.2.2, q.2.1 = e.2.1.addr
  src : ∀ q ∈ queriesOf env1.now r.2.2, q.2.2 = env1.now ∧ ∃ x ∈ N, x.addr = q.2.1
  has : ∀ x ∈ closest8 l1.target N, x ∈ r.1.sorted.map (·.2.1)
  phaseEg : l1.inEndgame = true → r.1.inEndgame = true ∧ r.2.2 = [] ∧ r.1.sorted = l1.sorted
  phaseReg : l1.inEndgame = false → (r.1.inEndgame = false ∧ r.1.active ≠ []) ∨
    (r.1.inEndgame = true ∧ ∀ e ∈ r.1.sorted, e.2.2 = true)

theorem closest8_ne_nil {N : List Handle} {h : Handle} (target : Bytes) (hh : h ∈ N) : closest8 target N ≠ [] := by
  unfold closest8 closestK
  intro hnil
  rcases List.take_eq_nil_iff.mp hnil with h0 | h0
  · cases h0
  · have := (sortDist_perm target N).symm.subset hh
    rw [h0] at this
    simp at this

theorem candInv_flags {N : List Handle} {target : Bytes} {nodes : List (Bytes × Handle × Bool)} (h : CandInv N target nodes) :
    CandInv N target (nodes.map (fun e => (e.1, e.2.1, true))) := by
  refine ⟨candOk_flags target nodes _ h.ok (by simp [List.map_map, Function.comp_def]), fun e he => ?_, ?_⟩
  · obtain ⟨e0, he0, rfl⟩ := List.mem_map.mp he
    exact h.sub e0 he0
  · have : (nodes.map (fun e => (e.1, e.2.1, true))).map (·.2.1) = nodes.map (·.2.1) := by
      simp [List.map_map, Function.comp_def]
    rw [this]; exact h.nodup

theorem qinv_transfer {l l' : Lookup} {log : QLog} {ans : List Tid} (h : QInv l log ans)
    (h1 : l'.aid = l.aid) (h2 : l'.nextSeq = l.nextSeq) (h3 : l'.active = l.active) : QInv l' log ans :=
  ⟨fun q hq => by rw [h1, h2]; exact h.seq q hq, fun q hq hna => by rw [h3]; exact h.act q hq hna,
   fun e he => h.nans e (h3 ▸ he), fun t ht => by rw [h2]; exact h.aseq t ht, h.uniq, fun e he => h.alog e (h3 ▸ he)⟩

/-- in the end-game an answer only records the token: the candidates are all known already -/
theorem respCore_eg {N : List Handle} {tok : Handle → Bytes} (l1 : Lookup) (env1 : LEnv) (log : QLog) (ans : List Tid)
    (h : Handle) (rsp : Resp) (d : Bytes)
    (hn : NetOk N l1.target) (htok : (tok h).length ≤ Constants.MAX_TOKEN_LEN) (hh : h ∈ N)
    (htr : Truthful N tok l1.target l1.v6 h rsp)
    (hq : QInv l1 log ans) (hc : CandInv N l1.target l1.sorted)
    (hflags : ∀ e ∈ l1.sorted, e.2.2 = true → ∃ q ∈ log, q.2.1 = e.2.1.addr)
    (heg : l1.inEndgame = true) (hhas : ∀ x ∈ closest8 l1.target N, x ∈ l1.sorted.map (·.2.1)) :
    CoreRes N tok l1 env1 log ans h (respCore l1 env1 h rsp d) := by
  unfold respCore
  rw [htr.token, recordToken_some _ _ _ htok]
  simp only
  have hsubN : ∀ x ∈ (if l1.v6 = true then rsp.nodes6 else rsp.nodes4), x ∈ N :=
    fun x hx => mem_closestK (htr.nodes.subset hx)
  have hne : (if l1.v6 = true then rsp.nodes6 else rsp.nodes4) ≠ [] := by
    intro hnil
    have := htr.nodes
    rw [hnil] at this
    exact closest8_ne_nil l1.target hh (List.perm_nil.mp this.symm ▸ rfl)
  have A := absorbNodes_res { l1 with tokens := l1.tokens.filter (·.1 ≠ h) ++ [(h, tok h)] } hn _ d hc hsubN hne
  generalize ({ l1 with tokens := l1.tokens.filter (·.1 ≠ h) ++ [(h, tok h)] } : Lookup).absorbNodes
    (if l1.v6 = true then rsp.nodes6 else rsp.nodes4) d = A' at A
  have hsame := A.same (fun x hx => hhas x (htr.nodes.subset hx))
  have hcs : A'.1.continueSearch env1 A'.2.1 A'.2.2 = (A'.1, env1, []) := by
    unfold Lookup.continueSearch
    rw [if_neg (by rw [A.eg]; simp [heg])]
  rw [hcs]
  simp only at hsame
  refine ⟨⟨A.st.aid, A.st.selfId, A.st.v6, A.st.target, A.st.ann, A.st.stream⟩, ?_, hsame ▸ hc, A.tokens, fun e he hfl => ?_, fun q hqm => by simp [queriesOf_nil] at hqm, ?_,
    fun _ => ⟨A.eg.trans heg, rfl, hsame⟩, fun hc' => by rw [heg] at hc'; cases hc'⟩
  · simp only [queriesOf_nil, List.append_nil]
    exact qinv_transfer hq A.st.aid A.nextSeq A.active
  · simp only at he
    rw [hsame] at he
    obtain ⟨q, hq1, hq2⟩ := hflags e he hfl
    exact ⟨q, List.mem_append_left _ hq1, hq2⟩
  · simp only
    rw [hsame]; exact hhas

/-- outside the end-game an answer makes the 8 closest nodes candidates; those picked are queried
at once, and if nothing is outstanding then, the end-game round queries all the others -/
theorem respCore_reg {N : List Handle} {tok : Handle → Bytes} (l1 : Lookup) (env1 : LEnv) (log : QLog) (ans : List Tid)
    (h : Handle) (rsp : Resp) (d : Bytes)
    (hn : NetOk N l1.target) (htok : (tok h).length ≤ Constants.MAX_TOKEN_LEN) (hh : h ∈ N)
    (htr : Truthful N tok l1.target l1.v6 h rsp) (hf : ∀ a, env1.sendFails a = false)
    (hq : QInv l1 log ans) (hc : CandInv N l1.target l1.sorted)
    (hflags : ∀ e ∈ l1.sorted, e.2.2 = true → ∃ q ∈ log, q.2.1 = e.2.1.addr)
    (heg : l1.inEndgame = false) :
    CoreRes N tok l1 env1 log ans h (respCore l1 env1 h rsp d) := by
  unfold respCore
  rw [htr.token, recordToken_some _ _ _ htok]
  simp only
  have hsubN : ∀ x ∈ (if l1.v6 = true then rsp.nodes6 else rsp.nodes4), x ∈ N :=
    fun x hx => mem_closestK (htr.nodes.subset hx)
  have hne : (if l1.v6 = true then rsp.nodes6 else rsp.nodes4) ≠ [] := by
    intro hnil
    have := htr.nodes
    rw [hnil] at this
    exact closest8_ne_nil l1.target hh (List.perm_nil.mp this.symm ▸ rfl)
  have A := absorbNodes_res { l1 with tokens := l1.tokens.filter (·.1 ≠ h) ++ [(h, tok h)] } hn _ d hc hsubN hne
  generalize ({ l1 with tokens := l1.tokens.filter (·.1 ≠ h) ++ [(h, tok h)] } : Lookup).absorbNodes
    (if l1.v6 = true then rsp.nodes6 else rsp.nodes4) d = A' at A
  have hqA : QInv A'.1 log ans := qinv_transfer hq A.st.aid A.nextSeq A.active
  have C := continueSearch_res A'.1 env1 log ans A'.2.1 A'.2.2 hf hqA (A.eg.trans heg) (fun picks hp => (A.picks picks hp).1)
  generalize A'.1.continueSearch env1 A'.2.1 A'.2.2 = r at C
  have hAinv : CandInv N l1.target A'.1.sorted := A.inv
  -- a candidate marked as queried after the bookkeeping was, or is now, sent a query
  have hAfl : ∀ e0 ∈ A'.1.sorted, e0.2.2 = true → ∃ q ∈ log ++ queriesOf env1.now r.2.2, q.2.1 = e0.2.1.addr := by
    intro e0 he0 hfl
    rcases A.fresh e0 he0 with hold | hnew
    · obtain ⟨q, hq1, hq2⟩ := hflags e0 hold hfl
      exact ⟨q, List.mem_append_left _ hq1, hq2⟩
    · obtain ⟨picks, hp, p, hpm, hu, hpe⟩ := hnew hfl
      obtain ⟨q, hq1, hq2⟩ := C.picked picks hp p hpm hu
      exact ⟨q, List.mem_append_right _ hq1, by rw [hq2, hpe]⟩
  have hAhas : ∀ x ∈ closest8 l1.target N, x ∈ A'.1.sorted.map (·.2.1) :=
    fun x hx => A.has x (htr.nodes.symm.subset hx)
  have hst : Static l1 r.1 :=
    Static.trans (a := l1) ⟨A.st.aid, A.st.selfId, A.st.v6, A.st.target, A.st.ann, A.st.stream⟩ C.st
  refine ⟨hst, C.q, ?_, C.tokens.trans A.tokens, ?_, fun q hqm => ?_, ?_, fun hc' => (by rw [heg] at hc'; cases hc'), fun _ => ?_⟩
  · rcases C.phase with ⟨_, _, hs⟩ | ⟨_, hs, _⟩
    · rw [hs]; exact hAinv
    · rw [hs]; exact candInv_flags hAinv
  · intro e he hfl
    rcases C.phase with ⟨_, _, hs⟩ | ⟨_, hs, hcov⟩
    · rw [hs] at he; exact hAfl e he hfl
    · rw [hs] at he
      obtain ⟨e0, he0, rfl⟩ := List.mem_map.mp he
      cases hfl0 : e0.2.2 with
      | true => exact hAfl e0 he0 hfl0
      | false =>
        obtain ⟨q, hq1, hq2⟩ := hcov e0 he0 hfl0
        exact ⟨q, List.mem_append_right _ hq1, hq2⟩
  · obtain ⟨h1, h2⟩ := C.src q hqm
    refine ⟨h1, ?_⟩
    rcases h2 with ⟨picks, hp, p, hpm, hu, hpe⟩ | ⟨e, he, hpe⟩
    · exact ⟨p.1, hsubN _ ((A.picks picks hp).2 p hpm hu), hpe.symm⟩
    · exact ⟨e.2.1, hAinv.sub e he, hpe.symm⟩
  · intro x hx
    rcases C.phase with ⟨_, _, hs⟩ | ⟨_, hs, _⟩
    · rw [hs]; exact hAhas x hx
    · rw [hs]
      have : (A'.1.sorted.map (fun e => (e.1, e.2.1, true))).map (·.2.1) = A'.1.sorted.map (·.2.1) := by
        simp [List.map_map, Function.comp_def]
      rw [this]; exact hAhas x hx
  · rcases C.phase with ⟨h1, h2, _⟩ | ⟨h1, hs, _⟩
    · exact Or.inl ⟨h1, h2⟩
    · refine Or.inr ⟨h1, fun e he => ?_⟩
      rw [hs] at he
      obtain ⟨e0, _, rfl⟩ := List.mem_map.mp he
      rfl

/-- the invariant after an accepted truthful answer, from the description of what handling it does -/
theorem rinv_of_core {N : List Handle} {tok : Handle → Bytes} (c : RCfg) (env env1 : LEnv) (h : Handle) (tid : Tid) (u : Nat)
    (r : Lookup × LEnv × List Effect)
    (hn : NetOk N c.l.target) (hinv : RInv N tok c.l.target c) (hmono : c.now ≤ env.now) (hn1 : env1.now = env.now)
    (hhN : h ∈ N) (hlog : (tid, h.addr, u) ∈ c.log)
    (hcore : CoreRes N tok { c.l with active := c.l.active.filter (·.1 ≠ tid) } env1 c.log (tid :: c.answered) h r) :
    RInv N tok c.l.target
      { l := r.1, now := env.now, log := c.log ++ queriesOf env.now r.2.2, answered := tid :: c.answered,
        egAt := (if !c.l.inEndgame && r.1.inEndgame then some env.now else c.egAt) } := by
  have hq := hcore.q
  have hflags := hcore.flags
  have hsrc := hcore.src
  have htoks := hcore.tokens
  have hpe := hcore.phaseEg
  have hpr := hcore.phaseReg
  rw [hn1] at hq hflags hsrc
  simp only at htoks hpe hpr
  -- the recorded tokens after the answer
  have hany : ∀ x, (c.l.tokens.any (·.1 = x) = true ∨ x = h) → r.1.tokens.any (·.1 = x) = true := by
    intro x hx
    rw [htoks, List.any_append]
    by_cases hxh : x = h
    · subst hxh; simp
    · rcases hx with hx | hx
      · obtain ⟨p, hp, hpx⟩ := List.any_eq_true.mp hx
        have hpx' : p.1 = x := by simpa using hpx
        have : (c.l.tokens.filter (·.1 ≠ h)).any (·.1 = x) = true :=
          List.any_eq_true.mpr ⟨p, List.mem_filter.mpr ⟨hp, by simp [hpx', hxh]⟩, hpx⟩
        rw [this]; rfl
      · exact absurd hx hxh
  refine ⟨hcore.st.target, hq, hcore.cand, fun p hp => ?_, fun q hqm hans x hx hxa => ?_, fun t ht => ?_, hflags,
    fun q hqm => ?_, fun hreg => ?_, fun heg => ?_⟩
  · simp only at hp
    rw [htoks] at hp
    rcases List.mem_append.mp hp with hp | hp
    · exact hinv.toks p (List.mem_filter.mp hp).1
    · rw [List.mem_singleton.mp hp]; exact ⟨hhN, rfl⟩
  · -- the query with this id in the old log
    simp only at hqm hans ⊢
    have hold : ∃ q0 ∈ c.log, q0.1 = q.1 := by
      rcases List.mem_cons.mp hans with ht | ht
      · exact ⟨_, hlog, ht.symm⟩
      · exact hinv.ansLog _ ht
    obtain ⟨q0, hq0, hq0t⟩ := hold
    have haddr : q0.2.1 = q.2.1 := hq.uniq q0 (List.mem_append_left _ hq0) q hqm hq0t
    apply hany
    rcases List.mem_cons.mp hans with ht | ht
    · right
      have : q0.2.1 = h.addr := hinv.q.uniq q0 hq0 _ hlog (hq0t.trans ht)
      exact hn.addr_inj hx hhN (by rw [hxa, ← haddr, this])
    · left
      exact hinv.ansTok q0 hq0 (hq0t ▸ ht) x hx (by rw [hxa, haddr])
  · simp only at ht ⊢
    rcases List.mem_cons.mp ht with ht | ht
    · exact ⟨_, List.mem_append_left _ hlog, ht.symm⟩
    · obtain ⟨q, hq1, hq2⟩ := hinv.ansLog t ht
      exact ⟨q, List.mem_append_left _ hq1, hq2⟩
  · simp only at hqm ⊢
    rcases List.mem_append.mp hqm with hqm | hqm
    · exact ⟨(hinv.dst q hqm).1, Nat.le_trans (hinv.dst q hqm).2 hmono⟩
    · obtain ⟨h1, h2⟩ := hsrc q hqm
      exact ⟨h2, by rw [h1]; exact Nat.le_refl _⟩
  · simp only at hreg ⊢
    cases hold : c.l.inEndgame with
    | true => have := (hpe hold).1; rw [hreg] at this; cases this
    | false =>
      rcases hpr hold with ⟨_, h2⟩ | ⟨h1, _⟩
      · exact ⟨by simp [hreg, (hinv.reg hold).1], h2⟩
      · rw [hreg] at h1; cases h1
  · simp only at heg ⊢
    refine ⟨?_, hcore.has, ?_⟩
    · cases hold : c.l.inEndgame with
      | true =>
        obtain ⟨t, ht1, ht2⟩ := (hinv.eg hold).1
        refine ⟨t, by simp [ht1], fun q hqm => ?_⟩
        rw [(hpe hold).2.1, queriesOf_nil, List.append_nil] at hqm
        exact ht2 q hqm
      | false =>
        refine ⟨env.now, by simp [heg], fun q hqm => ?_⟩
        rcases List.mem_append.mp hqm with hqm | hqm
        · exact Nat.le_trans (hinv.dst q hqm).2 hmono
        · rw [(hsrc q hqm).1]; exact Nat.le_refl _
    · cases hold : c.l.inEndgame with
      | true => rw [(hpe hold).2.2]; exact (hinv.eg hold).2.2
      | false =>
        rcases hpr hold with ⟨h1, _⟩ | ⟨_, h2⟩
        · rw [heg] at h1; cases h1
        · exact h2

/-- **the first admissible answer to a query keeps the invariant** -/
theorem step_resp_fresh {N : List Handle} {tok : Handle → Bytes} {target : Bytes} {D : Nat} (hn : NetOk N target)
    (htl : ∀ h ∈ N, (tok h).length ≤ Constants.MAX_TOKEN_LEN)
    (c : RCfg) (env : LEnv) (h : Handle) (tid : Tid) (rsp : Resp) (hinv : RInv N tok target c)
    (hadm : Admissible N tok target D c env (.resp h tid rsp)) (hna : tid ∉ c.answered) :
    RInv N tok target (c.step env (.resp h tid rsp)) ∧ Static c.l (c.step env (.resp h tid rsp)).l := by
  obtain ⟨hhN, ⟨⟨tid', a, u⟩, hlog, htid', ha⟩, htr⟩ := hadm.ev
  simp only at htid' ha
  rw [htid', ha] at hlog
  have htgt := hinv.tgt
  subst htgt
  -- the id is outstanding
  obtain ⟨e0, he0, he0t⟩ := hinv.q.act _ hlog hna
  simp only at he0t
  cases hfind : c.l.active.find? (·.1 = tid) with
  | none =>
    have := List.find?_eq_none.mp hfind e0 he0
    simp [he0t] at this
  | some entry =>
    obtain ⟨env1, hf1, hn1, heq⟩ := recvResponse_core c.l env h tid rsp entry hfind
    have hf : ∀ a, env1.sendFails a = false := fun a => by rw [hf1]; exact hadm.sends a
    -- the bookkeeping of outstanding queries once the id is removed
    have hq1 : QInv { c.l with active := c.l.active.filter (·.1 ≠ tid) } c.log (tid :: c.answered) := by
      refine ⟨hinv.q.seq, fun q hq hnans => ?_, fun e he => ?_, fun t ht => ?_, hinv.q.uniq,
        fun e he => hinv.q.alog e (List.mem_filter.mp he).1⟩
      · have hne : q.1 ≠ tid := fun hc => hnans (hc ▸ List.mem_cons_self)
        obtain ⟨e, he, het⟩ := hinv.q.act q hq (fun hc => hnans (List.mem_cons_of_mem _ hc))
        exact ⟨e, List.mem_filter.mpr ⟨he, by simp [het, hne]⟩, het⟩
      · obtain ⟨he1, he2⟩ := List.mem_filter.mp he
        intro hc
        rcases List.mem_cons.mp hc with hc | hc
        · simp [hc] at he2
        · exact hinv.q.nans e he1 hc
      · rcases List.mem_cons.mp ht with ht | ht
        · rw [ht]; exact (hinv.q.seq _ hlog).2
        · exact hinv.q.aseq t ht
    have hcore : CoreRes N tok { c.l with active := c.l.active.filter (·.1 ≠ tid) } env1 c.log (tid :: c.answered) h
        (respCore { c.l with active := c.l.active.filter (·.1 ≠ tid) } env1 h rsp entry.2.1) := by
      cases heg : c.l.inEndgame with
      | true =>
        exact respCore_eg _ env1 c.log _ h rsp _ hn (htl h hhN) hhN htr hq1 hinv.cand hinv.flags heg (hinv.eg heg).2.1
      | false =>
        exact respCore_reg _ env1 c.log _ h rsp _ hn (htl h hhN) hhN htr hf hq1 hinv.cand hinv.flags heg
    have hres := rinv_of_core c env env1 h tid u _ hn hinv hadm.mono hn1 hhN hlog hcore
    have hstep : c.step env (.resp h tid rsp) =
        { l := (respCore { c.l with active := c.l.active.filter (·.1 ≠ tid) } env1 h rsp entry.2.1).1, now := env.now,
          log := c.log ++ queriesOf env.now (respCore { c.l with active := c.l.active.filter (·.1 ≠ tid) } env1 h rsp entry.2.1).2.2,
          answered := tid :: c.answered,
          egAt := (if !c.l.inEndgame && (respCore { c.l with active := c.l.active.filter (·.1 ≠ tid) } env1 h rsp entry.2.1).1.inEndgame
            then some env.now else c.egAt) } := by
      unfold RCfg.step
      simp only [heq, queriesOf_yields]
    rw [hstep]
    exact ⟨hres, ⟨hcore.st.aid, hcore.st.selfId, hcore.st.v6, hcore.st.target, hcore.st.ann, hcore.st.stream⟩⟩

/-- a repeated answer to a query that was answered before changes nothing -/
theorem step_resp_dup {N : List Handle} {tok : Handle → Bytes} {target : Bytes} {D : Nat}
    (c : RCfg) (env : LEnv) (h : Handle) (tid : Tid) (rsp : Resp) (hinv : RInv N tok target c)
    (hadm : Admissible N tok target D c env (.resp h tid rsp)) (hans : tid ∈ c.answered) :
    RInv N tok target (c.step env (.resp h tid rsp)) ∧ (c.step env (.resp h tid rsp)).l = c.l := by
  have hnone : c.l.active.find? (·.1 = tid) = none := by
    apply List.find?_eq_none.mpr
    intro e he hc
    have : e.1 = tid := by simpa using hc
    exact hinv.q.nans e he (this ▸ hans)
  have hstep : c.l.recvResponse env h tid rsp = (c.l, env, []) := recvResponse_unknown c.l env h tid rsp hnone
  have hcfg : c.step env (.resp h tid rsp) = { c with now := env.now, answered := tid :: c.answered } := by
    unfold RCfg.step
    simp only [hstep, queriesOf_nil, List.append_nil]
    cases c.l.inEndgame <;> simp
  rw [hcfg]
  have hmem : ∀ t, t ∈ tid :: c.answered ↔ t ∈ c.answered := fun t =>
    ⟨fun ht => by rcases List.mem_cons.mp ht with ht | ht; exact ht ▸ hans; exact ht, fun ht => List.mem_cons_of_mem _ ht⟩
  refine ⟨⟨hinv.tgt, ⟨hinv.q.seq, fun q hq hna => hinv.q.act q hq (fun hc => hna ((hmem _).mpr hc)),
      fun e he hc => hinv.q.nans e he ((hmem _).mp hc), fun t ht => hinv.q.aseq t ((hmem t).mp ht), hinv.q.uniq, hinv.q.alog⟩,
    hinv.cand, hinv.toks, fun q hq ha => hinv.ansTok q hq ((hmem _).mp ha), fun t ht => hinv.ansLog t ((hmem t).mp ht), hinv.flags,
    fun q hq => ⟨(hinv.dst q hq).1, Nat.le_trans (hinv.dst q hq).2 hadm.mono⟩, hinv.reg, hinv.eg⟩, rfl⟩

/-- **an admissible answer keeps the invariant** -/
theorem step_resp {N : List Handle} {tok : Handle → Bytes} {target : Bytes} {D : Nat} (hn : NetOk N target)
    (htl : ∀ h ∈ N, (tok h).length ≤ Constants.MAX_TOKEN_LEN)
    (c : RCfg) (env : LEnv) (h : Handle) (tid : Tid) (rsp : Resp) (hinv : RInv N tok target c)
    (hadm : Admissible N tok target D c env (.resp h tid rsp)) :
    RInv N tok target (c.step env (.resp h tid rsp)) ∧ Static c.l (c.step env (.resp h tid rsp)).l := by
  by_cases hans : tid ∈ c.answered
  · obtain ⟨h1, h2⟩ := step_resp_dup c env h tid rsp hinv hadm hans
    exact ⟨h1, by rw [h2]; exact Static.refl _⟩
  · exact step_resp_fresh hn htl c env h tid rsp hinv hadm hans

/-! ### the end of the search -/

theorem candInv_strict {N : List Handle} {target : Bytes} (hn : NetOk N target) {nodes : List (Bytes × Handle × Bool)}
    (hc : CandInv N target nodes) : (nodes.map (·.2.1)).Pairwise (Closer target) := by
  apply hn.strict (fun x hx => by obtain ⟨e, he, rfl⟩ := List.mem_map.mp hx; exact hc.sub e he) hc.nodup
  unfold DistSorted
  rw [List.pairwise_map]
  have hs := hc.ok.sorted
  unfold SortedKeys at hs
  rw [List.pairwise_map] at hs
  refine hs.imp_of_mem (fun {a b} ha hb hab => ?_)
  unfold distTo
  rw [← hc.ok.dist a ha, ← hc.ok.dist b hb]
  exact hab

/-- when the end-game timer fires (not early) on a timely network, every candidate holds the token
its node issued, and the first 8 candidates are the 8 closest nodes of the network -/
theorem finish_targets {N : List Handle} {tok : Handle → Bytes} {target : Bytes} {D : Nat} (hn : NetOk N target)
    (hD : D < Constants.ENDGAME_TIMEOUT_ns) (c : RCfg) (env : LEnv) (hinv : RInv N tok target c) (hfin : FinishOk N D c env) :
    c.l.announceTargets.map (·.2.1) = closest8 target N ∧
    ∀ e ∈ c.l.sorted, ((c.l.tokens.find? (·.1 = e.2.1)).map (·.2)).getD [] = tok e.2.1 := by
  obtain ⟨t, ht, hdue⟩ := hfin.due
  have heg : c.l.inEndgame = true := by
    cases hc : c.l.inEndgame with
    | true => rfl
    | false => have := (hinv.reg hc).1; rw [ht] at this; cases this
  obtain ⟨⟨t', ht', hle⟩, hhas, hall⟩ := hinv.eg heg
  have htt : t' = t := by rw [ht] at ht'; exact (Option.some.inj ht').symm
  subst htt
  -- every candidate holds a token
  have htokAny : ∀ e ∈ c.l.sorted, c.l.tokens.any (·.1 = e.2.1) = true := by
    intro e he
    obtain ⟨q, hq, hqa⟩ := hinv.flags e he (hall e he)
    have hxN := hinv.cand.sub e he
    have hans : q.1 ∈ c.answered := by
      apply Classical.byContradiction
      intro hna
      have h1 := hfin.timely q hq hna ⟨e.2.1, hxN, hqa.symm⟩
      have h2 := hle q hq
      omega
    exact hinv.ansTok q hq hans e.2.1 hxN hqa.symm
  refine ⟨?_, fun e he => ?_⟩
  · unfold Lookup.announceTargets
    rw [List.filter_eq_self.mpr (fun e he => htokAny e he), List.map_take]
    have h8 : Constants.ANNOUNCE_PICK_NUM = 8 := by decide
    rw [h8]
    exact take_eq_closestK hn 8 _ (candInv_strict hn hinv.cand)
      (fun s hs => by obtain ⟨e, he, rfl⟩ := List.mem_map.mp hs; exact hinv.cand.sub e he) hhas
  · obtain ⟨p, hp, hpe⟩ := List.any_eq_true.mp (htokAny e he)
    cases hf : c.l.tokens.find? (·.1 = e.2.1) with
    | none =>
      have := List.find?_eq_none.mp hf p hp
      exact absurd hpe this
    | some p' =>
      have h1 := List.mem_of_find?_eq_some hf
      have h2 : p'.1 = e.2.1 := by simpa using List.find?_some hf
      simp only [Option.map_some, Option.getD_some]
      rw [(hinv.toks p' h1).2, h2]

/-! ### every truthful run keeps the invariant -/

theorem run_inv {N : List Handle} {tok : Handle → Bytes} {target : Bytes} {D : Nat} (hn : NetOk N target)
    (htl : ∀ h ∈ N, (tok h).length ≤ Constants.MAX_TOKEN_LEN) (hD : D < Constants.LOOKUP_TIMEOUT_ns) :
    ∀ (evs : List (LEnv × ReachEv)) (c : RCfg), RInv N tok target c → TruthfulRun N tok target D c evs →
      RInv N tok target (c.run evs) ∧ Static c.l (c.run evs).l
  | [], c, h, _ => ⟨h, Static.refl _⟩
  | (env, ev) :: rest, c, h, hrun => by
    obtain ⟨hadm, hrest⟩ := hrun
    have hstep : RInv N tok target (c.step env ev) ∧ Static c.l (c.step env ev).l := by
      cases ev with
      | resp x tid rsp => exact step_resp hn htl c env x tid rsp h hadm
      | timeout tid =>
        obtain ⟨h1, h2⟩ := step_timeout hD c env tid h hadm
        exact ⟨h1, by rw [h2]; exact Static.refl _⟩
    obtain ⟨h1, h2⟩ := run_inv hn htl hD rest _ hstep.1 hrest
    exact ⟨h1, hstep.2.trans h2⟩

/-! ### the start of the search -/

/-- the nodes `TableLookup::new` starts from: the (up to 8) good nodes of the routing table closest to the target -/
def goodHandles (env : LEnv) (target : Bytes) : List Handle :=
  (((env.table.closestNodes target env.now).filter (fun n => n.status env.now = .good)).take Constants.MAX_BUCKET_SIZE).map (·.handle)

theorem candInv_same_keys {N : List Handle} {target : Bytes} {nodes nodes' : List (Bytes × Handle × Bool)} (h : CandInv N target nodes)
    (hk : nodes'.map (fun e => (e.1, e.2.1)) = nodes.map (fun e => (e.1, e.2.1))) : CandInv N target nodes' := by
  have hh : nodes'.map (·.2.1) = nodes.map (·.2.1) := by
    have := congrArg (List.map Prod.snd) hk
    simpa [List.map_map, Function.comp_def] using this
  refine ⟨candOk_flags target nodes _ h.ok hk, fun e he => ?_, by rw [hh]; exact h.nodup⟩
  have : e.2.1 ∈ nodes.map (·.2.1) := by rw [← hh]; exact List.mem_map.mpr ⟨e, he, rfl⟩
  obtain ⟨e0, he0, heq⟩ := List.mem_map.mp this
  rw [← heq]; exact h.sub e0 he0

/-- **the invariant holds right after `TableLookup::new`** when the routing table's good nodes are
nodes of the network, there is at least one, and the sends succeed -/
theorem start_inv {N : List Handle} {tok : Handle → Bytes} {target : Bytes} (hn : NetOk N target)
    (aid stream : Nat) (selfId : Bytes) (v6 ann : Bool) (env : LEnv) (hf : ∀ a, env.sendFails a = false)
    (hgood : ∀ h ∈ goodHandles env target, h ∈ N) (hne : goodHandles env target ≠ []) :
    RInv N tok target (RCfg.start (Lookup.new aid stream selfId v6 target ann env) env.now) ∧
    (Lookup.new aid stream selfId v6 target ann env).1.aid = aid ∧
    (Lookup.new aid stream selfId v6 target ann env).1.selfId = selfId ∧
    (Lookup.new aid stream selfId v6 target ann env).1.v6 = v6 ∧
    (Lookup.new aid stream selfId v6 target ann env).1.willAnnounce = ann ∧
    (Lookup.new aid stream selfId v6 target ann env).1.stream = stream := by
  -- the candidate list built from the good nodes
  have R := foldl_insert_res hn (fun _ => false) (goodHandles env target) [] ⟨candOk_nil target, by simp, by simp⟩ hgood
  have hS0 : (goodHandles env target).foldl (fun acc n => insertSorted acc target n false) [] =
      (((env.table.closestNodes target env.now).filter (fun n => n.status env.now = .good)).take Constants.MAX_BUCKET_SIZE).foldl
        (fun acc n => insertSorted acc target n.handle false) [] := by
    unfold goodHandles; rw [List.foldl_map]
  rw [hS0] at R
  unfold Lookup.new
  simp only
  generalize (((env.table.closestNodes target env.now).filter (fun n => n.status env.now = .good)).take Constants.MAX_BUCKET_SIZE).foldl
    (fun acc n => insertSorted acc target n.handle false) [] = S0 at R
  have hS0ne : S0 ≠ [] := by
    obtain ⟨h0, hh0⟩ := List.exists_mem_of_ne_nil _ hne
    intro hnil
    have := R.has h0 hh0
    rw [hnil] at this
    simp at this
  have hunfl : ∀ e ∈ S0, e.2.2 = false := by
    intro e he
    rcases R.fresh e he with h1 | ⟨_, h2⟩
    · simp at h1
    · exact h2
  have hpne : (S0.take Constants.INITIAL_PICK_NUM).map (fun (x : Bytes × Handle × Bool) => (x.2.1, xorBytes x.2.1.id target)) ≠ [] := by
    cases S0 with
    | nil => exact absurd rfl hS0ne
    | cons a t => simp [Constants.INITIAL_PICK_NUM]
  have RR := requestRound_ok
    { aid := aid, nextSeq := 0, selfId := selfId, v6 := v6, target := target, inEndgame := false, willAnnounce := ann,
      active := [], tokens := [], requested := [],
      sorted := (S0.take Constants.INITIAL_PICK_NUM).map (fun (x : Bytes × Handle × Bool) => (x.1, x.2.1, true)) ++
        S0.drop Constants.INITIAL_PICK_NUM, stream := stream }
    env [] [] _ hf ⟨by simp, by simp, by simp, by simp, by simp, by simp⟩ hpne
  generalize Lookup.requestRound _ env _ = r at RR
  have hcand : CandInv N target r.1.sorted := by
    rw [RR.sorted]
    refine candInv_same_keys R.inv ?_
    conv => rhs; rw [← List.take_append_drop Constants.INITIAL_PICK_NUM S0]
    simp [List.map_append, List.map_map, Function.comp_def]
  refine ⟨⟨RR.st.target, by simpa [RCfg.start] using RR.q, hcand, fun p hp => ?_, fun q _ hans => by simp [RCfg.start] at hans,
    fun t ht => by simp [RCfg.start] at ht, fun e he hfl => ?_, fun q hq => ?_, fun _ => ⟨rfl, RR.act⟩, fun heg => ?_⟩,
    RR.st.aid, RR.st.selfId, RR.st.v6, RR.st.ann, RR.st.stream⟩
  · simp only [RCfg.start] at hp; rw [RR.tokens] at hp; simp at hp
  · simp only [RCfg.start] at he ⊢
    rw [RR.sorted] at he
    rcases List.mem_append.mp he with he | he
    · obtain ⟨e0, he0, rfl⟩ := List.mem_map.mp he
      obtain ⟨q, hq1, hq2⟩ := RR.cover (e0.2.1, xorBytes e0.2.1.id target) (List.mem_map.mpr ⟨e0, he0, rfl⟩)
      exact ⟨q, by simpa using hq1, hq2⟩
    · rw [hunfl e (List.mem_of_mem_drop he)] at hfl; cases hfl
  · simp only [RCfg.start] at hq ⊢
    obtain ⟨h1, hd, hhd, h2⟩ := RR.src q (by simpa using hq)
    obtain ⟨e0, he0, rfl⟩ := List.mem_map.mp hhd
    exact ⟨⟨e0.2.1, R.inv.sub e0 (List.mem_of_mem_take he0), h2.symm⟩, by rw [h1]; exact Nat.le_refl _⟩
  · simp only [RCfg.start] at heg; rw [RR.eg] at heg; cases heg

/-! ### the announces of `recv_finished` when every send succeeds -/

/-- the queries among the effects of a step: destination, request, whether the datagram went out -/
def sendsOf (effs : List Effect) : List (Addr × Req × Bool) :=
  effs.filterMap fun e => match e with
    | .send dst _ req ok => some (dst, req, ok)
    | _ => none

theorem recvFinished_sends (l : Lookup) (env : LEnv) (port : Option Nat) (hw : l.willAnnounce = true)
    (hf : ∀ a, env.sendFails a = false) :
    sendsOf (l.recvFinished env port).2.2 = l.announceTargets.map fun e =>
      (e.2.1.addr, Req.announce l.selfId l.target port (((l.tokens.find? (·.1 = e.2.1)).map (·.2)).getD []), true) := by
  unfold Lookup.recvFinished
  simp only [hw, if_true]
  have key : ∀ (ts : List (Bytes × Handle × Bool)) (acc : Lookup × LEnv × List Effect),
      acc.1.selfId = l.selfId → acc.1.target = l.target → acc.1.tokens = l.tokens → acc.2.1.sendFails = env.sendFails →
      sendsOf (ts.foldl (announceStep port) acc).2.2 = sendsOf acc.2.2 ++ ts.map fun e =>
        (e.2.1.addr, Req.announce l.selfId l.target port (((l.tokens.find? (·.1 = e.2.1)).map (·.2)).getD []), true) := by
    intro ts
    induction ts with
    | nil => intro acc _ _ _ _; simp
    | cons e ts ih =>
      intro acc h1 h2 h3 h4
      simp only [List.foldl_cons, List.map_cons]
      have hnf : ¬ (acc.2.1.sendFails e.2.1.addr = true) := by rw [h4, hf]; simp
      have hstep : (announceStep port acc e).1.selfId = l.selfId ∧ (announceStep port acc e).1.target = l.target ∧
          (announceStep port acc e).1.tokens = l.tokens ∧ (announceStep port acc e).2.1.sendFails = env.sendFails ∧
          sendsOf (announceStep port acc e).2.2 = sendsOf acc.2.2 ++
            [(e.2.1.addr, Req.announce l.selfId l.target port (((l.tokens.find? (·.1 = e.2.1)).map (·.2)).getD []), true)] := by
        unfold announceStep
        simp only
        rw [if_neg hnf]
        simp [h1, h2, h3, h4, sendsOf, List.filterMap_append]
      obtain ⟨a1, a2, a3, a4, a5⟩ := hstep
      rw [ih _ a1 a2 a3 a4, a5]
      simp
  have := key l.announceTargets (l, env, []) rfl rfl rfl rfl
  simp only [sendsOf, List.filterMap_nil, List.nil_append] at this
  simp only [sendsOf, List.filterMap_append]
  rw [this]
  simp

/-! ### checking a concrete run (for the non-vacuity witnesses) -/

instance (N : List Handle) (tok : Handle → Bytes) (target : Bytes) (v6 : Bool) (h : Handle) (rsp : Resp) :
    Decidable (Truthful N tok target v6 h rsp) :=
  decidable_of_iff (rsp.id = h.id ∧ rsp.token = some (tok h) ∧ (if v6 then rsp.nodes6 else rsp.nodes4).Perm (closest8 target N))
    ⟨fun ⟨a, b, c⟩ => ⟨a, b, c⟩, fun ⟨a, b, c⟩ => ⟨a, b, c⟩⟩

instance (N : List Handle) (D : Nat) (c : RCfg) (now : Nat) : Decidable (Timely N D c now) := by
  unfold Timely; infer_instance

instance (N : List Handle) (tok : Handle → Bytes) (target : Bytes) (c : RCfg) (now : Nat) (ev : ReachEv) :
    Decidable (EvOk N tok target c now ev) := by
  cases ev <;> (unfold EvOk; infer_instance)

/-- the decidable part of `TruthfulRun` (everything but "every send succeeds"), as a Boolean check -/
def checkRun (N : List Handle) (tok : Handle → Bytes) (target : Bytes) (D : Nat) (c : RCfg) : List (LEnv × ReachEv) → Bool
  | [] => true
  | (env, ev) :: rest =>
    decide (c.now ≤ env.now) && decide (Timely N D c env.now) && decide (EvOk N tok target c env.now ev) &&
      checkRun N tok target D (c.step env ev) rest

theorem truthfulRun_of_check (N : List Handle) (tok : Handle → Bytes) (target : Bytes) (D : Nat) :
    ∀ (evs : List (LEnv × ReachEv)) (c : RCfg), (∀ p ∈ evs, ∀ a, p.1.sendFails a = false) →
      checkRun N tok target D c evs = true → TruthfulRun N tok target D c evs
  | [], _, _, _ => trivial
  | (env, ev) :: rest, c, hs, hc => by
    simp only [checkRun, Bool.and_eq_true, decide_eq_true_eq] at hc
    exact ⟨⟨hs _ List.mem_cons_self, hc.1.1.1, hc.1.1.2, hc.1.2⟩,
      truthfulRun_of_check N tok target D rest _ (fun p hp => hs p (List.mem_cons_of_mem _ hp)) hc.2⟩

/-- outside the end-game the network owes the search an answer -/
theorem rinv_pending {N : List Handle} {tok : Handle → Bytes} {target : Bytes} {c : RCfg} (hinv : RInv N tok target c)
    (hreg : c.l.inEndgame = false) : ∃ q ∈ c.log, q.1 ∉ c.answered ∧ ∃ h ∈ N, h.addr = q.2.1 := by
  obtain ⟨e, he⟩ := List.exists_mem_of_ne_nil _ (hinv.reg hreg).2
  obtain ⟨q, hq1, hq2⟩ := hinv.q.alog e he
  exact ⟨q, hq1, by rw [hq2]; exact hinv.q.nans e he, (hinv.dst q hq1).1⟩

end Btdht
