import Btdht.Model.Token
/-!
Helper lemmas for C06: the rotation step and the two invariants (`Valid` for the lower bound of a
token's life, `TokInv` for the upper bound).
-/
namespace Btdht

/-- nanoseconds in 600 s, 1200 s, 1800 s -/
notation "s600" => (600000000000 : Nat)
notation "s1200" => (1200000000000 : Nat)
notation "s1800" => (1800000000000 : Nat)

theorem intervals_zero_iff (lr now : Nat) : intervalsPassed lr now = 0 ↔ now - lr < s600 := by
  simp only [intervalsPassed, secNs, Constants.TOKEN_REFRESH_INTERVAL_ns]; omega

theorem intervals_one_iff (lr now : Nat) :
    intervalsPassed lr now = 1 ↔ s600 ≤ now - lr ∧ now - lr < s1200 := by
  simp only [intervalsPassed, secNs, Constants.TOKEN_REFRESH_INTERVAL_ns]; omega

/-- The three outcomes of `refresh_check`, by elapsed time. -/
theorem refreshCheck_cases (s : TokenStore) (now : Nat) :
    (now - s.lastRefresh < s600 ∧ s.refreshCheck now = s) ∨
    (s600 ≤ now - s.lastRefresh ∧ now - s.lastRefresh < s1200 ∧
      s.refreshCheck now = { curr := s.next, last := s.curr, lastRefresh := now, next := s.next + 1 }) ∨
    (s1200 ≤ now - s.lastRefresh ∧
      s.refreshCheck now = { last := s.next, curr := s.next + 1, lastRefresh := now, next := s.next + 2 }) := by
  unfold TokenStore.refreshCheck
  by_cases h0 : intervalsPassed s.lastRefresh now = 0
  · left; exact ⟨(intervals_zero_iff _ _).mp h0, by simp [h0]⟩
  · by_cases h1 : intervalsPassed s.lastRefresh now = 1
    · right; left
      obtain ⟨a, b⟩ := (intervals_one_iff _ _).mp h1
      exact ⟨a, b, by simp [h1]⟩
    · right; right
      have hz : ¬ (now - s.lastRefresh < s600) := fun h => h0 ((intervals_zero_iff _ _).mpr h)
      have ho : ¬ (s600 ≤ now - s.lastRefresh ∧ now - s.lastRefresh < s1200) :=
        fun h => h1 ((intervals_one_iff _ _).mpr h)
      exact ⟨by omega, by simp [h0, h1]⟩

/-- A token (secret `sec`, issued at `ti`) is still honoured: its secret is current and it was
issued in the current interval, or its secret is the previous one and it was issued before the
last rotation. -/
def Valid (sec ti : Nat) (st : TokenStore) : Prop :=
  (st.curr = sec ∧ st.lastRefresh ≤ ti ∧ ti < st.lastRefresh + s600) ∨
  (st.last = sec ∧ ti < st.lastRefresh)

/-- Key step: any store operation at a time `t ≤ ti + 600 s` keeps the token honoured. -/
theorem valid_refresh (sec ti : Nat) (st : TokenStore) (t : Nat)
    (hv : Valid sec ti st) (hmono : st.lastRefresh ≤ t) (ht : t ≤ ti + s600) :
    Valid sec ti (st.refreshCheck t) := by
  rcases refreshCheck_cases st t with ⟨_, e⟩ | ⟨h1, h2, e⟩ | ⟨h1, e⟩
  · rw [e]; exact hv
  · rw [e]
    rcases hv with ⟨hc, ha, hb⟩ | ⟨hl, hb⟩
    · right; exact ⟨hc, by simp only; omega⟩
    · exfalso; omega
  · exfalso
    rcases hv with ⟨_, ha, hb⟩ | ⟨_, hb⟩ <;> omega

theorem refreshCheck_lastRefresh_le (st : TokenStore) (t : Nat) (h : st.lastRefresh ≤ t) :
    (st.refreshCheck t).lastRefresh ≤ t := by
  rcases refreshCheck_cases st t with ⟨_, e⟩ | ⟨_, _, e⟩ | ⟨_, e⟩ <;> rw [e] <;> simp [h]

theorem refreshCheck_fresh_interval (st : TokenStore) (t : Nat) (h : st.lastRefresh ≤ t) :
    t < (st.refreshCheck t).lastRefresh + s600 := by
  rcases refreshCheck_cases st t with ⟨h0, e⟩ | ⟨_, _, e⟩ | ⟨_, e⟩ <;> rw [e]
  · omega
  · show t < t + s600; omega
  · show t < t + s600; omega

/-- `Valid` gives acceptance. -/
theorem valid_accept (ip : Bytes) (sec ti : Nat) (st : TokenStore) (hv : Valid sec ti st) :
    (decide ((⟨ip, sec⟩ : TokTerm).ip = ip) && (decide (sec = st.curr) || decide (sec = st.last))) = true := by
  rcases hv with ⟨hc, _, _⟩ | ⟨hl, _⟩
  · simp [hc]
  · simp [hl]

/-- monotone clock along a history -/
def monoFrom (t : Nat) : List TokEvent → Prop
  | [] => True
  | e :: es => t ≤ e.time ∧ monoFrom e.time es

def allBefore (bound : Nat) (es : List TokEvent) : Prop := ∀ e ∈ es, e.time ≤ bound

def lastTime (t : Nat) : List TokEvent → Nat
  | [] => t
  | e :: es => lastTime e.time es

theorem step_store (r : TokRun) (e : TokEvent) : (r.step e).1.store = r.store.refreshCheck e.time := by
  cases e <;> rfl

/-- Running a monotone history whose events all lie within 600 s of the issue keeps `Valid`. -/
theorem valid_run (sec ti : Nat) (es : List TokEvent) :
    ∀ (r : TokRun) (t0 : Nat), Valid sec ti r.store → r.store.lastRefresh ≤ t0 → monoFrom t0 es →
      allBefore (ti + s600) es →
      Valid sec ti (r.run es).store ∧ (r.run es).store.lastRefresh ≤ lastTime t0 es := by
  induction es with
  | nil => intro r t0 hv hl _ _; exact ⟨hv, hl⟩
  | cons e es ih =>
    intro r t0 hv hl hm hb
    obtain ⟨h1, h2⟩ := hm
    have hle : r.store.lastRefresh ≤ e.time := Nat.le_trans hl h1
    have hbe : e.time ≤ ti + s600 := hb e (by simp)
    have hv' : Valid sec ti (r.step e).1.store := by
      rw [step_store]; exact valid_refresh sec ti r.store e.time hv hle hbe
    have hl' : (r.step e).1.store.lastRefresh ≤ e.time := by
      rw [step_store]; exact refreshCheck_lastRefresh_le _ _ hle
    exact ih (r.step e).1 e.time hv' hl' h2 (fun x hx => hb x (by simp [hx]))

/-! ### Upper bound: reachable-state invariant -/

/-- Invariant of every reachable run state; `now` is the time of the last processed event. -/
structure TokInv (r : TokRun) (now : Nat) : Prop where
  lr_le : r.store.lastRefresh ≤ now
  in_interval : now < r.store.lastRefresh + s600
  curr_lt : r.store.curr < r.store.next
  last_lt : r.store.last < r.store.next
  ne : r.store.curr ≠ r.store.last
  log_lt : ∀ e ∈ r.log, e.tok.secret < r.store.next ∧ e.at_ ≤ now
  log_curr : ∀ e ∈ r.log, e.tok.secret = r.store.curr → r.store.lastRefresh ≤ e.at_
  log_last : ∀ e ∈ r.log, e.tok.secret = r.store.last →
    e.at_ < r.store.lastRefresh ∧ r.store.lastRefresh < e.at_ + s1200


theorem tokInv_init (t0 : Nat) : TokInv (TokRun.init t0) t0 := by
  constructor <;> simp [TokRun.init, TokenStore.new]

/-- `refresh_check` at a later time keeps the invariant (with the log unchanged). -/
theorem tokInv_refresh (r : TokRun) (now t : Nat) (hi : TokInv r now) (ht : now ≤ t) :
    TokInv { r with store := r.store.refreshCheck t } t := by
  have hlr := hi.lr_le
  have hint := hi.in_interval
  rcases refreshCheck_cases r.store t with ⟨h0, e⟩ | ⟨h1, h2, e⟩ | ⟨h1, e⟩
  · rw [e]
    show TokInv r t
    exact ⟨by omega, by omega, hi.curr_lt, hi.last_lt, hi.ne,
      fun x hx => ⟨(hi.log_lt x hx).1, by have := (hi.log_lt x hx).2; omega⟩, hi.log_curr, hi.log_last⟩
  · rw [e]
    constructor
    · simp
    · simp only; omega
    · simp
    · simp only; have := hi.curr_lt; omega
    · simp only; have := hi.curr_lt; omega
    · intro x hx; have := hi.log_lt x hx; simp only; omega
    · intro x hx hs; simp only at hs; have := (hi.log_lt x hx).1; omega
    · intro x hx hs
      simp only at hs ⊢
      have := hi.log_curr x hx hs
      have := (hi.log_lt x hx).2
      omega
  · rw [e]
    constructor
    · simp
    · simp only; omega
    · simp
    · simp
    · simp
    · intro x hx; have := hi.log_lt x hx; simp only; omega
    · intro x hx hs; simp only at hs; have := (hi.log_lt x hx).1; omega
    · intro x hx hs; simp only at hs; have := (hi.log_lt x hx).1; omega

theorem tokInv_step (r : TokRun) (now : Nat) (e : TokEvent) (hi : TokInv r now) (ht : now ≤ e.time) :
    TokInv (r.step e).1 e.time := by
  have hr := tokInv_refresh r now e.time hi ht
  cases e with
  | checkout ip t =>
    simp only [TokEvent.time] at hr ht ⊢
    show TokInv { store := r.store.refreshCheck t,
                  log := r.log ++ [{ tok := { ip := ip, secret := (r.store.refreshCheck t).curr }, at_ := t }] } t
    constructor
    · exact hr.lr_le
    · exact hr.in_interval
    · exact hr.curr_lt
    · exact hr.last_lt
    · exact hr.ne
    · intro x hx
      rcases List.mem_append.mp hx with hx | hx
      · exact hr.log_lt x hx
      · simp at hx; subst hx; exact ⟨hr.curr_lt, Nat.le_refl _⟩
    · intro x hx hs
      rcases List.mem_append.mp hx with hx | hx
      · exact hr.log_curr x hx hs
      · simp at hx; subst hx; exact hr.lr_le
    · intro x hx hs
      rcases List.mem_append.mp hx with hx | hx
      · exact hr.log_last x hx hs
      · simp at hx; subst hx; exact absurd hs hr.ne
  | checkin ip ref t => exact hr
  | checkinJunk ip t => exact hr

theorem tokInv_run (es : List TokEvent) :
    ∀ (r : TokRun) (now : Nat), TokInv r now → monoFrom now es → TokInv (r.run es) (lastTime now es) := by
  induction es with
  | nil => intro r now hi _; exact hi
  | cons e es ih =>
    intro r now hi hm
    exact ih (r.step e).1 e.time (tokInv_step r now e hi hm.1) hm.2

end Btdht
