import Btdht.Proofs.Net
import Btdht.Proofs.NetLookup
/-!
C01 helpers: what the handler steps relevant to a network of serving nodes do to a node that runs
at most one search — as equations between states and effect lists.
-/
namespace Btdht

/-- the environment a response is handled in: responder and named nodes were offered to the table -/
def respEnvOf (s : HState) (rsp : Resp) (src : Addr) (now : Nat) : LEnv :=
  { table := s.table.addNodes (Node.asGood ⟨rsp.id, src⟩ now) (s.namedBy rsp) now, timer := s.timer, now := now,
    sendFails := fun a => s.failAddrs.contains a }

/-- the environment a timer entry is handled in: the entry is popped -/
def timerEnvOf (s : HState) (timer : Timer Task) (now : Nat) : LEnv :=
  { table := s.table, timer := timer, now := now, sendFails := fun a => s.failAddrs.contains a }

/-- an answer routed to the only stored search -/
theorem client_resp (s : HState) (l : Lookup) (tid : Tid) (rsp : Resp) (src : Addr) (now : Nat)
    (hl : s.lookups = [l]) (haid : tid.aid = l.aid)
    (hc : (l.recvResponse (respEnvOf s rsp src now)
      ⟨rsp.id, src⟩ tid rsp).1.completedNow = false) :
    s.handleIncoming (.sym tid) (.resp rsp) src now =
      ({ s with
          table := (l.recvResponse (respEnvOf s rsp src now)
            ⟨rsp.id, src⟩ tid rsp).2.1.table,
          timer := (l.recvResponse (respEnvOf s rsp src now)
            ⟨rsp.id, src⟩ tid rsp).2.1.timer,
          lookups := [(l.recvResponse (respEnvOf s rsp src now)
            ⟨rsp.id, src⟩ tid rsp).1] },
       liftEffects (l.recvResponse (respEnvOf s rsp src now)
            ⟨rsp.id, src⟩ tid rsp).2.2) := by
  unfold HState.handleIncoming HState.handleResponse
  simp only [InTid.route, hl, List.find?_cons, haid, decide_true]
  unfold HState.lookupResponse
  simp only [HState.env, HState.namedBy] at hc ⊢
  simp only [respEnvOf, HState.namedBy] at hc ⊢
  simp only [hc, Bool.false_eq_true, if_false, HState.withEnv, hl, List.map_cons, List.map_nil, if_true]

/-- a response or an error at a node that runs no search and never refreshed: nothing happens -/
theorem idle_resp (s : HState) (tid : Tid) (rsp : Resp) (src : Addr) (now : Nat)
    (hl : s.lookups = []) (haid : tid.aid ≠ refreshAid) :
    s.handleIncoming (.sym tid) (.resp rsp) src now = (s, []) := by
  unfold HState.handleIncoming HState.handleResponse
  simp only [InTid.route, hl, List.find?_nil, haid, if_false]

/-- the time-out entry of a query of the only stored search fires -/
theorem client_timeout (s : HState) (l : Lookup) (timer : Timer Task) (e : TimerEntry Task) (t : Tid) (now : Nat)
    (hl : s.lookups = [l]) (hpop : s.timer.pop = some (timer, e)) (htask : e.task = .lookupTimeout t) (haid : t.aid = l.aid)
    (hc : (l.recvTimeout (timerEnvOf s timer now) t).1.completedNow = false) :
    s.fireTimer now =
      ({ s with
          table := (l.recvTimeout (timerEnvOf s timer now) t).2.1.table,
          timer := (l.recvTimeout (timerEnvOf s timer now) t).2.1.timer,
          lookups := [(l.recvTimeout (timerEnvOf s timer now) t).1] },
       liftEffects (l.recvTimeout (timerEnvOf s timer now) t).2.2, some e) := by
  unfold HState.fireTimer
  simp only [hpop]
  unfold HState.handleTask
  simp only [htask, hl, List.find?_cons, haid, decide_true]
  unfold HState.lookupTimeout
  simp only [HState.env, timerEnvOf] at hc ⊢
  simp only [hc, Bool.false_eq_true, if_false, HState.withEnv, hl, List.map_cons, List.map_nil, if_true]

/-- the end-game entry of the only stored search fires: `recv_finished`, and the search is gone -/
theorem client_finish (s : HState) (l : Lookup) (timer : Timer Task) (e : TimerEntry Task) (t : Tid) (now : Nat)
    (hl : s.lookups = [l]) (hpop : s.timer.pop = some (timer, e)) (htask : e.task = .lookupEndGame t) (haid : t.aid = l.aid) :
    s.fireTimer now =
      ({ s with
          table := (l.recvFinished (timerEnvOf s timer now) s.announcePort).2.1.table,
          timer := (l.recvFinished (timerEnvOf s timer now) s.announcePort).2.1.timer,
          lookups := [] },
       liftEffects (l.recvFinished (timerEnvOf s timer now) s.announcePort).2.2, some e) := by
  unfold HState.fireTimer
  simp only [hpop]
  unfold HState.handleTask
  simp only [htask]
  unfold HState.completeLookup
  simp only [hl, List.find?_cons, haid, decide_true, List.filter_cons, ne_eq, not_true_eq_false, decide_false,
    Bool.false_eq_true, if_false, List.filter_nil, HState.withEnv, HState.env, timerEnvOf]

/-- a timer entry of a search that is gone fires: only the entry is consumed -/
theorem idle_fire (s : HState) (timer : Timer Task) (e : TimerEntry Task) (now : Nat)
    (hl : s.lookups = []) (hpop : s.timer.pop = some (timer, e)) (htask : e.task ≠ .tableRefresh) :
    s.fireTimer now = ({ s with timer := timer }, [], some e) := by
  unfold HState.fireTimer
  simp only [hpop]
  unfold HState.handleTask
  cases ht : e.task with
  | tableRefresh => exact absurd ht htask
  | lookupTimeout t => simp only [hl, List.find?_nil]
  | lookupEndGame t => simp only [HState.completeLookup, hl, List.find?_nil]

/-- `handle_start_lookup` on a node that runs no search, when the new search is not over at once -/
theorem client_start (s : HState) (target : Bytes) (ann : Bool) (now : Nat) (hl : s.lookups = [])
    (hc : (Lookup.new s.nextAid s.nextStream s.selfId s.v6 target ann (s.env now)).1.completedNow = false) :
    s.startLookup target ann now =
      ({ s with
          table := (Lookup.new s.nextAid s.nextStream s.selfId s.v6 target ann (s.env now)).2.1.table,
          timer := (Lookup.new s.nextAid s.nextStream s.selfId s.v6 target ann (s.env now)).2.1.timer,
          nextAid := s.nextAid + 1, nextStream := s.nextStream + 1,
          lookups := [(Lookup.new s.nextAid s.nextStream s.selfId s.v6 target ann (s.env now)).1] },
       liftEffects (Lookup.new s.nextAid s.nextStream s.selfId s.v6 target ann (s.env now)).2.2, s.nextStream) := by
  unfold HState.startLookup HState.afterNew
  simp only [hc, Bool.false_eq_true, if_false, HState.withEnv, hl, List.nil_append]

end Btdht
