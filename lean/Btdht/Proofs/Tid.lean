import Btdht.Model.Tid
/-!
Helper lemmas for C19: closed form of the id sequence of a block generator.
-/
namespace Btdht

/-- State after `n` calls of `generate`, starting from `(g0, c0)`; the second component counts the
blocks allocated so far and indexes the shuffle oracle. -/
def runGen (len max : Nat) (oracle : Nat → List Nat) (g0 : BlockGen) (c0 : Nat) : Nat → BlockGen × Nat
  | 0 => (g0, c0)
  | n + 1 =>
    let s := runGen len max oracle g0 c0 n
    ((s.1.generate len max (oracle s.2)).1, if s.1.needsRefill then s.2 + 1 else s.2)

/-- The id handed out by call number `n` (0-based). -/
def nthId (len max : Nat) (oracle : Nat → List Nat) (g0 : BlockGen) (c0 : Nat) (n : Nat) : Nat :=
  let s := runGen len max oracle g0 c0 n
  (s.1.generate len max (oracle s.2)).2

/-- "block `q` (shuffled by `p`) is loaded and `r` of its ids have been handed out" -/
def Loaded (len : Nat) (p : List Nat) (q r : Nat) (g : BlockGen) : Prop :=
  g.nextAlloc = len * (q + 1) ∧ g.currIndex = r ∧ g.ids = p.map (fun off => len * q + off)

theorem validPerm_length {len : Nat} {p : List Nat} (h : validPerm len p = true) : p.length = len := by
  simp [validPerm] at h; exact h.1.1

theorem validPerm_lt {len : Nat} {p : List Nat} (h : validPerm len p = true) (i : Nat) (hi : i < p.length) :
    p[i] < len := by
  simp [validPerm] at h; exact h.1.2 _ (List.getElem_mem hi)

theorem validPerm_nodup {len : Nat} {p : List Nat} (h : validPerm len p = true) : p.Nodup := by
  simp [validPerm] at h; exact h.2

theorem validPerm_inj {len : Nat} {p : List Nat} (h : validPerm len p = true) (i j : Nat)
    (hi : i < p.length) (hj : j < p.length) (e : p[i] = p[j]) : i = j :=
  (List.getElem_inj (validPerm_nodup h)).mp e

/-- handing out the next id of a loaded block -/
theorem generate_loaded {len max : Nat} {p : List Nat} {q r : Nat} {g : BlockGen} (o : List Nat)
    (hp : validPerm len p = true) (hg : Loaded len p q r g) (hr : r < len) :
    Loaded len p q (r + 1) (g.generate len max o).1 ∧
    (g.generate len max o).2 = len * q + p.getD r 0 ∧ g.needsRefill = false := by
  obtain ⟨h1, h2, h3⟩ := hg
  have hl : p.length = len := validPerm_length hp
  have hlt : g.currIndex < g.ids.length := by rw [h2, h3]; simp [hl, hr]
  refine ⟨?_, ?_, ?_⟩
  · simp only [BlockGen.generate, hlt, dite_true]
    exact ⟨h1, by simp [h2], h3⟩
  · simp only [BlockGen.generate, hlt, dite_true]
    have : g.ids[g.currIndex] = len * q + p[r]'(by omega) := by
      simp [h3, h2]
    rw [this]; simp [List.getD_eq_getElem?_getD, List.getElem?_eq_getElem (show r < p.length by omega)]
  · simp [BlockGen.needsRefill, hlt]

/-- allocating the following block when the loaded one is exhausted (no wrap) -/
theorem generate_refill {len max : Nat} {p : List Nat} {q : Nat} {g : BlockGen} (o : List Nat)
    (hlen : 0 < len) (hp : validPerm len p = true) (ho : validPerm len o = true)
    (hg : Loaded len p q len g) (hw : len * (q + 1) ≠ max) :
    Loaded len o (q + 1) 1 (g.generate len max o).1 ∧
    (g.generate len max o).2 = len * (q + 1) + o.getD 0 0 ∧ g.needsRefill = true := by
  obtain ⟨h1, h2, h3⟩ := hg
  have hl : p.length = len := validPerm_length hp
  have hnlt : ¬ g.currIndex < g.ids.length := by rw [h2, h3]; simp [hl]
  have hol : o.length = len := validPerm_length ho
  refine ⟨?_, ?_, ?_⟩
  · simp only [BlockGen.generate, hnlt, dite_false, blockStart, h1, hw, if_false]
    exact ⟨by simp [Nat.mul_add], rfl, rfl⟩
  · simp only [BlockGen.generate, hnlt, dite_false, blockStart, h1, hw, if_false]
    cases o with
    | nil => simp at hol; omega
    | cons a t => simp
  · simp [BlockGen.needsRefill, hnlt]

/-- allocating at the wrap: the marker equals `max`, the next block starts at 0 again -/
theorem generate_wrap {len max : Nat} {p : List Nat} {q : Nat} {g : BlockGen} (o : List Nat)
    (hlen : 0 < len) (hp : validPerm len p = true) (ho : validPerm len o = true)
    (hg : Loaded len p q len g) (hw : len * (q + 1) = max) :
    Loaded len o 0 1 (g.generate len max o).1 ∧ (g.generate len max o).2 = o.getD 0 0 := by
  obtain ⟨h1, h2, h3⟩ := hg
  have hl : p.length = len := validPerm_length hp
  have hnlt : ¬ g.currIndex < g.ids.length := by rw [h2, h3]; simp [hl]
  have hol : o.length = len := validPerm_length ho
  refine ⟨?_, ?_⟩
  · simp only [BlockGen.generate, hnlt, dite_false, blockStart, h1, hw, if_true]
    exact ⟨by simp, rfl, by simp⟩
  · simp only [BlockGen.generate, hnlt, dite_false, blockStart, h1, hw, if_true]
    cases o with
    | nil => simp at hol; omega
    | cons a t => simp

end Btdht

namespace Btdht

/-- `MIDGenerator::new`: first block allocated lazily (marker 0, cursor at the end of a dummy block) -/
def freshGen (len : Nat) : BlockGen := { nextAlloc := 0, currIndex := len, ids := List.replicate len 0 }

theorem generate_fresh {len max : Nat} (o : List Nat) (hlen : 0 < len) (ho : validPerm len o = true) :
    Loaded len o 0 1 ((freshGen len).generate len max o).1 ∧
    ((freshGen len).generate len max o).2 = o.getD 0 0 ∧ (freshGen len).needsRefill = true := by
  have hol : o.length = len := validPerm_length ho
  have hnlt : ¬ (freshGen len).currIndex < (freshGen len).ids.length := by simp [freshGen]
  have hz : blockStart (freshGen len).nextAlloc max = 0 := by
    simp only [blockStart, freshGen]; by_cases h : (0 : Nat) = max <;> simp [h]
  refine ⟨?_, ?_, ?_⟩
  · simp only [BlockGen.generate, hnlt, dite_false, hz]
    refine ⟨?_, rfl, ?_⟩ <;> simp
  · simp only [BlockGen.generate, hnlt, dite_false, hz]
    cases o with
    | nil => simp at hol; omega
    | cons a t => simp
  · simp [BlockGen.needsRefill, hnlt]

/-- A start state from which the first call loads block 0 shuffled by `oracle 0`. -/
def GoodStart (len max : Nat) (oracle : Nat → List Nat) (g0 : BlockGen) (c0 : Nat) : Prop :=
  Loaded len (oracle 0) 0 1 (runGen len max oracle g0 c0 1).1 ∧
  (runGen len max oracle g0 c0 1).2 = 1 ∧
  nthId len max oracle g0 c0 0 = (oracle 0).getD 0 0

/-- `MIDGenerator::new` is a good start (its first call allocates block 0). -/
theorem goodStart_fresh {len max : Nat} (oracle : Nat → List Nat) (hlen : 0 < len)
    (ho : ∀ i, validPerm len (oracle i) = true) : GoodStart len max oracle (freshGen len) 0 := by
  obtain ⟨h1, h2, h3⟩ := generate_fresh (max := max) (oracle 0) hlen (ho 0)
  refine ⟨?_, ?_, ?_⟩
  · simpa [runGen] using h1
  · simp [runGen, h3]
  · simpa [nthId, runGen] using h2

/-- `AIDGenerator::new` (block 0 allocated eagerly with shuffle `oracle 0`) is a good start. -/
theorem goodStart_eager {len max : Nat} (oracle : Nat → List Nat) (hlen : 0 < len)
    (ho : ∀ i, validPerm len (oracle i) = true) :
    GoodStart len max oracle
      { nextAlloc := len, currIndex := 0, ids := (oracle 0).map (fun off => 0 + off) } 1 := by
  have hL : Loaded len (oracle 0) 0 0
      { nextAlloc := len, currIndex := 0, ids := (oracle 0).map (fun off => 0 + off) } :=
    ⟨by simp, rfl, by simp⟩
  obtain ⟨h1, h2, h3⟩ := generate_loaded (max := max) (oracle 1) (ho 0) hL hlen
  refine ⟨h1, ?_, ?_⟩
  · simp only [runGen, h3, Bool.false_eq_true, if_false]
  · simp only [nthId, runGen]; rw [h2]; simp

/-- Closed form: call number `k` (0-based, before the wrap) hands out `len*q + π_q[r]` where
`k = len*q + r`, and leaves block `q` loaded with `r+1` ids consumed. -/
theorem runGen_inv {len max : Nat} (oracle : Nat → List Nat) (hlen : 0 < len)
    (ho : ∀ i, validPerm len (oracle i) = true) {g0 : BlockGen} {c0 : Nat} (hs : GoodStart len max oracle g0 c0) :
    ∀ k, k < max → ∃ q r, k = len * q + r ∧ r < len ∧
      Loaded len (oracle q) q (r + 1) (runGen len max oracle g0 c0 (k + 1)).1 ∧
      (runGen len max oracle g0 c0 (k + 1)).2 = q + 1 ∧
      nthId len max oracle g0 c0 k = len * q + (oracle q).getD r 0 := by
  intro k
  induction k with
  | zero =>
    intro _
    obtain ⟨h1, h2, h3⟩ := hs
    exact ⟨0, 0, by simp, hlen, h1, h2, by simpa using h3⟩
  | succ k ih =>
    intro hk
    obtain ⟨q, r, hkq, hr, hL, hc, _⟩ := ih (by omega)
    by_cases hlast : r + 1 < len
    · obtain ⟨h1, h2, h3⟩ := generate_loaded (max := max) (oracle (q + 1)) (ho q) hL hlast
      refine ⟨q, r + 1, by omega, hlast, ?_, ?_, ?_⟩
      · show Loaded len (oracle q) q (r + 1 + 1) (runGen len max oracle g0 c0 (k + 1 + 1)).1
        rw [runGen]; simp only [hc]; exact h1
      · rw [runGen]; simp only [hc, h3]; simp
      · simp only [nthId, hc]; exact h2
    · have hrl : r + 1 = len := by omega
      have hms : len * (q + 1) = len * q + len := Nat.mul_succ len q
      have hw : len * (q + 1) ≠ max := by omega
      rw [hrl] at hL
      obtain ⟨h1, h2, h3⟩ := generate_refill (max := max) (oracle (q + 1)) hlen (ho q) (ho (q + 1)) hL hw
      refine ⟨q + 1, 0, by omega, hlen, ?_, ?_, ?_⟩
      · rw [runGen]; simp only [hc]; exact h1
      · rw [runGen]; simp only [hc, h3]; simp
      · simp only [nthId, hc]; exact h2

/-- Before the wrap all ids are below `max`. -/
theorem nthId_lt {len max : Nat} (oracle : Nat → List Nat) (hlen : 0 < len)
    (ho : ∀ i, validPerm len (oracle i) = true) {g0 : BlockGen} {c0 : Nat} (hs : GoodStart len max oracle g0 c0) (B : Nat) (hmax : max = len * B) (k : Nat) (hk : k < max) :
    nthId len max oracle g0 c0 k < max := by
  obtain ⟨q, r, hkq, hr, _, _, hid⟩ := runGen_inv oracle hlen ho hs k hk
  have hl := validPerm_length (ho q)
  have hlt : (oracle q).getD r 0 < len := by
    rw [List.getD_eq_getElem?_getD, List.getElem?_eq_getElem (by omega)]
    exact validPerm_lt (ho q) r (by omega)
  have hqB : q < B := by
    apply Nat.lt_of_mul_lt_mul_left (a := len)
    omega
  have : len * (q + 1) ≤ len * B := Nat.mul_le_mul_left len hqB
  have hms : len * (q + 1) = len * q + len := Nat.mul_succ len q
  omega

/-- Ids handed out before the wrap are pairwise distinct, whatever the shuffles. -/
theorem nthId_inj {len max : Nat} (oracle : Nat → List Nat) (hlen : 0 < len)
    (ho : ∀ i, validPerm len (oracle i) = true) {g0 : BlockGen} {c0 : Nat} (hs : GoodStart len max oracle g0 c0) (i j : Nat) (hi : i < max) (hj : j < max)
    (e : nthId len max oracle g0 c0 i = nthId len max oracle g0 c0 j) : i = j := by
  obtain ⟨qi, ri, hiq, hri, _, _, hidi⟩ := runGen_inv oracle hlen ho hs i hi
  obtain ⟨qj, rj, hjq, hrj, _, _, hidj⟩ := runGen_inv oracle hlen ho hs j hj
  have hli := validPerm_length (ho qi)
  have hlj := validPerm_length (ho qj)
  have hgi : (oracle qi).getD ri 0 = (oracle qi)[ri]'(by omega) := by
    rw [List.getD_eq_getElem?_getD, List.getElem?_eq_getElem (by omega)]; rfl
  have hgj : (oracle qj).getD rj 0 = (oracle qj)[rj]'(by omega) := by
    rw [List.getD_eq_getElem?_getD, List.getElem?_eq_getElem (by omega)]; rfl
  have hai := validPerm_lt (ho qi) ri (by omega)
  have haj := validPerm_lt (ho qj) rj (by omega)
  rw [hidi, hidj, hgi, hgj] at e
  have hq : qi = qj := by
    rcases Nat.lt_trichotomy qi qj with h | h | h
    · have := Nat.mul_le_mul_left len (show qi + 1 ≤ qj from h)
      have hms : len * (qi + 1) = len * qi + len := Nat.mul_succ len qi
      omega
    · exact h
    · have := Nat.mul_le_mul_left len (show qj + 1 ≤ qi from h)
      have hms : len * (qj + 1) = len * qj + len := Nat.mul_succ len qj
      omega
  subst hq
  have hr : ri = rj := validPerm_inj (ho qi) ri rj (by omega) (by omega) (by omega)
  omega

/-- At the wrap (exactly `max = len*B` ids issued) the generator restarts from block 0. -/
theorem nthId_wrap {len max : Nat} (oracle : Nat → List Nat) (hlen : 0 < len)
    (ho : ∀ i, validPerm len (oracle i) = true) {g0 : BlockGen} {c0 : Nat} (hs : GoodStart len max oracle g0 c0) (B : Nat) (hB : 0 < B) (hmax : max = len * B) :
    nthId len max oracle g0 c0 max = (oracle B).getD 0 0 := by
  have hpos : 0 < max := by rw [hmax]; exact Nat.mul_pos hlen hB
  have hlt1 : max - 1 < max := by omega
  obtain ⟨q, r, hkq, hr, hL, hc, _⟩ := runGen_inv oracle hlen ho hs (max - 1) hlt1
  have h1 : max - 1 + 1 = max := by omega
  rw [h1] at hL hc
  have hms : len * (q + 1) = len * q + len := Nat.mul_succ len q
  -- max - 1 = len*q + r with r < len and max = len*B force r + 1 = len and q + 1 = B
  have hqB : q < B := by
    apply Nat.lt_of_mul_lt_mul_left (a := len); omega
  have hBq : B ≤ q + 1 := by
    have h : len * B ≤ len * (q + 1) := by omega
    exact Nat.le_of_mul_le_mul_left h hlen
  have hq1 : q + 1 = B := by omega
  have hrl : r + 1 = len := by
    have : len * (q + 1) = max := by rw [hq1, hmax]
    omega
  rw [hrl] at hL
  have hw : len * (q + 1) = max := by rw [hq1, hmax]
  obtain ⟨_, h2⟩ := generate_wrap (max := max) (oracle (q + 1)) hlen (ho q) (ho (q + 1)) hL hw
  simp only [nthId, hc]
  rw [hq1] at h2 ⊢
  exact h2

end Btdht
