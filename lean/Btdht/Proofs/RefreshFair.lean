import Btdht.Props.C08
import Btdht.Props.C09
import Btdht.Props.C10
import Btdht.Proofs.Handler
/-!
C11 helpers, part 2: fairness of the picks of the refresh rounds (table level).

A refresh round picks the first 4 *eligible* contacts (questionable, not queried within the last
30 s) and marks them as queried. A contact marked at `q ≥ τ`, or credited with an answer at `r ≥ τ`,
is *shielded*: it is not eligible at any instant of `[τ, τ + 30 s)`. Shields survive every table
operation except one: a hearsay offer for a handle whose entry is bad or gone (fresh re-admission).
-/
namespace Btdht

def thirtyS : Nat := Constants.RECENTLY_REQUESTED_SECS * 1000000000
theorem thirtyS_eq : thirtyS = 30000000000 := by decide

/-- eligible for a refresh ping at `now`: questionable and not queried within the last 30 s -/
def eligB (now : Nat) (n : Node) : Bool := n.status now = .questionable && !n.recentlyRequestedFrom now

/-- every entry of `h` that ever answered was queried, or credited with an answer, at or after `τ` -/
def Shielded (t : Table) (h : Handle) (τ : Nat) : Prop :=
  ∀ n ∈ t.allNodes, n.handle = h → n.lastResponse ≠ none →
    (∃ q, n.lastLocalRequest = some q ∧ τ ≤ q) ∨ (∃ r, n.lastResponse = some r ∧ τ ≤ r)

theorem elig_live (now : Nat) (n : Node) (h : eligB now n = true) : n.lastResponse ≠ none := by
  intro hn
  simp [eligB, Node.status, hn] at h

/-- **a shielded contact is not eligible during the 30 s that follow `τ`** -/
theorem shielded_not_elig (t : Table) (h : Handle) (τ now : Nat) (hs : Shielded t h τ) (h1 : τ ≤ now)
    (h2 : now < τ + thirtyS) (n : Node) (hn : n ∈ t.allNodes) (hh : n.handle = h) : eligB now n = false := by
  cases he : eligB now n with
  | false => rfl
  | true =>
    exfalso
    rcases hs n hn hh (elig_live now n he) with ⟨q, hq, hle⟩ | ⟨r, hr, hle⟩
    · have : n.recentlyRequestedFrom now = true := by
        have h30 : Constants.RECENTLY_REQUESTED_SECS * 1000000000 = 30000000000 := by decide
        simp only [Node.recentlyRequestedFrom, hq, decide_eq_true_eq, h30]
        have := thirtyS_eq; omega
      simp [eligB, this] at he
    · have hg : n.status now = .good := by
        simp only [Node.status, hr, lastSeenNs_eq]
        have := thirtyS_eq
        rw [if_pos (by omega)]
      simp [eligB, hg] at he

/-! ### entries of a handle in a table satisfying the invariant -/

theorem mem_allNodes_idx (t : Table) (m : Node) :
    m ∈ t.allNodes ↔ ∃ (i : Nat) (hi : i < t.buckets.length) (a : Nat) (ha : a < t.buckets[i].nodes.length), t.buckets[i].nodes[a] = m := by
  rw [mem_allNodes]
  constructor
  · rintro ⟨b, hb, hm⟩
    obtain ⟨i, hi, rfl⟩ := List.mem_iff_getElem.mp hb
    obtain ⟨a, ha, rfl⟩ := List.mem_iff_getElem.mp hm
    exact ⟨i, hi, a, ha, rfl⟩
  · rintro ⟨i, hi, a, ha, rfl⟩
    exact ⟨_, List.getElem_mem hi, List.getElem_mem ha⟩

/-- the bucket of an entry is the one its id is looked up in -/
theorem entry_bucket (t : Table) (h : TInv t) (i : Nat) (hi : i < t.buckets.length) (m : Node)
    (hm : m ∈ t.buckets[i].nodes) (hl : m.lastResponse ≠ none) :
    t.bucketIndexFor m.handle.id = i ∧ bucketPlacement (lcp t.selfId m.handle.id) t.buckets.length = i := by
  rcases h.placed i hi m hm with hn | ⟨_, _, p⟩
  · exact absurd hn hl
  · unfold Placed at p
    unfold Table.bucketIndexFor bucketPlacement
    simp only
    by_cases hlast : i + 1 = t.buckets.length
    · have := p.2 hlast
      constructor <;> split <;> omega
    · have := p.1 (by omega)
      constructor <;> split <;> omega

/-- **at most one entry per handle**: two slots holding nodes that ever answered, with the same
handle, are the same slot -/
theorem entry_unique_idx (t : Table) (h : TInv t) (i j : Nat) (hi : i < t.buckets.length) (hj : j < t.buckets.length)
    (a c : Nat) (ha : a < t.buckets[i].nodes.length) (hc : c < t.buckets[j].nodes.length)
    (hla : (t.buckets[i].nodes[a]).lastResponse ≠ none) (hlc : (t.buckets[j].nodes[c]).lastResponse ≠ none)
    (heq : (t.buckets[i].nodes[a]).handle = (t.buckets[j].nodes[c]).handle) : i = j ∧ a = c := by
  have e1 := (entry_bucket t h i hi _ (List.getElem_mem ha) hla).1
  have e2 := (entry_bucket t h j hj _ (List.getElem_mem hc) hlc).1
  rw [heq] at e1
  have hij : i = j := e1.symm.trans e2
  subst hij
  refine ⟨rfl, ?_⟩
  have hh := h.handles t.buckets[i] (List.getElem_mem hi)
  unfold HandlesOk at hh
  rw [List.pairwise_iff_getElem] at hh
  rcases Nat.lt_trichotomy a c with hlt | he | hgt
  · exact absurd (hh a c ha hc hlt heq) hlc
  · exact he
  · exact absurd (hh c a hc ha hgt heq.symm) hla

theorem entry_unique (t : Table) (h : TInv t) (m m' : Node) (hm : m ∈ t.allNodes) (hm' : m' ∈ t.allNodes)
    (hl : m.lastResponse ≠ none) (hl' : m'.lastResponse ≠ none) (heq : m.handle = m'.handle) : m = m' := by
  obtain ⟨i, hi, a, ha, rfl⟩ := (mem_allNodes_idx t m).mp hm
  obtain ⟨j, hj, c, hc, rfl⟩ := (mem_allNodes_idx t m').mp hm'
  obtain ⟨rfl, rfl⟩ := entry_unique_idx t h i j hi hj a c ha hc hl hl' heq
  rfl

/-! ### request marks -/

theorem mem_modify_iff {α} (f : α → α) (l : List α) (i : Nat) (x : α) (hx : x ∈ l.modify i f) :
    x ∈ l ∨ ∃ hi : i < l.length, x = f l[i] := by
  obtain ⟨j, hj, rfl⟩ := List.mem_iff_getElem.mp hx
  simp only [List.length_modify] at hj
  rw [List.getElem_modify]
  by_cases hij : i = j
  · subst hij; exact Or.inr ⟨hj, by simp⟩
  · simp only [hij, if_false]; exact Or.inl (List.getElem_mem hj)

/-- the shape of `find_node_mut(h)` + mutation: nothing, or one slot of the lookup bucket mutated -/
theorem modifyNode_shape (t : Table) (h : Handle) (now : Nat) (f : Node → Node) :
    (t.modifyNode h now f).1 = t ∨
    ∃ (b : Bucket) (j : Nat) (hj : j < b.nodes.length), t.buckets[t.bucketIndexFor h.id]? = some b ∧
      b.nodes[j].isPingable now = true ∧ b.nodes[j].handle = h ∧
      (∀ k (hk : k < j), ¬ ((b.nodes[k]'(Nat.lt_trans hk hj)).isPingable now = true ∧ (b.nodes[k]'(Nat.lt_trans hk hj)).handle = h)) ∧
      (t.modifyNode h now f).1 = { t with buckets := t.buckets.set (t.bucketIndexFor h.id) { nodes := b.nodes.modify j f } } := by
  unfold Table.modifyNode
  simp only
  cases hb : t.buckets[t.bucketIndexFor h.id]? with
  | none => exact Or.inl rfl
  | some b =>
    simp only
    cases hp : positionOf (fun m => m.isPingable now && decide (m.handle = h)) b.nodes with
    | none => exact Or.inl rfl
    | some j =>
      obtain ⟨hj, h1, h2⟩ := positionOf_some _ _ _ hp
      simp only [Bool.and_eq_true, decide_eq_true_eq] at h1
      refine Or.inr ⟨b, j, hj, rfl, h1.1, h1.2, fun k hk hc => ?_, rfl⟩
      have := h2 k hk
      simp [hc.1, hc.2] at this

theorem modifyNode_mem (t : Table) (h : Handle) (now : Nat) (f : Node → Node) :
    ∀ m' ∈ (t.modifyNode h now f).1.allNodes,
      m' ∈ t.allNodes ∨ ∃ m ∈ t.allNodes, m.handle = h ∧ m.isPingable now = true ∧ m' = f m := by
  intro m' hm'
  rcases modifyNode_shape t h now f with he | ⟨b, j, hj, hb, hp, hh, _, he⟩
  · rw [he] at hm'; exact Or.inl hm'
  · rw [he, mem_allNodes] at hm'
    obtain ⟨b', hb', hmb⟩ := hm'
    have hbmem : b ∈ t.buckets := List.mem_of_getElem? hb
    rcases List.mem_or_eq_of_mem_set hb' with hb' | rfl
    · exact Or.inl ((mem_allNodes t m').mpr ⟨b', hb', hmb⟩)
    · rcases mem_modify_iff f b.nodes j m' hmb with hold | ⟨_, rfl⟩
      · exact Or.inl ((mem_allNodes t m').mpr ⟨b, hbmem, hold⟩)
      · exact Or.inr ⟨b.nodes[j], (mem_allNodes t _).mpr ⟨b, hbmem, List.getElem_mem hj⟩, hh, hp, rfl⟩

/-- slots with another handle are not touched -/
theorem modifyNode_keep (t : Table) (h : Handle) (now : Nat) (f : Node → Node) (n : Node) (hn : n ∈ t.allNodes)
    (hne : n.handle ≠ h) : n ∈ (t.modifyNode h now f).1.allNodes := by
  rcases modifyNode_shape t h now f with he | ⟨b, j, hj, hb, hp, hh, _, he⟩
  · rw [he]; exact hn
  · rw [he]
    refine mem_allNodes_set t _ b _ hb n hn (fun hnb => ?_)
    obtain ⟨k, hk, rfl⟩ := List.mem_iff_getElem.mp hnb
    have hjk : j ≠ k := by rintro rfl; exact hne hh
    exact List.mem_iff_getElem.mpr ⟨k, by simpa using hk, by simp [hjk]⟩

/-- a listed, pingable contact is found: afterwards its only entry is the mutated one -/
theorem modifyNode_hit (t : Table) (ht : TInv t) (h : Handle) (now : Nat) (f : Node → Node)
    (hf : ∀ m, (f m).handle = m.handle ∧ (f m).lastResponse = m.lastResponse)
    (n : Node) (hn : n ∈ t.allNodes) (hh : n.handle = h) (hp : n.isPingable now = true) :
    ∀ m' ∈ (t.modifyNode h now f).1.allNodes, m'.handle = h → m'.lastResponse ≠ none → m' = f n := by
  have hln : n.lastResponse ≠ none := pingable_answered n now hp
  obtain ⟨i, hi, a, ha, rfl⟩ := (mem_allNodes_idx t n).mp hn
  have hidx := (entry_bucket t ht i hi _ (List.getElem_mem ha) hln).1
  rw [hh] at hidx
  have ht' := (tinv_modifyNode t h now f ht hf).1
  have he : ∃ j, ∃ hj : j < t.buckets[i].nodes.length, t.buckets[i].nodes[j].isPingable now = true ∧
      t.buckets[i].nodes[j].handle = h ∧
      (t.modifyNode h now f).1 = { t with buckets := t.buckets.set i { nodes := t.buckets[i].nodes.modify j f } } := by
    unfold Table.modifyNode
    simp only [hidx, List.getElem?_eq_getElem hi]
    cases hpos : positionOf (fun m => m.isPingable now && decide (m.handle = h)) t.buckets[i].nodes with
    | none =>
      have := positionOf_none _ _ hpos _ (List.getElem_mem ha)
      simp [hp, hh] at this
    | some j =>
      obtain ⟨hj, h1, _⟩ := positionOf_some _ _ _ hpos
      simp only [Bool.and_eq_true, decide_eq_true_eq] at h1
      exact ⟨j, hj, h1.1, h1.2, rfl⟩
  obtain ⟨j, hj, hpj, hhj, he⟩ := he
  -- the found slot is this contact's slot
  have hja : j = a :=
    (entry_unique_idx t ht i i hi hi j a hj ha (pingable_answered _ now hpj) hln (hhj.trans hh.symm)).2
  subst hja
  intro m' hm' hh' hl'
  have hfn : f t.buckets[i].nodes[j] ∈ (t.modifyNode h now f).1.allNodes := by
    rw [he, mem_allNodes]
    exact ⟨{ nodes := t.buckets[i].nodes.modify j f }, List.mem_set hi _,
      List.mem_iff_getElem.mpr ⟨j, by simpa using hj, by simp⟩⟩
  refine entry_unique _ ht' m' _ hm' hfn hl' ?_ ?_
  · rw [(hf _).2]; exact hln
  · rw [(hf _).1, hh', hh]

theorem localRequest_mark (m : Node) (now : Nat) : (m.localRequest now).lastLocalRequest = some now := by
  unfold Node.localRequest; simp only; split <;> rfl

/-- a query sent at `now ≥ τ` (to anybody) keeps every shield -/
theorem shielded_markRequested (t : Table) (h' : Handle) (now : Nat) (h : Handle) (τ : Nat) (hs : Shielded t h τ)
    (hle : τ ≤ now) : Shielded (markRequested t h' now) h τ := by
  intro m' hm' hh hl
  rcases modifyNode_mem t h' now _ m' hm' with hold | ⟨m, _, _, _, rfl⟩
  · exact hs m' hold hh hl
  · exact Or.inl ⟨now, localRequest_mark m now, hle⟩

/-- a query received keeps every shield -/
theorem shielded_markRemote (t : Table) (h' : Handle) (now : Nat) (h : Handle) (τ : Nat) (hs : Shielded t h τ) :
    Shielded (t.modifyNode h' now (fun m => m.remoteRequest now)).1 h τ := by
  intro m' hm' hh hl
  rcases modifyNode_mem t h' now _ m' hm' with hold | ⟨m, hm, _, _, rfl⟩
  · exact hs m' hold hh hl
  · exact hs m hm hh hl

/-- a query sent at `now ≥ τ` to a listed contact shields it -/
theorem markRequested_shields (t : Table) (ht : TInv t) (now : Nat) (n : Node) (hn : n ∈ t.allNodes)
    (hp : n.isPingable now = true) (τ : Nat) (hle : τ ≤ now) : Shielded (markRequested t n.handle now) n.handle τ := by
  intro m' hm' hh _hl
  have := modifyNode_hit t ht n.handle now (fun m => m.localRequest now) (fun m => localRequest_keeps m now)
    n hn rfl hp m' hm' hh _hl
  rw [this]
  exact Or.inl ⟨now, localRequest_mark n now, hle⟩

theorem tinv_markRequested (t : Table) (h : Handle) (now : Nat) (ht : TInv t) :
    TInv (markRequested t h now) ∧ SameEnv t (markRequested t h now) :=
  tinv_modifyNode t h now _ ht (fun m => localRequest_keeps m now)

/-! ### a refresh round at table level -/

/-- the contacts waiting for a refresh ping, closest to the round's target first -/
def Table.refreshCands (t : Table) (target : Bytes) (now : Nat) : List Node :=
  (t.closestNodes target now).filter (eligB now)

def Table.refreshPicks (t : Table) (target : Bytes) (now : Nat) : List Node :=
  (t.refreshCands target now).take Constants.REFRESH_CONCURRENCY

def markAll (t : Table) (hs : List Handle) (now : Nat) : Table := hs.foldl (fun acc h => markRequested acc h now) t

/-- the table after the round: every pick marked as queried at `now` -/
def Table.afterRound (t : Table) (target : Bytes) (now : Nat) : Table :=
  markAll t ((t.refreshPicks target now).map (·.handle)) now

theorem markAll_inv (hs : List Handle) (now : Nat) : ∀ (t : Table), TInv t → TInv (markAll t hs now) ∧ SameEnv t (markAll t hs now) := by
  induction hs with
  | nil => intro t h; exact ⟨h, sameEnv_refl t⟩
  | cons a hs ih =>
    intro t h
    obtain ⟨h1, e1⟩ := tinv_markRequested t a now h
    obtain ⟨h2, e2⟩ := ih _ h1
    exact ⟨h2, sameEnv_trans e1 e2⟩

theorem markAll_shielded (hs : List Handle) (now : Nat) (h : Handle) (τ : Nat) (hle : τ ≤ now) :
    ∀ (t : Table), Shielded t h τ → Shielded (markAll t hs now) h τ := by
  induction hs with
  | nil => intro t hs; exact hs
  | cons a hs ih => intro t hsh; exact ih _ (shielded_markRequested t a now h τ hsh hle)

theorem elig_pingable (now : Nat) (n : Node) (h : eligB now n = true) : n.isPingable now = true := by
  simp only [eligB, Bool.and_eq_true, decide_eq_true_eq] at h
  simp [Node.isPingable, h.1]

theorem mem_liveNodes (t : Table) (now : Nat) (n : Node) : n ∈ t.liveNodes now ↔ (n ∈ t.allNodes ∧ n.isPingable now = true) := by
  simp only [Table.liveNodes, Table.allNodes, List.mem_flatMap, Bucket.pingable, List.mem_filter]
  constructor
  · rintro ⟨b, hb, hn, hp⟩; exact ⟨⟨b, hb, hn⟩, hp⟩
  · rintro ⟨⟨b, hb, hn⟩, hp⟩; exact ⟨b, hb, hn, hp⟩

/-- the candidates of a round, whatever its target: the listed eligible contacts -/
theorem mem_refreshCands (t : Table) (ht : TInv t) (hself : t.selfId.length = 20) (target : Bytes) (now : Nat) (n : Node) :
    n ∈ t.refreshCands target now ↔ (n ∈ t.allNodes ∧ eligB now n = true) := by
  unfold Table.refreshCands
  rw [List.mem_filter, (C09_perm t ht hself target now).mem_iff, mem_liveNodes]
  constructor
  · rintro ⟨⟨h1, _⟩, h2⟩; exact ⟨h1, h2⟩
  · rintro ⟨h1, h2⟩; exact ⟨⟨h1, elig_pingable now n h2⟩, h2⟩

/-- the candidates carry pairwise different handles -/
theorem refreshCands_handles (t : Table) (ht : TInv t) (hself : t.selfId.length = 20) (target : Bytes) (now : Nat) :
    ((t.refreshCands target now).map (·.handle)).Nodup := by
  have hnd : (t.refreshCands target now).Nodup := by
    unfold Table.refreshCands
    exact ((C09_perm t ht hself target now).nodup_iff.mpr (liveNodes_nodup t ht now)).filter _
  unfold List.Nodup at hnd ⊢
  rw [List.pairwise_map]
  refine List.Pairwise.imp_of_mem ?_ hnd
  intro a b ha hb hab heq
  obtain ⟨ha1, ha2⟩ := (mem_refreshCands t ht hself target now a).mp ha
  obtain ⟨hb1, hb2⟩ := (mem_refreshCands t ht hself target now b).mp hb
  exact hab (entry_unique t ht a b ha1 hb1 (elig_live now a ha2) (elig_live now b hb2) heq)

theorem refreshPicks_sub (t : Table) (target : Bytes) (now : Nat) : ∀ n ∈ t.refreshPicks target now, n ∈ t.refreshCands target now :=
  fun _ hn => List.mem_of_mem_take hn

theorem refreshPicks_handles (t : Table) (ht : TInv t) (hself : t.selfId.length = 20) (target : Bytes) (now : Nat) :
    ((t.refreshPicks target now).map (·.handle)).Nodup := by
  unfold Table.refreshPicks
  exact (refreshCands_handles t ht hself target now).sublist ((List.take_sublist _ _).map _)

/-- a candidate that is not picked was beaten by 4 others -/
theorem refreshPicks_full (t : Table) (target : Bytes) (now : Nat) (n : Node) (hn : n ∈ t.refreshCands target now)
    (hnot : n ∉ t.refreshPicks target now) : (t.refreshPicks target now).length = 4 := by
  unfold Table.refreshPicks at hnot ⊢
  have h4 : Constants.REFRESH_CONCURRENCY = 4 := by decide
  rw [h4] at hnot ⊢
  rw [List.length_take]
  by_cases hlen : (t.refreshCands target now).length ≤ 4
  · rw [List.take_of_length_le hlen] at hnot; exact absurd hn hnot
  · omega

/-- marking listed contacts with pairwise different handles shields every one of them -/
theorem markAll_shields (now τ : Nat) (hle : τ ≤ now) : ∀ (ns : List Node) (t : Table), TInv t →
    (ns.map (·.handle)).Nodup → (∀ n ∈ ns, n ∈ t.allNodes ∧ n.isPingable now = true) →
    ∀ n ∈ ns, Shielded (markAll t (ns.map (·.handle)) now) n.handle τ := by
  intro ns
  induction ns with
  | nil => intro t _ _ _ n hn; simp at hn
  | cons a ns ih =>
    intro t ht hnd hall n hn
    simp only [List.map_cons, List.nodup_cons, List.mem_map, not_exists, not_and] at hnd
    have ht1 := (tinv_markRequested t a.handle now ht).1
    show Shielded (markAll (markRequested t a.handle now) (ns.map (·.handle)) now) n.handle τ
    rcases List.mem_cons.mp hn with rfl | hn'
    · obtain ⟨h1, h2⟩ := hall n List.mem_cons_self
      exact markAll_shielded _ now _ τ hle _ (markRequested_shields t ht now n h1 h2 τ hle)
    · refine ih _ ht1 hnd.2 (fun m hm => ?_) n hn'
      obtain ⟨h1, h2⟩ := hall m (List.mem_cons_of_mem _ hm)
      exact ⟨modifyNode_keep t a.handle now _ m h1 (fun he => hnd.1 m hm he), h2⟩

/-! ### the pigeonhole -/

/-- **the rely**: what happens to the table between two rounds keeps the shields of the handles in `C` -/
def Rely (C : List Handle) (τ : Nat) (t t' : Table) : Prop := ∀ h ∈ C, Shielded t h τ → Shielded t' h τ

theorem Rely.refl (C : List Handle) (τ : Nat) (t : Table) : Rely C τ t t := fun _ _ h => h
theorem Rely.trans {C : List Handle} {τ : Nat} {a b c : Table} (h1 : Rely C τ a b) (h2 : Rely C τ b c) : Rely C τ a c :=
  fun h hc hs => h2 h hc (h1 h hc hs)

/-- a refresh round (table before it, target, instant) of a window starting at `τ` at which `X` is
listed and eligible but not picked, every other eligible contact being one of `C` -/
structure RoundOk (X : Handle) (C : List Handle) (τ : Nat) (r : Table × Bytes × Nat) : Prop where
  inv : TInv r.1
  self : r.1.selfId.length = 20
  lo : τ ≤ r.2.2
  hi : r.2.2 < τ + thirtyS
  comp : ∀ n ∈ r.1.allNodes, eligB r.2.2 n = true → n.handle ≠ X → n.handle ∈ C
  waiting : ∃ n ∈ r.1.allNodes, n.handle = X ∧ eligB r.2.2 n = true
  unpicked : X ∉ (r.1.refreshPicks r.2.1 r.2.2).map (·.handle)

/-- consecutive rounds: the table after a round evolves into the table before the next one under the rely -/
def Linked (C : List Handle) (τ : Nat) : List (Table × Bytes × Nat) → Prop
  | r :: r' :: rest => Rely C τ (r.1.afterRound r.2.1 r.2.2) r'.1 ∧ Linked C τ (r' :: rest)
  | _ => True

/-- **pigeonhole**: every round of the window that leaves `X` waiting uses up 4 more of the handles of `C` -/
theorem unpicked_rounds (X : Handle) (C : List Handle) (τ : Nat) :
    ∀ (w : List (Table × Bytes × Nat)) (S : List Handle), S.Nodup → (∀ h ∈ S, h ∈ C) →
      (∀ r, w.head? = some r → ∀ h ∈ S, Shielded r.1 h τ) → Linked C τ w → (∀ r ∈ w, RoundOk X C τ r) →
      S.length + 4 * w.length ≤ C.length := by
  intro w
  induction w with
  | nil => intro S hS hsub _ _ _; simpa using List.Nodup.length_le_of_subset hS hsub
  | cons r rest ih =>
    intro S hS hsub hsh hlink hall
    have ok := hall r List.mem_cons_self
    obtain ⟨nX, hnX, hhX, heX⟩ := ok.waiting
    have hcX : nX ∈ r.1.refreshCands r.2.1 r.2.2 := (mem_refreshCands r.1 ok.inv ok.self r.2.1 r.2.2 nX).mpr ⟨hnX, heX⟩
    have hXnot : nX ∉ r.1.refreshPicks r.2.1 r.2.2 := fun hc => ok.unpicked (List.mem_map.mpr ⟨nX, hc, hhX⟩)
    have hlen := refreshPicks_full r.1 r.2.1 r.2.2 nX hcX hXnot
    have hpick : ∀ p ∈ r.1.refreshPicks r.2.1 r.2.2, p ∈ r.1.allNodes ∧ eligB r.2.2 p = true :=
      fun p hp => (mem_refreshCands r.1 ok.inv ok.self r.2.1 r.2.2 p).mp (refreshPicks_sub _ _ _ p hp)
    have hnd := refreshPicks_handles r.1 ok.inv ok.self r.2.1 r.2.2
    -- the picks: in C, not shielded before
    have hPC : ∀ h ∈ (r.1.refreshPicks r.2.1 r.2.2).map (·.handle), h ∈ C ∧ h ∉ S := by
      intro h hh
      obtain ⟨p, hp, rfl⟩ := List.mem_map.mp hh
      obtain ⟨hp1, hp2⟩ := hpick p hp
      refine ⟨ok.comp p hp1 hp2 (fun he => ok.unpicked (he ▸ hh)), fun hS' => ?_⟩
      have := shielded_not_elig r.1 p.handle τ r.2.2 (hsh r rfl _ hS') ok.lo ok.hi p hp1 rfl
      rw [this] at hp2; cases hp2
    have hS' : ((r.1.refreshPicks r.2.1 r.2.2).map (·.handle) ++ S).Nodup :=
      List.nodup_append.mpr ⟨hnd, hS, fun a ha b hb hab => (hPC a ha).2 (hab ▸ hb)⟩
    have hsub' : ∀ h ∈ (r.1.refreshPicks r.2.1 r.2.2).map (·.handle) ++ S, h ∈ C := by
      intro h hh
      rcases List.mem_append.mp hh with hh | hh
      · exact (hPC h hh).1
      · exact hsub h hh
    have hsh' : ∀ r', rest.head? = some r' → ∀ h ∈ (r.1.refreshPicks r.2.1 r.2.2).map (·.handle) ++ S, Shielded r'.1 h τ := by
      intro r' hr' h hh
      cases rest with
      | nil => simp at hr'
      | cons r2 rest2 =>
        simp only [List.head?_cons, Option.some.injEq] at hr'
        subst hr'
        refine hlink.1 h (hsub' h hh) ?_
        rcases List.mem_append.mp hh with hh | hh
        · obtain ⟨p, hp, rfl⟩ := List.mem_map.mp hh
          exact markAll_shields r.2.2 τ ok.lo _ r.1 ok.inv hnd
            (fun n hn => ⟨(hpick n hn).1, elig_pingable _ n (hpick n hn).2⟩) p hp
        · exact markAll_shielded _ r.2.2 h τ ok.lo r.1 (hsh r rfl h hh)
    have hlink' : Linked C τ rest := by
      cases rest with
      | nil => trivial
      | cons r2 rest2 => exact hlink.2
    have := ih _ hS' hsub' hsh' hlink' (fun x hx => hall x (List.mem_cons_of_mem _ hx))
    simp only [List.length_append, List.length_map, hlen, List.length_cons] at this ⊢
    omega

/-! ### offers -/

/-- the entry of a handle in a bucket is the first slot carrying that handle -/
theorem first_slot (b : Bucket) (hh : HandlesOk b.nodes) (hd : Handle) (i : Nat) (hi : i < b.nodes.length)
    (heq : b.nodes[i].handle = hd) (hfirst : ∀ j (hj : j < i), (b.nodes[j]'(Nat.lt_trans hj hi)).handle ≠ hd)
    (e : Node) (he : e ∈ b.nodes) (heh : e.handle = hd) (hel : e.lastResponse ≠ none) : e = b.nodes[i] := by
  obtain ⟨a, ha, rfl⟩ := List.mem_iff_getElem.mp he
  unfold HandlesOk at hh
  rw [List.pairwise_iff_getElem] at hh
  rcases Nat.lt_trichotomy a i with hlt | he | hgt
  · exact absurd heh (hfirst a hlt)
  · subst he; rfl
  · exact absurd (hh i a hi ha hgt (heq.trans heh.symm)) hel

/-- where the slots of a bucket come from after one bucket-level offer -/
theorem bucket_addNode_mem (b : Bucket) (n : Node) (now : Nat) :
    ∀ m' ∈ (b.addNode n now).1.nodes, m' ∈ b.nodes ∨ (m' = n ∧ ∀ x ∈ b.nodes, x.handle ≠ n.handle) ∨
      ∃ (i : Nat) (hi : i < b.nodes.length), b.nodes[i].handle = n.handle ∧
        (∀ j (hj : j < i), (b.nodes[j]'(Nat.lt_trans hj hi)).handle ≠ n.handle) ∧ m' = b.nodes[i].update n now := by
  intro m' hm'
  have ho := addNode_outcome b n now
  generalize b.addNode n now = r at ho hm'
  cases ho with
  | offeredBad _ => exact Or.inl hm'
  | rejected _ _ _ _ => exact Or.inl hm'
  | updated i hi _ heq hfirst =>
    rcases mem_modify_iff _ b.nodes i m' hm' with h | ⟨_, rfl⟩
    · exact Or.inl h
    · exact Or.inr (Or.inr ⟨i, hi, heq, hfirst, rfl⟩)
  | tookFree i hi _ hno _ =>
    rcases List.mem_or_eq_of_mem_set hm' with h | rfl
    · exact Or.inl h
    · exact Or.inr (Or.inl ⟨rfl, hno⟩)
  | evicted i hi _ hno _ _ =>
    rcases List.mem_or_eq_of_mem_set hm' with h | rfl
    · exact Or.inl h
    · exact Or.inr (Or.inl ⟨rfl, hno⟩)

/-- **where the slots of the table come from after one offer** (any number of splits): old slots;
placeholders; the offered node itself — only if no entry with its handle was live; an old entry with
the offered handle updated in place — the only live one with that handle, if any -/
theorem addNode_mem (t : Table) (ht : TInv t) (n : Node) (now : Nat) :
    ∀ m' ∈ (t.addNode n now).allNodes, m' ∈ t.allNodes ∨ m'.lastResponse = none ∨
      (m' = n ∧ ∀ e ∈ t.allNodes, e.handle = n.handle → e.status now = .bad) ∨
      ∃ m ∈ t.allNodes, m.handle = n.handle ∧ m' = m.update n now ∧
        (∀ e ∈ t.allNodes, e.handle = n.handle → e.status now ≠ .bad → e = m) := by
  intro m' hm'
  by_cases hadm : Admissible t n now
  · obtain ⟨tm, b, sh⟩ := C08_split_lossless t ht n now hadm
    have hbmem : b ∈ tm.buckets := List.mem_of_getElem? sh.bucket
    obtain ⟨hidx, hbe⟩ := List.getElem?_eq_some_iff.mp sh.bucket
    have hold : ∀ x ∈ tm.allNodes, x ∈ t.allNodes ∨ x.lastResponse = none := sh.noNew
    -- a live entry with the offered handle sits in the placement bucket
    have hinb : ∀ e ∈ t.allNodes, e.handle = n.handle → e.status now ≠ .bad → e ∈ b.nodes ∧ e.lastResponse ≠ none := by
      intro e he heh hel
      have hel' : e.lastResponse ≠ none := status_live_answered e now hel
      obtain ⟨i2, hi2, a2, ha2, rfl⟩ := (mem_allNodes_idx tm e).mp (sh.lossless e he hel)
      have hplace := (entry_bucket tm sh.inv i2 hi2 _ (List.getElem_mem ha2) hel').2
      rw [heh, sh.env.1] at hplace
      subst hplace
      subst hbe
      exact ⟨List.getElem_mem ha2, hel'⟩
    rw [sh.result, mem_allNodes] at hm'
    obtain ⟨b', hb', hmb⟩ := hm'
    rcases List.mem_or_eq_of_mem_set hb' with hb' | rfl
    · rcases hold m' ((mem_allNodes tm m').mpr ⟨b', hb', hmb⟩) with h | h
      · exact Or.inl h
      · exact Or.inr (Or.inl h)
    · rcases bucket_addNode_mem b n now m' hmb with h | ⟨rfl, hno⟩ | ⟨i, hi, heq, hfirst, rfl⟩
      · rcases hold m' ((mem_allNodes tm m').mpr ⟨b, hbmem, h⟩) with h | h
        · exact Or.inl h
        · exact Or.inr (Or.inl h)
      · refine Or.inr (Or.inr (Or.inl ⟨rfl, fun e he heh => Classical.byContradiction fun hel => ?_⟩))
        exact hno e (hinb e he heh hel).1 heh
      · have huniq : ∀ e ∈ t.allNodes, e.handle = n.handle → e.status now ≠ .bad → e = b.nodes[i] := fun e he heh hel =>
          first_slot b (sh.inv.handles b hbmem) n.handle i hi heq hfirst e (hinb e he heh hel).1 heh (hinb e he heh hel).2
        rcases hold b.nodes[i] ((mem_allNodes tm _).mpr ⟨b, hbmem, List.getElem_mem hi⟩) with h | h
        · exact Or.inr (Or.inr (Or.inr ⟨b.nodes[i], h, heq, rfl, huniq⟩))
        · refine Or.inr (Or.inr (Or.inl ⟨by rw [update_of_bad _ _ _ (status_bad_of_none _ now h) hadm.2.1], ?_⟩))
          intro e he heh
          refine Classical.byContradiction fun hel => ?_
          have := huniq e he heh hel
          rw [this] at hel
          exact hel (status_bad_of_none _ now h)
  · rw [C08_offer_filtered t n now hadm] at hm'
    exact Or.inl hm'

end Btdht
