import Btdht.Proofs.NetStepR
/-!
C01 helpers: timer entries fire on the searching node — a query time-out (too late to matter) and
the end-game entry (the search ends: `recv_finished`, the announces go out).
-/
namespace Btdht

/-- **a query time-out entry of the running search fires** (not early): its query was answered long ago -/
theorem sinv_fire_timeout {P : Phase} (hW : NetWF P) {cfg : NetCfg} {c : RCfg} (h : SInv P cfg c none)
    (now : Nat) (hn1 : cfg.now ≤ now) (htimely : ∀ p ∈ cfg.flight, now ≤ p.sent + P.D) (hG : now ≤ P.G)
    (n : NNode) (hk : cfg.nodes[P.ia]? = some n) (timer : Timer Task) (e : TimerEntry Task)
    (hpop : n.st.timer.pop = some (timer, e)) (hdue : e.deadline ≤ now) (t : Tid) (htask : e.task = .lookupTimeout t) :
    SInv P (cfg.step (.fire P.ia) now) { c with now := now } none := by
  have hnk := h.nodes P.ia n hk
  have hc := h.client rfl
  obtain ⟨m, hm, hml, hmt, hmp⟩ := hc.node
  rw [hk] at hm; cases hm
  obtain ⟨p1, _, p3, _, _⟩ := pop_spec n.st.timer timer e hpop
  obtain ⟨q, hq, hqt, hqd⟩ := (hmt e p1).1 t htask
  have hfails : ∀ a, (timerEnvOf n.st timer now).sendFails a = false := fun a => by
    simp [timerEnvOf, hnk.serves.sends]
  have hadm : GAdm P.N (2 * P.D) c (timerEnvOf n.st timer now) (.timeout t) :=
    ⟨hfails, Nat.le_trans hc.clock hn1, client_timely h now htimely, q, hq, hqt, by
      show q.2.2 + Constants.LOOKUP_TIMEOUT_ns ≤ now
      omega⟩
  obtain ⟨hg', _⟩ := gstep_timeout hW.lat c _ t hc.ginv hadm
  obtain ⟨hnoop, hcfg⟩ := gtimeout_noop hW.lat c _ t hc.ginv hadm
  rw [hcfg] at hg'
  have haid : t.aid = c.l.aid := by rw [← hqt]; exact (hc.ginv.q.seq q hq).1
  have hnc : (c.l.recvTimeout (timerEnvOf n.st timer now) t).1.completedNow = false := by
    rw [hnoop]; exact ginv_not_completed hc.ginv
  have hstepE : n.st.hstepE .fire now = ({ n.st with table := n.st.table, timer := timer, lookups := [c.l] }, []) := by
    have := client_timeout n.st c.l timer e t now hml hpop htask haid hnc
    rw [hnoop] at this
    simp only [HState.hstepE, this]
    rfl
  show SInv P (cfg.nodeStep P.ia .fire now) _ none
  rw [step_node_eq cfg P.ia n .fire now hk, hstepE, emit_nil, List.append_nil]
  have hy : yieldsOf P.ia ([] : List HEffect) = [] := rfl
  rw [hy, List.append_nil]
  refine sinv_client_step hW h hk { n.st with table := n.st.table, timer := timer, lookups := [c.l] } { c with now := now }
    now hn1 hG rfl rfl rfl rfl hnk.serves.knows rfl rfl rfl ?_ rfl hg' (Static.refl _) (Nat.le_refl _) _ _
    (fun p hp => ?_) hc.cover hc.toks hc.yielded h.ysound
  · intro te hte
    exact hmt te (p3 te hte)
  · refine pktOk_mono (c := c) (fun y t hv => ?_) (fun q hq => hq) (fun T hf => hf) (h.pkts p hp)
    exact tokV_set (n' := { n with st := { n.st with table := n.st.table, timer := timer, lookups := [c.l] } })
      hW hk rfl (Or.inl rfl) (Nat.le_trans hnk.tokClock hn1) hG hv

theorem recvFinished_aid (l : Lookup) (env : LEnv) (port : Option Nat) :
    ∀ e ∈ (l.recvFinished env port).2.2, ∀ dst tid req ok, e = Effect.send dst tid req ok → tid.aid = l.aid := by
  unfold Lookup.recvFinished
  simp only
  have key : ∀ (ts : List (Bytes × Handle × Bool)) (acc : Lookup × LEnv × List Effect),
      acc.1.aid = l.aid → (∀ e ∈ acc.2.2, ∀ dst tid req ok, e = Effect.send dst tid req ok → tid.aid = l.aid) →
      ((ts.foldl (announceStep port) acc).1.aid = l.aid ∧
        ∀ e ∈ (ts.foldl (announceStep port) acc).2.2, ∀ dst tid req ok, e = Effect.send dst tid req ok → tid.aid = l.aid) := by
    intro ts
    induction ts with
    | nil => intro acc h1 h2; exact ⟨h1, h2⟩
    | cons x xs ih =>
      intro acc h1 h2
      apply ih
      · unfold announceStep; simp only; split <;> exact h1
      · intro e he dst tid req ok heq
        unfold announceStep at he
        simp only at he
        split at he
        · rcases List.mem_append.mp he with he | he
          · exact h2 e he dst tid req ok heq
          · rw [List.mem_singleton.mp he] at heq
            simp only [Effect.send.injEq] at heq
            rw [← heq.2.1]; exact h1
        · rcases List.mem_append.mp he with he | he
          · exact h2 e he dst tid req ok heq
          · rw [List.mem_singleton.mp he] at heq
            simp only [Effect.send.injEq] at heq
            rw [← heq.2.1]; exact h1
  intro e he dst tid req ok heq
  rcases List.mem_append.mp he with he | he
  · split at he
    · exact (key l.announceTargets (l, env, []) rfl (fun e he => by simp at he)).2 e he dst tid req ok heq
    · simp at he
  · rw [List.mem_singleton.mp he] at heq; cases heq

theorem mem_sendsOf {effs : List Effect} {x : Addr × Req × Bool} :
    x ∈ sendsOf effs ↔ ∃ tid, Effect.send x.1 tid x.2.1 x.2.2 ∈ effs := by
  unfold sendsOf
  rw [List.mem_filterMap]
  constructor
  · rintro ⟨e, he, hx⟩
    cases e with
    | send d t r o => simp only [Option.some.injEq] at hx; subst hx; exact ⟨t, he⟩
    | yield st a => simp at hx
    | close st => simp at hx
  · rintro ⟨tid, he⟩
    exact ⟨_, he, rfl⟩

/-- **the end-game entry of the running search fires** (not early): the search ends; if it was an
announcing one, an `announce_peer` with a valid token goes out to each of the 8 closest nodes -/
theorem sinv_fire_finish {P : Phase} (hW : NetWF P) {cfg : NetCfg} {c : RCfg} (h : SInv P cfg c none)
    (now : Nat) (hn1 : cfg.now ≤ now) (htimely : ∀ p ∈ cfg.flight, now ≤ p.sent + P.D) (hG : now ≤ P.G)
    (n : NNode) (hk : cfg.nodes[P.ia]? = some n) (timer : Timer Task) (e : TimerEntry Task)
    (hpop : n.st.timer.pop = some (timer, e)) (hdue : e.deadline ≤ now) (t : Tid) (htask : e.task = .lookupEndGame t) :
    SInv P (cfg.step (.fire P.ia) now) c (some now) ∧ ∀ q ∈ c.log, q.1 ∈ c.answered := by
  have hnk := h.nodes P.ia n hk
  have hc := h.client rfl
  have hklt : P.ia < cfg.nodes.length := (List.getElem?_eq_some_iff.mp hk).1
  obtain ⟨m, hm, hml, hmt, hmp⟩ := hc.node
  rw [hk] at hm; cases hm
  obtain ⟨p1, _, p3, _, _⟩ := pop_spec n.st.timer timer e hpop
  obtain ⟨haid, u, hu, hud⟩ := (hmt e p1).2.1 t htask
  have hfails : ∀ a, (timerEnvOf n.st timer now).sendFails a = false := fun a => by
    simp [timerEnvOf, hnk.serves.sends]
  have hE : Constants.ENDGAME_TIMEOUT_ns = Constants.LOOKUP_TIMEOUT_ns := by decide
  obtain ⟨htargets, _, hansw⟩ := gfinish_targets (hc.ginv.tgt ▸ hW.net) (by rw [hE]; exact hW.lat) c now hc.ginv
    (client_timely h now htimely) ⟨u, hu, by omega⟩
  refine ⟨?_, hansw⟩
  have hstepE : n.st.hstepE .fire now =
      ({ n.st with
          table := (c.l.recvFinished (timerEnvOf n.st timer now) n.st.announcePort).2.1.table,
          timer := (c.l.recvFinished (timerEnvOf n.st timer now) n.st.announcePort).2.1.timer,
          lookups := [] },
       liftEffects (c.l.recvFinished (timerEnvOf n.st timer now) n.st.announcePort).2.2) := by
    simp only [HState.hstepE, client_finish n.st c.l timer e t now hml hpop htask haid]
  show SInv P (cfg.nodeStep P.ia .fire now) c (some now)
  rw [step_node_eq cfg P.ia n .fire now hk, hstepE]
  obtain ⟨anns, heffs, hanns, _, _, _⟩ := recvFinished_spec (timerEnvOf n.st timer now).table c.l (timerEnvOf n.st timer now)
    n.st.announcePort (.refl _)
  have haids := recvFinished_aid c.l (timerEnvOf n.st timer now) n.st.announcePort
  have hsends := fun hw => recvFinished_sends c.l (timerEnvOf n.st timer now) n.st.announcePort hw hfails
  have hknows : Knows n.st.selfId (P.N.filter (· ≠ n.handle)) P.G
      (c.l.recvFinished (timerEnvOf n.st timer now) n.st.announcePort).2.1.table :=
    recvFinished_tbl (knows_markClosed _ _ _) c.l _ _ hnk.serves.knows
  have htimer := recvFinished_timer c.l (timerEnvOf n.st timer now) n.st.announcePort
  generalize c.l.recvFinished (timerEnvOf n.st timer now) n.st.announcePort = q at heffs haids hsends hknows htimer
  have hh : ({ n with st := { n.st with table := q.2.1.table, timer := q.2.1.timer, lookups := [] } } : NNode).handle = n.handle := rfl
  have htokV : ∀ x t, TokV P cfg x t → TokV P
      { nodes := cfg.nodes.set P.ia { n with st := { n.st with table := q.2.1.table, timer := q.2.1.timer, lookups := [] } },
        flight := cfg.flight ++ emit cfg.nodes n.addr now (liftEffects q.2.2), now := now,
        yields := cfg.yields ++ yieldsOf P.ia (liftEffects q.2.2) } x t :=
    fun x t hv => tokV_set hW hk hh (Or.inl rfl) (Nat.le_trans hnk.tokClock hn1) hG hv
  have hnaddr : n.addr = P.a.addr := by
    obtain ⟨n2, hk2, hna, _⟩ := client_node hW h
    rw [hk] at hk2; cases hk2; rw [← hna]; rfl
  refine ⟨by simp [h.len], fun j m hj => ?_, fun j m hj _ => ?_, ⟨Nat.le_trans h.time.1 hn1, hG⟩, fun p hp => ?_,
    fun hf => (by cases hf), fun hf => (by cases hf), fun e he => ?_, fun T1 hT hann x hx => ?_,
    fun T1 hT => (by cases hT; exact ⟨Nat.le_trans h.time.1 hn1, Nat.le_refl _⟩)⟩
  · -- the nodes
    simp only at hj ⊢
    by_cases hjk : j = P.ia
    · subst hjk
      rw [List.getElem?_set_self hklt] at hj
      cases hj
      refine ⟨hnk.handle, ⟨hnk.serves.serving, hnk.serves.sends, hnk.serves.idlen, hknows, hnk.serves.fam, hnk.serves.noph⟩,
        Nat.le_trans hnk.tokClock hn1, stWF_mono hnk.storeWF hn1, hnk.storeSmall, hnk.storeMust, fun te hte => ?_⟩
      simp only at hte
      rw [htimer] at hte
      exact (hmt te (p3 te hte)).2.2
    · rw [List.getElem?_set_ne (fun hc => hjk hc.symm)] at hj
      exact nodeOk_mono (h.nodes j m hj) hn1
  · -- nobody runs a search any more
    simp only at hj
    by_cases hjk : j = P.ia
    · subst hjk
      rw [List.getElem?_set_self hklt] at hj
      cases hj
      rfl
    · rw [List.getElem?_set_ne (fun hc => hjk hc.symm)] at hj
      exact h.idle j m hj (Or.inl hjk)
  · -- the datagrams
    rcases List.mem_append.mp hp with hp | hp
    · exact pktOk_mono htokV (fun q hq => hq) (fun T hf => by cases hf) (h.pkts p hp)
    · obtain ⟨dst, tt, body, he, _, rfl⟩ := mem_emit.mp hp
      obtain ⟨tid, req, rfl, rfl, he'⟩ := mem_lift_send.mp he
      have haid' := haids _ he' dst tid req true rfl
      rw [heffs] at he'
      rcases List.mem_append.mp he' with he' | he'
      · obtain ⟨hh', tok, htk, hd, hr⟩ := hanns _ he'
        refine .announce hh' tid tok now rfl rfl (hc.ginv.toks _ htk) hnaddr hd rfl (haid'.trans hc.aid) ?_ (htokV _ _ (hc.toks _ htk))
        rw [hr, hc.selfId, hc.ginv.tgt, hmp]
      · simp at he'
  · -- no yields
    rcases List.mem_append.mp he with he | he
    · exact h.ysound e he
    · obtain ⟨_, h2⟩ := mem_yieldsOf.mp he
      have h3 := mem_lift_yield.mp h2
      rw [heffs] at h3
      rcases List.mem_append.mp h3 with h3 | h3
      · exact absurd (hanns _ h3) id
      · simp at h3
  · -- every one of the 8 closest nodes gets its announce
    left
    have hw : c.l.willAnnounce = true := hc.ann.trans hann
    have hx' : x ∈ c.l.announceTargets.map (·.2.1) := by rw [htargets]; exact hx
    obtain ⟨e0, he0, rfl⟩ := List.mem_map.mp hx'
    have hin : (e0.2.1.addr, Req.announce c.l.selfId c.l.target n.st.announcePort
        (((c.l.tokens.find? (·.1 = e0.2.1)).map (·.2)).getD []), true) ∈ sendsOf q.2.2 := by
      rw [hsends hw]; exact List.mem_map.mpr ⟨e0, he0, rfl⟩
    obtain ⟨tid, hsend⟩ := mem_sendsOf.mp hin
    have hany : cfg.nodes.any (fun m => m.addr = e0.2.1.addr) = true :=
      any_addr hW h.len (fun k n hk => (h.nodes k n hk).handle) (mem_closestK hx)
    exact ⟨_, List.mem_append_right _ (mem_emit.mpr ⟨_, _, _, mem_lift_send.mpr ⟨tid, _, rfl, rfl, hsend⟩, hany, rfl⟩),
      rfl, _, by rw [hc.selfId, hc.ginv.tgt, hmp]⟩

end Btdht
