import Btdht.Model.Node
/-
Model of src/bucket.rs and src/table.rs: `Bucket`, `RoutingTable`, `ClosestNodes`.
-/
namespace Btdht

/-! ### ids -/

/-- the 8 bits of a byte, most significant first -/
def byteBits (b : Nat) : List Bool :=
  [b / 128 % 2 = 1, b / 64 % 2 = 1, b / 32 % 2 = 1, b / 16 % 2 = 1,
   b / 8 % 2 = 1, b / 4 % 2 = 1, b / 2 % 2 = 1, b % 2 = 1]

def idBits (id : Bytes) : List Bool := id.flatMap byteBits

/-- length of the common prefix of two bit strings -/
def commonPrefix : List Bool → List Bool → Nat
  | a :: as, b :: bs => if a = b then commonPrefix as bs + 1 else 0
  | _, _ => 0

/-- `leading_bit_count(local, remote)` = `(local ^ remote).leading_zeros()` -/
def lcp (a b : Bytes) : Nat := commonPrefix (idBits a) (idBits b)

/-- `flip_bit(index)` -/
def flipBit (id : Bytes) (index : Nat) : Bytes :=
  id.mapIdx fun i b => if i = index / 8 then b ^^^ (2 ^ (7 - index % 8)) else b

/-! ### Bucket -/

def placeholderHandle : Handle := { id := List.replicate Constants.INFO_HASH_LEN 0, addr := ⟨false, [127, 0, 0, 1], 0⟩ }

structure Bucket where
  nodes : List Node
  deriving Repr, DecidableEq

/-- `Bucket::new()`: eight bad placeholder nodes -/
def Bucket.new : Bucket := { nodes := List.replicate Constants.MAX_BUCKET_SIZE (Node.asBad placeholderHandle) }

def Bucket.pingable (b : Bucket) (now : Nat) : List Node := b.nodes.filter (·.isPingable now)

/-- first index satisfying `p` (`Iterator::position`) -/
def positionOf {α} (p : α → Bool) : List α → Option Nat
  | [] => none
  | a :: as => if p a then some 0 else (positionOf p as).map (· + 1)

/-- `Bucket::add_node`: returns the bucket and `false` iff the node could not be placed because
the bucket is full. -/
def Bucket.addNode (b : Bucket) (n : Node) (now : Nat) : Bucket × Bool :=
  let st := n.status now
  if st = .bad then (b, true)
  else match positionOf (fun m => m.handle = n.handle) b.nodes with
    | some i => ({ nodes := b.nodes.modify i (fun m => m.update n now) }, true)
    | none =>
      -- a free (bad) slot first; else the first node of strictly lower status
      match (positionOf (fun m => m.status now = .bad) b.nodes).orElse
            (fun _ => positionOf (fun m => m.status now < st) b.nodes) with
      | some i => ({ nodes := b.nodes.set i n }, true)
      | none => (b, false)

/-! ### RoutingTable -/

structure Table where
  selfId : Bytes
  buckets : List Bucket
  routers : List Addr
  deriving Repr

def maxBuckets : Nat := Constants.MAX_BUCKETS

def Table.new (selfId : Bytes) : Table := { selfId := selfId, buckets := [Bucket.new], routers := [] }

/-- `bucket_placement` -/
def bucketPlacement (numSameBits numBuckets : Nat) : Nat :=
  if numSameBits ≥ numBuckets then numBuckets - 1 else numSameBits

/-- `can_split_bucket` -/
def canSplitBucket (numBuckets bucketIndex : Nat) : Bool :=
  bucketIndex = numBuckets - 1 && bucketIndex ≠ maxBuckets - 1

/-- `add_node` / `bucket_node` / `split_bucket` (mutually recursive in the code; `fuel` bounds the
number of splits, at most one per missing bucket). -/
def Table.addNodeF : Nat → Table → Node → Nat → Table
  | fuel, t, n, now =>
    if t.routers.contains n.handle.addr then t
    else if n.status now = .bad then t
    else
      let k := lcp t.selfId n.handle.id
      if k = maxBuckets then t
      else bucketNodeF fuel t n k now
where
  bucketNodeF : Nat → Table → Node → Nat → Nat → Table
  | fuel, t, n, k, now =>
    let idx := bucketPlacement k t.buckets.length
    match t.buckets[idx]? with
    | none => t
    | some b =>
      let (b', ok) := b.addNode n now
      if ok then { t with buckets := t.buckets.set idx b' }
      else if canSplitBucket t.buckets.length idx then
        match fuel with
        | 0 => t
        | fuel + 1 =>
          -- split_bucket: pop the last bucket, push two new ones, re-add its nodes
          let old := t.buckets.getLast?.getD Bucket.new
          let t1 := { t with buckets := t.buckets.dropLast ++ [Bucket.new, Bucket.new] }
          let t2 := old.nodes.foldl (fun acc m => Table.addNodeF fuel acc m now) t1
          bucketNodeF fuel t2 n k now
      else t

def Table.addNode (t : Table) (n : Node) (now : Nat) : Table := Table.addNodeF maxBuckets t n now

/-- `bucket_index_for_node` -/
def Table.bucketIndexFor (t : Table) (id : Bytes) : Nat :=
  let k := lcp t.selfId id
  if k < t.buckets.length then k else t.buckets.length - 1

/-- `find_node_mut(handle)` followed by a mutation `f` of the found (pingable) node;
the result says whether a node was found. -/
def Table.modifyNode (t : Table) (h : Handle) (now : Nat) (f : Node → Node) : Table × Bool :=
  let idx := t.bucketIndexFor h.id
  match t.buckets[idx]? with
  | none => (t, false)
  | some b =>
    match positionOf (fun m => m.isPingable now && m.handle = h) b.nodes with
    | none => (t, false)
    | some i => ({ t with buckets := t.buckets.set idx { nodes := b.nodes.modify i f } }, true)

/-- `add_nodes(node, questionable_nodes)` -/
def Table.addNodes (t : Table) (n : Node) (named : List Handle) (now : Nat) : Table :=
  named.foldl (fun acc h => acc.addNode (Node.asQuestionable h now) now) (t.addNode n now)

/-! ### ClosestNodes -/

def indexInBounds (length : Nat) (i : Option Nat) : Bool :=
  match i with
  | some i => i < length
  | none => false

def checkedSub (a b : Nat) : Option Nat := if b ≤ a then some (a - b) else none

/-- `next_bucket_index(num_buckets, start_index, curr_index)` -/
def nextBucketIndex (numBuckets start curr : Nat) : Option Nat :=
  if curr = start then
    let right := some (start + 1)
    let left := checkedSub start 1
    if indexInBounds numBuckets right then right
    else if indexInBounds numBuckets left then left else none
  else if curr > start then
    let offset := curr - start
    let left := checkedSub start offset
    let right := some (curr + 1)
    if indexInBounds numBuckets left then left
    else if indexInBounds numBuckets right then right else none
  else
    let offset := (start - curr) + 1
    let right := some (start + offset)
    let left := checkedSub curr 1
    if indexInBounds numBuckets right then right
    else if indexInBounds numBuckets left then left else none

/-- the indices visited by the iterator, in order, starting at `start` -/
def walkFrom (numBuckets start : Nat) : Nat → Nat → List Nat
  | 0, _ => []
  | fuel + 1, curr =>
    curr :: match nextBucketIndex numBuckets start curr with
            | some nxt => walkFrom numBuckets start fuel nxt
            | none => []

/-- `closest_nodes(target)` collected into a list (evaluated at `now`) -/
def Table.closestNodes (t : Table) (target : Bytes) (now : Nat) : List Node :=
  let start := lcp t.selfId target
  let full := t.buckets.length = maxBuckets
  let sorted := if full then t.buckets else t.buckets.dropLast
  let assorted : List (Nat × Node) :=
    if full then [] else (t.buckets.getLast?.getD Bucket.new).nodes.map (fun n => (lcp t.selfId n.handle.id, n))
  (walkFrom maxBuckets start (maxBuckets + 1) start).flatMap fun idx =>
    (match sorted[idx]? with
     | some b => b.pingable now
     | none => []) ++
    ((assorted.filter (fun p => p.1 = idx && p.2.isPingable now)).map (·.2))

/-- `load_contacts()` as two lists (bucket order) -/
def Table.loadContacts (t : Table) (now : Nat) : List Addr × List Addr :=
  let all := t.buckets.flatMap (·.nodes)
  ((all.filter (fun n => n.status now = .good)).map (·.handle.addr),
   (all.filter (fun n => n.status now = .questionable)).map (·.handle.addr))

def Table.numGood (t : Table) (now : Nat) : Nat :=
  ((t.closestNodes t.selfId now).filter (fun n => n.status now = .good)).length

def Table.numQuestionable (t : Table) (now : Nat) : Nat :=
  ((t.closestNodes t.selfId now).filter (fun n => n.status now = .questionable)).length

end Btdht
