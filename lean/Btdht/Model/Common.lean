/-
Shared helpers of the executable model: hex text <-> bytes, list utilities.
Bytes are `Nat` values below 256 held in `List Nat` (one representation everywhere).
No imports: everything under `Btdht/Model` must link into the `btdht_model` executable.
-/
namespace Btdht

abbrev Bytes := List Nat

def hexDigit (n : Nat) : Char :=
  if n < 10 then Char.ofNat (48 + n) else Char.ofNat (87 + n)

def hexOfBytes (bs : Bytes) : String :=
  String.ofList (bs.flatMap fun b => [hexDigit (b / 16 % 16), hexDigit (b % 16)])

def hexVal? (c : Char) : Option Nat :=
  if '0' ≤ c ∧ c ≤ '9' then some (c.toNat - 48)
  else if 'a' ≤ c ∧ c ≤ 'f' then some (c.toNat - 87)
  else if 'A' ≤ c ∧ c ≤ 'F' then some (c.toNat - 55)
  else none

def bytesOfHexChars : List Char → Option Bytes
  | [] => some []
  | [_] => none
  | a :: b :: rest =>
    match hexVal? a, hexVal? b, bytesOfHexChars rest with
    | some x, some y, some r => some ((x * 16 + y) :: r)
    | _, _, _ => none

/-- `-` stands for the empty byte string in the line protocol. -/
def bytesOfHex? (s : String) : Option Bytes :=
  if s = "-" then some [] else bytesOfHexChars s.toList

def hexOrDash (bs : Bytes) : String := if bs.isEmpty then "-" else hexOfBytes bs

def words (line : String) : List String :=
  (line.trimAscii.toString.splitOn " ").filter (· ≠ "")

def joinWith (sep : String) : List String → String
  | [] => ""
  | [x] => x
  | x :: xs => x ++ sep ++ joinWith sep xs

/-- big-endian value of a byte list -/
def beVal (bs : Bytes) : Nat := bs.foldl (fun acc b => acc * 256 + b) 0

/-- `n` as `k` big-endian bytes -/
def beBytes : Nat → Nat → Bytes
  | 0, _ => []
  | k + 1, n => beBytes k (n / 256) ++ [n % 256]

/-- A socket address: family, ip octets (4 or 16), port. (`SocketAddr` without flowinfo/scope id.) -/
structure Addr where
  v6 : Bool
  ip : Bytes
  port : Nat
  deriving DecidableEq, Repr

/-- text form used by the line protocol: `v4:0a000001:6881` -/
def Addr.toStr (a : Addr) : String :=
  (if a.v6 then "v6:" else "v4:") ++ hexOfBytes a.ip ++ ":" ++ toString a.port

def Addr.parse? (s : String) : Option Addr :=
  match s.splitOn ":" with
  | [fam, ip, port] =>
    match bytesOfHex? ip, port.toNat? with
    | some ip, some port =>
      if fam = "v4" ∧ ip.length = 4 then some ⟨false, ip, port⟩
      else if fam = "v6" ∧ ip.length = 16 then some ⟨true, ip, port⟩
      else none
    | _, _ => none
  | _ => none

end Btdht
