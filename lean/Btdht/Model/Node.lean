import Btdht.Model.Common
import Btdht.Generated.Constants
/-
Model of src/node.rs: `Node`, `NodeStatus`, `NodeHandle`. Times are virtual nanoseconds (`Nat`).
-/
namespace Btdht

inductive Status where
  | bad | questionable | good
  deriving DecidableEq, Repr

/-- `NodeStatus`'s derived order: Bad < Questionable < Good -/
def Status.rank : Status → Nat
  | .bad => 0
  | .questionable => 1
  | .good => 2

instance : LT Status := ⟨fun a b => a.rank < b.rank⟩
instance (a b : Status) : Decidable (a < b) := inferInstanceAs (Decidable (a.rank < b.rank))

def Status.letter : Status → String
  | .bad => "B"
  | .questionable => "Q"
  | .good => "G"

structure Handle where
  id : Bytes
  addr : Addr
  deriving DecidableEq, Repr

structure Node where
  handle : Handle
  lastRequest : Option Nat
  lastResponse : Option Nat
  lastLocalRequest : Option Nat
  refreshRequests : Nat
  deriving DecidableEq, Repr

/-- `MAX_LAST_SEEN_MINS * 60` seconds in ns -/
def lastSeenNs : Nat := Constants.MAX_LAST_SEEN_MINS * 60 * 1000000000

def Node.asGood (h : Handle) (now : Nat) : Node :=
  { handle := h, lastResponse := some now, lastRequest := none, lastLocalRequest := none, refreshRequests := 0 }

/-- `as_questionable`: pretends a response exactly 15 minutes ago (`now ≥ 15 min` always holds in
the implementation thanks to the one-week offset of its clock). -/
def Node.asQuestionable (h : Handle) (now : Nat) : Node :=
  { handle := h, lastResponse := some (now - lastSeenNs), lastRequest := none, lastLocalRequest := none,
    refreshRequests := 0 }

def Node.asBad (h : Handle) : Node :=
  { handle := h, lastResponse := none, lastRequest := none, lastLocalRequest := none, refreshRequests := 0 }

/-- `Node::status()` evaluated at `now` -/
def Node.status (n : Node) (now : Nat) : Status :=
  match n.lastResponse with
  | none => .bad
  | some r =>
    if now - r < lastSeenNs then .good
    else if n.refreshRequests ≥ Constants.MAX_REFRESH_REQUESTS then .bad
    else match n.lastRequest with
      | some q => if now - q < lastSeenNs then .good else .questionable
      | none => .questionable

def Node.isPingable (n : Node) (now : Nat) : Bool := n.status now ≠ .bad

/-- `Node::update(other)` (both have the same handle) -/
def Node.update (n other : Node) (now : Nat) : Node :=
  match n.status now, other.status now with
  | .good, .good => { n with lastResponse := other.lastResponse, refreshRequests := 0 }
  | .good, _ => n
  | .questionable, .good => other
  | .questionable, _ => n
  | .bad, .good => other
  | .bad, .questionable => other
  | .bad, .bad => n

/-- `local_request()`: we sent the node a query -/
def Node.localRequest (n : Node) (now : Nat) : Node :=
  let n' := { n with lastLocalRequest := some now }
  if n'.status now ≠ .good then { n' with refreshRequests := n'.refreshRequests + 1 } else n'

/-- `remote_request()`: the node sent us a query -/
def Node.remoteRequest (n : Node) (now : Nat) : Node := { n with lastRequest := some now }

/-- `recently_requested_from()` -/
def Node.recentlyRequestedFrom (n : Node) (now : Nat) : Bool :=
  match n.lastLocalRequest with
  | some t => now < t + Constants.RECENTLY_REQUESTED_SECS * 1000000000
  | none => false

end Btdht
