import Btdht.Model.Bencode
import Btdht.Model.Node
/-
KRPC messages (src/message.rs, src/compact.rs): the encoder as the BEP5/BEP32 template and the
decoder as an interpretation of the bencode tree that reproduces the behaviour of the serde
`Deserialize` implementations over torrust-serde-bencode (observed facts in DESIGN.md appendix D).
`Verdict.unmodelled` marks the two syntactic classes the model declines to model: a list where a
struct is expected, and `y`/`q` given a dictionary.
-/
namespace Btdht

inductive Want where
  | n4 | n6 | both
  deriving DecidableEq, Repr

inductive Req where
  | ping (id : Bytes)
  | findNode (id target : Bytes) (want : Option Want)
  | getPeers (id infoHash : Bytes) (want : Option Want)
  | announce (id infoHash : Bytes) (port : Option Nat) (token : Bytes)
  deriving DecidableEq, Repr

structure Resp where
  id : Bytes
  values : List Addr
  nodes4 : List Handle
  nodes6 : List Handle
  token : Option Bytes
  deriving DecidableEq, Repr

inductive Body where
  | req (r : Req)
  | resp (r : Resp)
  | err (code : Nat) (msg : Bytes)       -- msg: UTF-8 text
  deriving DecidableEq, Repr

structure Msg where
  tid : Bytes
  body : Body
  deriving DecidableEq, Repr

/-! ### the literal strings of src/message.rs, as bytes -/
namespace K
/-- "a" -/
def a : Bytes := [97]
/-- "e" -/
def e : Bytes := [101]
/-- "q" -/
def q : Bytes := [113]
/-- "r" -/
def r : Bytes := [114]
/-- "t" -/
def t : Bytes := [116]
/-- "y" -/
def y : Bytes := [121]
/-- "id" -/
def id : Bytes := [105, 100]
/-- "target" -/
def target : Bytes := [116, 97, 114, 103, 101, 116]
/-- "info_hash" -/
def infoHash : Bytes := [105, 110, 102, 111, 95, 104, 97, 115, 104]
/-- "want" -/
def want : Bytes := [119, 97, 110, 116]
/-- "port" -/
def port : Bytes := [112, 111, 114, 116]
/-- "implied_port" -/
def impliedPort : Bytes := [105, 109, 112, 108, 105, 101, 100, 95, 112, 111, 114, 116]
/-- "token" -/
def token : Bytes := [116, 111, 107, 101, 110]
/-- "values" -/
def values : Bytes := [118, 97, 108, 117, 101, 115]
/-- "nodes" -/
def nodes : Bytes := [110, 111, 100, 101, 115]
/-- "nodes6" -/
def nodes6 : Bytes := [110, 111, 100, 101, 115, 54]
/-- "ping" -/
def ping : Bytes := [112, 105, 110, 103]
/-- "find_node" -/
def findNode : Bytes := [102, 105, 110, 100, 95, 110, 111, 100, 101]
/-- "get_peers" -/
def getPeers : Bytes := [103, 101, 116, 95, 112, 101, 101, 114, 115]
/-- "announce_peer" -/
def announcePeer : Bytes := [97, 110, 110, 111, 117, 110, 99, 101, 95, 112, 101, 101, 114]
/-- "n4" -/
def n4 : Bytes := [110, 52]
/-- "n6" -/
def n6 : Bytes := [110, 54]
/-- "N4" -/
def N4 : Bytes := [78, 52]
/-- "N6" -/
def N6 : Bytes := [78, 54]
end K

/-! ### UTF-8 (Rust's `str::from_utf8`) -/

def isCont (b : Nat) : Bool := 128 ≤ b && b ≤ 191

def validUtf8 : Bytes → Bool
  | [] => true
  | b0 :: rest =>
    if b0 < 128 then validUtf8 rest
    else if 194 ≤ b0 && b0 ≤ 223 then
      match rest with
      | b1 :: r => isCont b1 && validUtf8 r
      | _ => false
    else if 224 ≤ b0 && b0 ≤ 239 then
      match rest with
      | b1 :: b2 :: r =>
        (if b0 = 224 then 160 ≤ b1 && b1 ≤ 191 else if b0 = 237 then 128 ≤ b1 && b1 ≤ 159 else isCont b1) &&
        isCont b2 && validUtf8 r
      | _ => false
    else if 240 ≤ b0 && b0 ≤ 244 then
      match rest with
      | b1 :: b2 :: b3 :: r =>
        (if b0 = 240 then 144 ≤ b1 && b1 ≤ 191 else if b0 = 244 then 128 ≤ b1 && b1 ≤ 143 else isCont b1) &&
        isCont b2 && isCont b3 && validUtf8 r
      | _ => false
    else false

def str (s : String) : Bytes := s.toUTF8.toList.map (·.toNat)

/-! ### compact forms -/

def portBytes (p : Nat) : Bytes := [p / 256 % 256, p % 256]

def compactAddr (a : Addr) : Bytes := a.ip ++ portBytes a.port

def compactNode (h : Handle) : Bytes := h.id ++ compactAddr h.addr

/-- `decode_socket_addr`: 6 bytes = v4, 18 bytes = v6 -/
def decodeAddr (b : Bytes) : Option Addr :=
  if b.length = Constants.SOCKET_ADDR_V4_LEN then
    some ⟨false, b.take 4, (b.getD 4 0) * 256 + b.getD 5 0⟩
  else if b.length = Constants.SOCKET_ADDR_V6_LEN then
    some ⟨true, b.take 16, (b.getD 16 0) * 256 + b.getD 17 0⟩
  else none

/-- `chunks_exact(20 + addrLen)` with an empty remainder -/
def decodeNodes (addrLen : Nat) : Nat → Bytes → Option (List Handle)
  | 0, _ => none
  | fuel + 1, b =>
    if b.isEmpty then some []
    else if b.length < Constants.INFO_HASH_LEN + addrLen then none
    else
      let chunk := b.take (Constants.INFO_HASH_LEN + addrLen)
      match decodeAddr (chunk.drop Constants.INFO_HASH_LEN), decodeNodes addrLen fuel (b.drop (Constants.INFO_HASH_LEN + addrLen)) with
      | some a, some rest => some (⟨chunk.take Constants.INFO_HASH_LEN, a⟩ :: rest)
      | _, _ => none

/-! ### encoder: the BEP template, keys in sorted order -/

def wantVal (w : Want) : BVal :=
  .list (BList.ofList (match w with
    | .n4 => [.bytes K.n4]
    | .n6 => [.bytes K.n6]
    | .both => [.bytes K.n4, .bytes K.n6]))

def reqName : Req → Bytes
  | .ping _ => K.ping
  | .findNode .. => K.findNode
  | .getPeers .. => K.getPeers
  | .announce .. => K.announcePeer

def reqArgs : Req → List BVal
  | .ping id => [.bytes K.id, .bytes id]
  | .findNode id target w =>
    [.bytes K.id, .bytes id, .bytes K.target, .bytes target] ++ (match w with | some w => [.bytes K.want, wantVal w] | none => [])
  | .getPeers id ih w =>
    [.bytes K.id, .bytes id, .bytes K.infoHash, .bytes ih] ++ (match w with | some w => [.bytes K.want, wantVal w] | none => [])
  | .announce id ih port token =>
    [.bytes K.id, .bytes id] ++ (match port with | none => [.bytes K.impliedPort, .int 1] | some _ => []) ++
    [.bytes K.infoHash, .bytes ih, .bytes K.port, .int (Int.ofNat (port.getD 0)), .bytes K.token, .bytes token]

def respArgs (r : Resp) : List BVal :=
  [.bytes K.id, .bytes r.id] ++
  (if r.nodes4.isEmpty then [] else [.bytes K.nodes, .bytes (r.nodes4.flatMap compactNode)]) ++
  (if r.nodes6.isEmpty then [] else [.bytes K.nodes6, .bytes (r.nodes6.flatMap compactNode)]) ++
  (match r.token with | some t => [.bytes K.token, .bytes t] | none => []) ++
  (if r.values.isEmpty then [] else [.bytes K.values, .list (BList.ofList (r.values.map fun a => .bytes (compactAddr a)))])

def msgTree (m : Msg) : BVal :=
  match m.body with
  | .req r => .dict (BList.ofList [.bytes K.a, .dict (BList.ofList (reqArgs r)), .bytes K.q, .bytes (reqName r),
                                   .bytes K.t, .bytes m.tid, .bytes K.y, .bytes K.q])
  | .resp r => .dict (BList.ofList [.bytes K.r, .dict (BList.ofList (respArgs r)), .bytes K.t, .bytes m.tid, .bytes K.y, .bytes K.r])
  | .err code msg => .dict (BList.ofList [.bytes K.e, .list (BList.ofList [.int (Int.ofNat code), .bytes msg]),
                                          .bytes K.t, .bytes m.tid, .bytes K.y, .bytes K.e])

/-- the serializer fails only on a node of the wrong family in `nodes` / `nodes6` -/
def encodable (m : Msg) : Bool :=
  match m.body with
  | .resp r => r.nodes4.all (fun h => !h.addr.v6 && h.addr.ip.length = 4) &&
               r.nodes6.all (fun h => h.addr.v6 && h.addr.ip.length = 16)
  | _ => true

def encodeMsg (m : Msg) : Option Bytes := if encodable m then some (printVal (msgTree m)) else none

/-! ### decoder -/

inductive Verdict where
  | ok (m : Msg)
  | error
  | unmodelled
  deriving DecidableEq, Repr

/-- what `serde_bytes` accepts for a byte string: a string, or a list of integers 0..255 -/
def bytesLike : BVal → Option Bytes
  | .bytes b => some b
  | .list l => l.toList.mapM fun v => match v with
    | .int i => if 0 ≤ i ∧ i ≤ 255 then some i.toNat else none
    | _ => none
  | _ => none

def idLike (v : BVal) : Option Bytes :=
  match bytesLike v with
  | some b => if b.length = Constants.INFO_HASH_LEN then some b else none
  | none => none

def isKey (k : BVal) (key : Bytes) : Bool :=
  match k with
  | .bytes b => b = key
  | _ => false

/-- lookup of a field in dictionary items; `none` = absent, `some none` = present twice (error) -/
def fieldOf (key : Bytes) : List BVal → Option (Option BVal)
  | k :: v :: rest =>
    match fieldOf key rest with
    | some none => some none
    | some (some v') => if isKey k key then some none else some (some v')
    | none => if isKey k key then some (some v) else none
  | _ => none

/-- keys of a dictionary read by a struct visitor over the stream: byte strings holding UTF-8 -/
def keysUtf8 : List BVal → Bool
  | k :: _ :: rest => (match k with | .bytes b => validUtf8 b | _ => false) && keysUtf8 rest
  | _ => true

/-- keys of a dictionary buffered as `Content` (the untagged `a`): byte strings -/
def keysBytes : List BVal → Bool
  | k :: _ :: rest => (match k with | .bytes _ => true | _ => false) && keysBytes rest
  | _ => true

def trimAscii (b : Bytes) : Bytes :=
  let isWs (c : Nat) : Bool := c = 32 || (9 ≤ c && c ≤ 13)
  ((b.dropWhile isWs).reverse.dropWhile isWs).reverse

/-- the `want` visitor: a list of UTF-8 strings; unknown entries ignored; `N4`/`N6` accepted -/
def decodeWant (v : BVal) : Option (Option Want) :=
  match v with
  | .list l =>
    l.toList.foldlM (fun (acc : Option Want) x =>
      match x with
      | .bytes b =>
        if !validUtf8 b then none
        else
          let s := trimAscii b
          let is4 := s = K.n4 || s = K.N4
          let is6 := s = K.n6 || s = K.N6
          some (match acc with
            | none => if is4 then some .n4 else if is6 then some .n6 else none
            | some .n4 => if is6 then some .both else some .n4
            | some .n6 => if is4 then some .both else some .n6
            | some .both => some .both)
      | _ => none) none
  | _ => none

def intIn (v : BVal) (hi : Nat) : Option Nat :=
  match v with
  | .int i => if 0 ≤ i ∧ i ≤ Int.ofNat hi then some i.toNat else none
  | _ => none

/-- an optional field: absent → `dflt`; present twice → failure -/
def optField {α} (items : List BVal) (key : Bytes) (dec : BVal → Option α) (dflt : α) : Option α :=
  match fieldOf key items with
  | none => some dflt
  | some none => none
  | some (some v) => dec v

def reqField {α} (items : List BVal) (key : Bytes) (dec : BVal → Option α) : Option α :=
  match fieldOf key items with
  | some (some v) => dec v
  | _ => none

/-- the four variants of the untagged `Request`, tried in the order of the enum -/
def decodeArgs (items : List BVal) : Option Req :=
  if !keysBytes items then none else
  let findNode : Option Req := do
    let id ← reqField items K.id idLike
    let target ← reqField items K.target idLike
    let want ← optField items K.want decodeWant none
    pure (.findNode id target want)
  let announce : Option Req := do
    let id ← reqField items K.id idLike
    let ih ← reqField items K.infoHash idLike
    let token ← reqField items K.token bytesLike
    let port ← reqField items K.port (intIn · 65535)
    let implied ← optField items K.impliedPort (fun v => (intIn v 255).map (fun n => decide (n > 0))) false
    pure (.announce id ih (if implied then none else some port) token)
  let getPeers : Option Req := do
    let id ← reqField items K.id idLike
    let ih ← reqField items K.infoHash idLike
    let want ← optField items K.want decodeWant none
    pure (.getPeers id ih want)
  let ping : Option Req := do
    let id ← reqField items K.id idLike
    pure (.ping id)
  findNode <|> announce <|> getPeers <|> ping

def decodeValues (v : BVal) : Option (List Addr) :=
  match v with
  | .list l => l.toList.mapM fun x => (bytesLike x).bind decodeAddr
  | _ => none

def decodeResp (items : List BVal) : Option Resp :=
  if !keysUtf8 items then none else do
  let id ← reqField items K.id idLike
  let values ← optField items K.values decodeValues []
  let nodes4 ← optField items K.nodes (fun v => (bytesLike v).bind fun b => decodeNodes Constants.SOCKET_ADDR_V4_LEN (b.length + 1) b) []
  let nodes6 ← optField items K.nodes6 (fun v => (bytesLike v).bind fun b => decodeNodes Constants.SOCKET_ADDR_V6_LEN (b.length + 1) b) []
  let token ← optField items K.token (fun v => (bytesLike v).map some) none
  pure { id := id, values := values, nodes4 := nodes4, nodes6 := nodes6, token := token }

def decodeErr (v : BVal) : Option (Nat × Bytes) :=
  match v with
  | .list l =>
    match l.toList with
    | [c, .bytes m] => match intIn c 255 with
      | some code => if validUtf8 m then some (code, m) else none
      | none => none
    | _ => none
  | _ => none

def reqNameOf? (b : Bytes) : Option Bytes :=
  if b = K.ping ∨ b = K.findNode ∨ b = K.getPeers ∨ b = K.announcePeer then some b else none

/-- is this value a list (the quirk class "sequence where a struct is expected")? -/
def isList : BVal → Bool
  | .list _ => true
  | _ => false
def isDict : BVal → Bool
  | .dict _ => true
  | _ => false

def isDup {α} : Option (Option α) → Bool
  | some none => true
  | _ => false

/-- the `q` field: absent, or one of the four method names -/
def decodeQ : Option BVal → Option (Option Bytes)
  | none => some none
  | some (.bytes b) => (reqNameOf? b).map some
  | some _ => none

/-- `TryFrom<RawMessage> for Message`: every present field decoded; the type `y` selects the body;
a query's method name must match the shape of its arguments -/
def assemble (tid : Option Bytes) (y : Option Bytes) (q : Option (Option Bytes)) (a : Option (Option Req))
    (r : Option (Option Resp)) (e : Option (Option (Nat × Bytes))) : Verdict :=
  match tid, y, q, a, r, e with
  | some tid, some y, some q, some a, some r, some e =>
    if y = K.q then
      match q, a with
      | some name, some req => if reqName req = name then .ok ⟨tid, .req req⟩ else .error
      | _, _ => .error
    else if y = K.r then
      match r with
      | some resp => .ok ⟨tid, .resp resp⟩
      | none => .error
    else if y = K.e then
      match e with
      | some (code, msg) => .ok ⟨tid, .err code msg⟩
      | none => .error
    else .error
  | _, _, _, _, _, _ => .error

/-- interpretation of the top-level tree -/
def decodeTree (v : BVal) : Verdict :=
  match v with
  | .list _ => .unmodelled
  | .dict l =>
    let items := l.toList
    if !keysUtf8 items then .error else
    -- every known field is deserialized when present, whatever the message type
    let ft := fieldOf K.t items
    let fy := fieldOf K.y items
    let fq := fieldOf K.q items
    let fa := fieldOf K.a items
    let fr := fieldOf K.r items
    let fe := fieldOf K.e items
    -- a known key given twice is an error
    if isDup ft || isDup fy || isDup fq || isDup fa || isDup fr || isDup fe then .error else
      let get (f : Option (Option BVal)) : Option BVal := f.bind id
      -- quirk classes first
      if (get fy).any isDict || (get fq).any isDict || (get fa).any isList || (get fr).any isList then .unmodelled else
      let tid := (get ft).bind bytesLike
      let y : Option Bytes := match get fy with | some (.bytes b) => some b | _ => none
      let a : Option (Option Req) := match get fa with
        | none => some none
        | some (.dict l) => (decodeArgs l.toList).map some
        | some _ => none
      let r : Option (Option Resp) := match get fr with
        | none => some none
        | some (.dict l) => (decodeResp l.toList).map some
        | some _ => none
      let e : Option (Option (Nat × Bytes)) := match get fe with
        | none => some none
        | some v => (decodeErr v).map some
      assemble tid y (decodeQ (get fq)) a r e
  | _ => .error

/-- `Message::decode` -/
def decodeMsg (input : Bytes) : Verdict :=
  if !checkLimits input then .error
  else match readTop input with
    | some v => decodeTree v
    | none => .error

end Btdht
