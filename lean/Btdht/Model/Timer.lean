import Btdht.Model.Common
/-
Model of src/timer.rs `Timer<T>` as observed by its user: a set of entries popped in
(deadline, id) order; ids are handed out in scheduling order. (The implementation's `current`
slot — the entry whose sleep is armed — is re-queued whenever an earlier deadline is scheduled, so
the pop order is the order of the keys.)
-/
namespace Btdht

structure TimerEntry (τ : Type) where
  deadline : Nat
  id : Nat
  task : τ
  deriving Repr

structure Timer (τ : Type) where
  nextId : Nat
  entries : List (TimerEntry τ)
  deriving Repr

def Timer.new {τ} : Timer τ := { nextId := 0, entries := [] }

def Timer.isEmpty {τ} (t : Timer τ) : Bool := t.entries.isEmpty

/-- `schedule_at(deadline, value)`: returns the timer and the key (deadline, id) of the new entry -/
def Timer.scheduleAt {τ} (t : Timer τ) (deadline : Nat) (task : τ) : Timer τ × (Nat × Nat) :=
  ({ nextId := t.nextId + 1, entries := t.entries ++ [{ deadline := deadline, id := t.nextId, task := task }] },
   (deadline, t.nextId))

/-- `cancel(timeout)` -/
def Timer.cancel {τ} (t : Timer τ) (key : Nat × Nat) : Timer τ × Bool :=
  let keep := t.entries.filter (fun e => !(e.deadline = key.1 && e.id = key.2))
  ({ t with entries := keep }, keep.length < t.entries.length)

def keyLe (a b : Nat × Nat) : Bool := a.1 < b.1 || (a.1 = b.1 && a.2 ≤ b.2)

/-- the entry that fires next: least (deadline, id) -/
def Timer.earliest {τ} (t : Timer τ) : Option (TimerEntry τ) :=
  t.entries.foldl (fun acc e => match acc with
    | none => some e
    | some m => if keyLe (m.deadline, m.id) (e.deadline, e.id) then some m else some e) none

/-- `poll_next` once the earliest deadline has been reached: remove and return that entry -/
def Timer.pop {τ} (t : Timer τ) : Option (Timer τ × TimerEntry τ) :=
  match t.earliest with
  | none => none
  | some m => some ({ t with entries := t.entries.filter (fun e => !(e.deadline = m.deadline && e.id = m.id)) }, m)

end Btdht
