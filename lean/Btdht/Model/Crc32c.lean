import Btdht.Model.Common
/-
CRC-32C (Castagnoli), bitwise, reflected polynomial 0x82F63B78, init and final xor 0xFFFFFFFF:
what `crc32c::crc32c_append(0, data)` computes.
-/
namespace Btdht

def crcStep (c : Nat) : Nat :=
  if c % 2 = 1 then (c / 2) ^^^ 0x82F63B78 else c / 2

def crcByte (c b : Nat) : Nat :=
  crcStep (crcStep (crcStep (crcStep (crcStep (crcStep (crcStep (crcStep (c ^^^ b))))))))

def crc32c (bs : Bytes) : Nat :=
  (bs.foldl crcByte 0xFFFFFFFF) ^^^ 0xFFFFFFFF

end Btdht
