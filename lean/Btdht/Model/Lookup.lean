import Btdht.Model.Table
import Btdht.Model.Codec
import Btdht.Model.Timer
/-
Model of src/action/lookup.rs `TableLookup`.
Transaction ids are symbolic: `(aid, seq)` — the `seq`-th id drawn from the lookup's message-id
generator (C19 proves these are pairwise distinct on the wire).
-/
namespace Btdht

/-- a transaction id of an activity: action id index and the number of the draw -/
structure Tid where
  aid : Nat
  seq : Nat
  deriving DecidableEq, Repr

inductive Task where
  | tableRefresh
  | lookupTimeout (t : Tid)
  | lookupEndGame (t : Tid)
  deriving DecidableEq, Repr

/-- what the lookup does to the world, in order -/
inductive Effect where
  | send (dst : Addr) (tid : Tid) (req : Req) (ok : Bool)   -- a query handed to the socket (and whether it went out)
  | yield (stream : Nat) (a : Addr)
  | close (stream : Nat)
  deriving Repr

def xorBytes (a b : Bytes) : Bytes := List.zipWith (· ^^^ ·) a b

/-- lexicographic comparison of equal-length byte strings (`InfoHash`'s derived `Ord`) -/
def bytesCmp : Bytes → Bytes → Ordering
  | [], [] => .eq
  | [], _ => .lt
  | _, [] => .gt
  | a :: as, b :: bs => if a < b then .lt else if a > b then .gt else bytesCmp as bs

def bytesLtB (a b : Bytes) : Bool := bytesCmp a b == .lt

structure Lookup where
  aid : Nat
  nextSeq : Nat
  selfId : Bytes
  v6 : Bool
  target : Bytes
  inEndgame : Bool
  willAnnounce : Bool
  active : List (Tid × Bytes × (Nat × Nat))       -- tid ↦ (distance to beat, timer key)
  tokens : List (Handle × Bytes)                   -- handle ↦ latest token
  requested : List Handle
  sorted : List (Bytes × Handle × Bool)            -- (distance, node, queried)
  stream : Nat
  deriving Repr

/-- the environment a lookup step runs in: the shared table, timer and send outcome rule -/
structure LEnv where
  table : Table
  timer : Timer Task
  now : Nat
  sendFails : Addr → Bool

/-- `slice::binary_search_by` of Rust 1.95 (branch-free variant): `Ok idx` / `Err idx` -/
def binarySearch (keys : List Bytes) (key : Bytes) : Bool × Nat :=
  let size := keys.length
  if size = 0 then (false, 0) else
  let rec go (fuel base size : Nat) : Nat :=
    match fuel with
    | 0 => base
    | fuel + 1 =>
      if size > 1 then
        let half := size / 2
        let mid := base + half
        let base' := if bytesCmp (keys.getD mid []) key == .gt then base else mid
        go fuel base' (size - half)
      else base
  let base := go size 0 size
  match bytesCmp (keys.getD base []) key with
  | .eq => (true, base)
  | .lt => (false, base + 1)
  | .gt => (false, base)

/-- `insert_sorted_node` -/
def insertSorted (nodes : List (Bytes × Handle × Bool)) (target : Bytes) (h : Handle) (pinged : Bool) :
    List (Bytes × Handle × Bool) :=
  let dist := xorBytes target h.id
  match binarySearch (nodes.map (·.1)) dist with
  | (true, idx) =>
    match nodes[idx]? with
    | some (_, h', _) => if h' ≠ h then nodes.take idx ++ [(dist, h, pinged)] ++ nodes.drop idx else nodes
    | none => nodes
  | (false, idx) => nodes.take idx ++ [(dist, h, pinged)] ++ nodes.drop idx

/-- `insert_closest_nodes` into the fixed array of picks (`(node, used)`) -/
def insertClosest (picks : List (Handle × Bool)) (target : Bytes) (h : Handle) : List (Handle × Bool) :=
  let nd := xorBytes target h.id
  let rec go : List (Handle × Bool) → List (Handle × Bool)
    | [] => []
    | (old, used) :: rest =>
      if !used then (h, true) :: rest
      else if bytesLtB nd (xorBytes target old.id) then (h, true) :: rest
      else (old, used) :: go rest
  go picks

def dummyHandle : Handle := ⟨List.replicate Constants.INFO_HASH_LEN 0, ⟨false, [0, 0, 0, 0], 0⟩⟩

/-- `pick_iterate_nodes` -/
def pickIterate (nodes : List Handle) (target : Bytes) : List (Handle × Bool) :=
  nodes.foldl (fun acc h => insertClosest acc target h) (List.replicate Constants.ITERATIVE_PICK_NUM (dummyHandle, false))

def getPeersReq (l : Lookup) : Req := .getPeers l.selfId l.target none

/-- `local_request()` on the routing-table entry of `h`, if it is listed -/
def markRequested (t : Table) (h : Handle) (now : Nat) : Table := (t.modifyNode h now (fun n => n.localRequest now)).1

/-- accumulator of a round: lookup, environment, effects so far, number of queries that went out -/
structure RoundAcc where
  l : Lookup
  env : LEnv
  effs : List Effect
  sent : Nat

/-- one iteration of the loop of `start_request_round` -/
def requestStep (acc : RoundAcc) (hd : Handle × Bytes) : RoundAcc :=
  let l := acc.l
  let env := acc.env
  let tid : Tid := ⟨l.aid, l.nextSeq⟩
  let sched := env.timer.scheduleAt (env.now + Constants.LOOKUP_TIMEOUT_ns) (.lookupTimeout tid)
  let l := { l with nextSeq := l.nextSeq + 1, active := (l.active.filter (·.1 ≠ tid)) ++ [(tid, hd.2, sched.2)] }
  let env := { env with timer := sched.1 }
  if env.sendFails hd.1.addr then
    { l := l, env := env, effs := acc.effs ++ [.send hd.1.addr tid (getPeersReq l) false], sent := acc.sent }
  else
    { l := { l with requested := if l.requested.contains hd.1 then l.requested else l.requested ++ [hd.1] },
      env := { env with table := markRequested env.table hd.1 env.now },
      effs := acc.effs ++ [.send hd.1.addr tid (getPeersReq l) true], sent := acc.sent + 1 }

/-- `start_request_round(nodes)`: returns the lookup, environment and effects -/
def Lookup.requestRound (l : Lookup) (env : LEnv) (nodes : List (Handle × Bytes)) : Lookup × LEnv × List Effect :=
  let acc := nodes.foldl requestStep { l := l, env := env, effs := [], sent := 0 }
  if acc.sent = 0 then ({ acc.l with active := [] }, acc.env, acc.effs) else (acc.l, acc.env, acc.effs)

/-- accumulator of the end-game round: lookup, environment, effects, rebuilt candidate list -/
structure EndAcc where
  l : Lookup
  env : LEnv
  effs : List Effect
  out : List (Bytes × Handle × Bool)

/-- one iteration of the loop of `start_endgame_round` over the candidate list (`key` = the shared end-game timer) -/
def endgameStep (key : Nat × Nat) (acc : EndAcc) (e : Bytes × Handle × Bool) : EndAcc :=
  if e.2.2 then { acc with out := acc.out ++ [e] }
  else
    let l := acc.l
    let tid : Tid := ⟨l.aid, l.nextSeq⟩
    let l := { l with nextSeq := l.nextSeq + 1, active := (l.active.filter (·.1 ≠ tid)) ++ [(tid, e.1, key)] }
    if acc.env.sendFails e.2.1.addr then
      { l := l, env := acc.env, effs := acc.effs ++ [.send e.2.1.addr tid (getPeersReq l) false], out := acc.out ++ [e] }
    else
      { l := l, env := { acc.env with table := markRequested acc.env.table e.2.1 acc.env.now },
        effs := acc.effs ++ [.send e.2.1.addr tid (getPeersReq l) true], out := acc.out ++ [(e.1, e.2.1, true)] }

/-- `start_endgame_round` -/
def Lookup.endgameRound (l : Lookup) (env : LEnv) : Lookup × LEnv × List Effect :=
  let egTid : Tid := ⟨l.aid, l.nextSeq⟩
  let sched := env.timer.scheduleAt (env.now + Constants.ENDGAME_TIMEOUT_ns) (.lookupEndGame egTid)
  let l := { l with inEndgame := true, nextSeq := l.nextSeq + 1 }
  let env := { env with timer := sched.1 }
  -- every node that was not queried yet
  let acc := l.sorted.foldl (endgameStep sched.2) { l := l, env := env, effs := [], out := [] }
  ({ acc.l with sorted := acc.out }, acc.env, acc.effs)

/-- `current_lookup_status() == Completed` -/
def Lookup.completedNow (l : Lookup) : Bool := !l.inEndgame && l.active.isEmpty

/-- `TableLookup::new` -/
def Lookup.new (aid stream : Nat) (selfId : Bytes) (v6 : Bool) (target : Bytes) (announce : Bool) (env : LEnv) :
    Lookup × LEnv × List Effect :=
  let good := ((env.table.closestNodes target env.now).filter (fun n => n.status env.now = .good)).take Constants.MAX_BUCKET_SIZE
  let sorted := good.foldl (fun acc n => insertSorted acc target n.handle false) []
  -- pick_initial_nodes: the first INITIAL_PICK_NUM, marked as queried
  let picks := sorted.take Constants.INITIAL_PICK_NUM
  let sorted := (picks.map fun (d, h, _) => (d, h, true)) ++ sorted.drop Constants.INITIAL_PICK_NUM
  let l : Lookup := { aid := aid, nextSeq := 0, selfId := selfId, v6 := v6, target := target, inEndgame := false,
                      willAnnounce := announce, active := [], tokens := [], requested := [], sorted := sorted,
                      stream := stream }
  l.requestRound env (picks.map fun (_, h, _) => (h, xorBytes h.id target))

/-- remember the announce token of the responder (the latest one wins; over-long tokens are ignored) -/
def Lookup.recordToken (l : Lookup) (from_ : Handle) (tok? : Option Bytes) : Lookup :=
  match tok? with
  | some tok =>
    if tok.length ≤ Constants.MAX_TOKEN_LEN then { l with tokens := (l.tokens.filter (·.1 ≠ from_)) ++ [(from_, tok)] }
    else l
  | none => l

/-- the candidate bookkeeping of `recv_response`: the named nodes go into the sorted list; if one of
the not-yet-queried ones beats the distance, up to `ITERATIVE_PICK_NUM` of them are picked -/
def Lookup.absorbNodes (l : Lookup) (nodes : List Handle) (distToBeat : Bytes) :
    Lookup × Option (List (Handle × Bool)) × Bytes :=
  if nodes.isEmpty then (l, none, distToBeat) else
    let fresh := nodes.filter (fun n => !l.requested.contains n)
    let nextDist := fresh.foldl (fun closest n =>
      let d := xorBytes l.target n.id
      if bytesLtB d closest then d else closest) distToBeat
    if bytesLtB nextDist distToBeat then
      let picks := pickIterate fresh l.target
      let sorted := nodes.foldl (fun acc n => insertSorted acc l.target n (picks.any (fun p => p.1 = n))) l.sorted
      ({ l with sorted := sorted }, some picks, nextDist)
    else
      let sorted := nodes.foldl (fun acc n => insertSorted acc l.target n false) l.sorted
      ({ l with sorted := sorted }, none, nextDist)

/-- the iterative round of `recv_response`: query the used picks, all with the new distance to beat -/
def Lookup.iterRound (l : Lookup) (env : LEnv) (iterate : Option (List (Handle × Bool))) (nextDist : Bytes) :
    Lookup × LEnv × List Effect :=
  match iterate with
  | some picks => l.requestRound env ((picks.filter (fun (p : Handle × Bool) => p.2)).map fun (p : Handle × Bool) => (p.1, nextDist))
  | none => (l, env, [])

/-- outside the end-game: query the picked nodes; when nothing is outstanding any more, start the end-game -/
def Lookup.continueSearch (l : Lookup) (env : LEnv) (iterate : Option (List (Handle × Bool))) (nextDist : Bytes) :
    Lookup × LEnv × List Effect :=
  if !l.inEndgame then
    let r1 := l.iterRound env iterate nextDist
    if r1.1.active.isEmpty then
      let r2 := r1.1.endgameRound r1.2.1
      (r2.1, r2.2.1, r1.2.2 ++ r2.2.2)
    else r1
  else (l, env, [])

/-- `recv_response(node, trans_id, msg)`; the handler has already offered the responder and the
named nodes to the routing table -/
def Lookup.recvResponse (l : Lookup) (env : LEnv) (from_ : Handle) (tid : Tid) (rsp : Resp) : Lookup × LEnv × List Effect :=
  match l.active.find? (·.1 = tid) with
  | none => (l, env, [])
  | some entry =>
    let l1 := { l with active := l.active.filter (·.1 ≠ tid) }
    let env1 := if !l1.inEndgame then { env with timer := (env.timer.cancel entry.2.2).1 } else env
    let l2 := l1.recordToken from_ rsp.token
    let absorbed := l2.absorbNodes (if l2.v6 then rsp.nodes6 else rsp.nodes4) entry.2.1
    let r := absorbed.1.continueSearch env1 absorbed.2.1 absorbed.2.2
    (r.1, r.2.1, r.2.2 ++ rsp.values.map (fun a => .yield l.stream a))

/-- `recv_timeout(trans_id)` -/
def Lookup.recvTimeout (l : Lookup) (env : LEnv) (tid : Tid) : Lookup × LEnv × List Effect :=
  match l.active.find? (·.1 = tid) with
  | none => (l, env, [])
  | some _ =>
    let l := { l with active := l.active.filter (·.1 ≠ tid) }
    if !l.inEndgame && l.active.isEmpty then l.endgameRound env else (l, env, [])

/-- one `announce_peer` of `recv_finished` -/
def announceStep (port : Option Nat) (acc : Lookup × LEnv × List Effect) (e : Bytes × Handle × Bool) : Lookup × LEnv × List Effect :=
  let l := acc.1
  let env := acc.2.1
  let h := e.2.1
  let tid : Tid := ⟨l.aid, l.nextSeq⟩
  let tok := ((l.tokens.find? (·.1 = h)).map (·.2)).getD []
  let l := { l with nextSeq := l.nextSeq + 1 }
  let req := Req.announce l.selfId l.target port tok
  if env.sendFails h.addr then (l, env, acc.2.2 ++ [.send h.addr tid req false])
  else (l, { env with table := markRequested env.table h env.now }, acc.2.2 ++ [.send h.addr tid req true])

/-- the nodes `recv_finished` announces to: the closest `ANNOUNCE_PICK_NUM` candidates holding a token -/
def Lookup.announceTargets (l : Lookup) : List (Bytes × Handle × Bool) :=
  (l.sorted.filter (fun e => l.tokens.any (·.1 = e.2.1))).take Constants.ANNOUNCE_PICK_NUM

/-- `recv_finished(port)`: the announces, then the stream is closed (the sender is dropped) -/
def Lookup.recvFinished (l : Lookup) (env : LEnv) (port : Option Nat) : Lookup × LEnv × List Effect :=
  let res : Lookup × LEnv × List Effect :=
    if l.willAnnounce then l.announceTargets.foldl (announceStep port) (l, env, []) else (l, env, [])
  ({ res.1 with active := [], inEndgame := false }, res.2.1, res.2.2 ++ [.close l.stream])

end Btdht
