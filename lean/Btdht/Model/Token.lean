import Btdht.Model.Common
import Btdht.Generated.Constants
/-
Model of src/token.rs `TokenStore`.
Secrets are symbolic: the k-th `rand::random::<u32>()` drawn by a store is the number `k`
(fresh secrets are assumed distinct from all earlier ones). A token is the term `(ip, secret)`
standing for `SHA1(ip octets ‖ secret_be32)`; anything else presented to `checkin` is `none` (junk).
Times are nanoseconds of the virtual clock.
-/
namespace Btdht

structure TokenStore where
  curr : Nat
  last : Nat
  lastRefresh : Nat
  next : Nat            -- number of secrets drawn so far
  deriving Repr, DecidableEq

/-- a token as a term: the address octets it was made for and the secret it was made with -/
structure TokTerm where
  ip : Bytes
  secret : Nat
  deriving Repr, DecidableEq

def secNs : Nat := 1000000000

/-- `TokenStore::new()` at time `now`: two secrets are drawn, current first. -/
def TokenStore.new (now : Nat) : TokenStore := { curr := 0, last := 1, lastRefresh := now, next := 2 }

/-- `intervals_passed`: `(now - last_refresh).as_secs() / REFRESH_INTERVAL.as_secs()` -/
def intervalsPassed (lastRefresh now : Nat) : Nat :=
  (now - lastRefresh) / secNs / (Constants.TOKEN_REFRESH_INTERVAL_ns / secNs)

/-- `refresh_check` at time `now` -/
def TokenStore.refreshCheck (s : TokenStore) (now : Nat) : TokenStore :=
  let n := intervalsPassed s.lastRefresh now
  if n = 0 then s
  else if n = 1 then { curr := s.next, last := s.curr, lastRefresh := now, next := s.next + 1 }
  else { last := s.next, curr := s.next + 1, lastRefresh := now, next := s.next + 2 }

/-- `checkout(addr)` -/
def TokenStore.checkout (s : TokenStore) (ip : Bytes) (now : Nat) : TokenStore × TokTerm :=
  let s' := s.refreshCheck now
  (s', { ip := ip, secret := s'.curr })

/-- `checkin(addr, token)`; `none` is a token that is not of the form SHA1(ip ‖ secret) for any
secret this store ever drew. -/
def TokenStore.checkin (s : TokenStore) (ip : Bytes) (tok : Option TokTerm) (now : Nat) : TokenStore × Bool :=
  let s' := s.refreshCheck now
  (s', match tok with
       | none => false
       | some t => t.ip = ip && (t.secret = s'.curr || t.secret = s'.last))

/-- Histories: what the handler does with the store. -/
inductive TokEvent where
  | checkout (ip : Bytes) (t : Nat)
  | checkin (ip : Bytes) (ref : Nat) (t : Nat)      -- present the token returned by checkout number `ref`
  | checkinJunk (ip : Bytes) (t : Nat)              -- present a token this store never issued
  deriving Repr

def TokEvent.time : TokEvent → Nat
  | .checkout _ t => t
  | .checkin _ _ t => t
  | .checkinJunk _ t => t

/-- an issued token together with its issue time -/
structure Issued where
  tok : TokTerm
  at_ : Nat
  deriving Repr

inductive TokOut where
  | issued (tok : TokTerm)
  | verdict (ok : Bool)
  deriving Repr, DecidableEq

structure TokRun where
  store : TokenStore
  log : List Issued          -- tokens issued so far, oldest first
  deriving Repr

def TokRun.init (t0 : Nat) : TokRun := { store := TokenStore.new t0, log := [] }

def TokRun.step (r : TokRun) : TokEvent → TokRun × TokOut
  | .checkout ip t =>
    let (s', tok) := r.store.checkout ip t
    ({ store := s', log := r.log ++ [{ tok := tok, at_ := t }] }, .issued tok)
  | .checkin ip ref t =>
    let (s', ok) := r.store.checkin ip ((r.log[ref]?).map (·.tok)) t
    ({ r with store := s' }, .verdict ok)
  | .checkinJunk ip t =>
    let (s', ok) := r.store.checkin ip none t
    ({ r with store := s' }, .verdict ok)

def TokRun.run (r : TokRun) : List TokEvent → TokRun
  | [] => r
  | e :: es => TokRun.run (r.step e).1 es

end Btdht
