import Btdht.Model.Common
import Btdht.Generated.Constants
/-
Bencode: value trees, the printer used by the encoder model, and a reader that follows the token
grammar of torrust-serde-bencode 0.2.3 (`parse`, `parse_int`, `parse_bytes_len`) and Rust's
`i64` / `usize` `FromStr`. `checkLimits` is the model of `bencode::check_limits` (src/bencode.rs).
-/
namespace Btdht

mutual
inductive BVal where
  | int (i : Int)
  | bytes (b : Bytes)
  | list (l : BList)
  | dict (l : BList)          -- items alternate key, value (the reader only builds even lengths)
inductive BList where
  | nil
  | cons (v : BVal) (t : BList)
end

def BList.toList : BList → List BVal
  | .nil => []
  | .cons v t => v :: t.toList

def BList.ofList : List BVal → BList
  | [] => .nil
  | v :: t => .cons v (BList.ofList t)

/-! ### printing -/

def digitChar (d : Nat) : Nat := 48 + d

/-- decimal digits of a natural number as ASCII bytes -/
def natDigits (n : Nat) : Bytes :=
  if n < 10 then [digitChar n] else natDigits (n / 10) ++ [digitChar (n % 10)]
decreasing_by omega

def intText (i : Int) : Bytes :=
  match i with
  | .ofNat n => natDigits n
  | .negSucc n => 45 :: natDigits (n + 1)

def printBytes (b : Bytes) : Bytes := natDigits b.length ++ [58] ++ b

mutual
def printVal : BVal → Bytes
  | .int i => [105] ++ intText i ++ [101]
  | .bytes b => printBytes b
  | .list l => [108] ++ printList l ++ [101]
  | .dict l => [100] ++ printList l ++ [101]
def printList : BList → Bytes
  | .nil => []
  | .cons v t => printVal v ++ printList t
end

/-! ### reading -/

def isDigit (c : Nat) : Bool := 48 ≤ c && c ≤ 57

def digitsVal (ds : Bytes) : Nat := ds.foldl (fun acc c => acc * 10 + (c - 48)) 0

/-- Rust `usize::from_str` on text whose first character is a digit: all digits, below 2^64 -/
def parseUsize (t : Bytes) : Option Nat :=
  if t.isEmpty || !t.all isDigit then none
  else let v := digitsVal t; if v < 2 ^ 64 then some v else none

/-- Rust `i64::from_str`: optional sign, at least one digit, only digits, in range -/
def parseI64 (t : Bytes) : Option Int :=
  match t with
  | 43 :: ds => if ds.isEmpty || !ds.all isDigit then none
                else let v := digitsVal ds; if v < 2 ^ 63 then some (Int.ofNat v) else none
  | 45 :: ds => if ds.isEmpty || !ds.all isDigit then none
                else let v := digitsVal ds; if v ≤ 2 ^ 63 then some (-(Int.ofNat v)) else none
  | ds => if ds.isEmpty || !ds.all isDigit then none
          else let v := digitsVal ds; if v < 2 ^ 63 then some (Int.ofNat v) else none

/-- split at the first occurrence of `c`: (before, after) -/
def splitAt1 (c : Nat) : Bytes → Option (Bytes × Bytes)
  | [] => none
  | x :: xs => if x = c then some ([], xs) else (splitAt1 c xs).map fun (a, b) => (x :: a, b)

mutual
/-- read one value; `fuel` bounds the recursion (the input length suffices) -/
def readVal : Nat → Bytes → Option (BVal × Bytes)
  | 0, _ => none
  | fuel + 1, input =>
    match input with
    | [] => none
    | c :: rest =>
      if c = 105 then            -- 'i'
        match splitAt1 101 rest with
        | some (t, after) => (parseI64 t).map fun i => (.int i, after)
        | none => none
      else if isDigit c then
        match splitAt1 58 (c :: rest) with
        | some (t, after) =>
          match parseUsize t with
          | some n => if n ≤ after.length then some (.bytes (after.take n), after.drop n) else none
          | none => none
        | none => none
      else if c = 108 then       -- 'l'
        (readItems fuel rest).map fun (l, after) => (.list l, after)
      else if c = 100 then       -- 'd'
        match readItems fuel rest with
        | some (l, after) => if l.toList.length % 2 = 0 then some (.dict l, after) else none
        | none => none
      else none
/-- read values up to the closing 'e' -/
def readItems : Nat → Bytes → Option (BList × Bytes)
  | 0, _ => none
  | fuel + 1, input =>
    match input with
    | [] => none
    | c :: rest =>
      if c = 101 then some (.nil, rest)
      else match readVal fuel (c :: rest) with
        | some (v, after) => (readItems fuel after).map fun (l, after') => (.cons v l, after')
        | none => none
end

/-- the first value of the input (trailing bytes are ignored, as `from_bytes` does) -/
def readTop (input : Bytes) : Option BVal := (readVal (input.length + 1) input).map (·.1)

/-! ### `check_limits` -/

/-- One step of the scanning loop of `check_limits`: `none` = keep scanning with the new
(rest, depth); `some verdict` = stop. -/
inductive ScanStep where
  | continue (rest : Bytes) (depth : Nat)
  | accept
  | reject

def scanStep (input : Bytes) (depth : Nat) : ScanStep :=
  match input with
  | [] => .accept
  | c :: rest =>
    if c = 105 then
      match splitAt1 101 rest with
      | some (_, after) => if depth = 0 then .accept else .continue after depth
      | none => .accept
    else if isDigit c then
      match splitAt1 58 (c :: rest) with
      | none => .accept
      | some (t, after) =>
        if !t.all isDigit then .accept
        else match parseUsize t with
          | some n => if n ≤ after.length then (if depth = 0 then .accept else .continue (after.drop n) depth) else .reject
          | none => .reject
    else if c = 108 || c = 100 then
      if depth + 1 > Constants.BENCODE_MAX_DEPTH then .reject else .continue rest (depth + 1)
    else if c = 101 && depth > 0 then
      if depth - 1 = 0 then .accept else .continue rest (depth - 1)
    else .accept

def scanLoop : Nat → Bytes → Nat → Bool
  | 0, _, _ => true
  | fuel + 1, input, depth =>
    match scanStep input depth with
    | .continue rest d => scanLoop fuel rest d
    | .accept => true
    | .reject => false

/-- `check_limits(bytes).is_ok()` -/
def checkLimits (input : Bytes) : Bool := scanLoop (input.length + 1) input 0

end Btdht
