import Btdht.Model.Common
import Btdht.Generated.Constants
/-
Model of src/transaction.rs: `AIDGenerator`, `MIDGenerator`, `TransactionID`.
The shuffle of a freshly allocated block is an oracle argument `perm` (the list of offsets
inside the block, in the order in which they will be handed out).
-/
namespace Btdht

def midBlockLen : Nat := Constants.MESSAGE_ID_PREALLOC_LEN
def aidBlockLen : Nat := Constants.ACTION_ID_PREALLOC_LEN
def maxMessageId : Nat := 2 ^ (Constants.MESSAGE_ID_BYTES * 8)
def maxActionId : Nat := 2 ^ (Constants.ACTION_ID_BYTES * 8)

/-- A block generator: `generate_mids` / `generate_aids` plus the cursor into the shuffled block. -/
structure BlockGen where
  nextAlloc : Nat          -- NOT shifted allocation marker
  currIndex : Nat
  ids : List Nat           -- current (shuffled) block
  deriving Repr, DecidableEq

/-- `generate_mids(next_alloc)`: start of the block and the new marker (manual wrap at `max`). -/
def blockStart (nextAlloc max : Nat) : Nat := if nextAlloc = max then 0 else nextAlloc

/-- One `generate()` call: hand out the next id of the block, or allocate (and shuffle with
`perm`) a new block first. `len` is the pre-allocation length, `max` the exclusive id bound. -/
def BlockGen.generate (g : BlockGen) (len max : Nat) (perm : List Nat) : BlockGen × Nat :=
  if h : g.currIndex < g.ids.length then
    ({ g with currIndex := g.currIndex + 1 }, g.ids[g.currIndex])
  else
    let start := blockStart g.nextAlloc max
    let ids := perm.map (fun off => start + off)
    ({ nextAlloc := start + len, currIndex := 1, ids := ids }, ids.getD 0 0)

/-- Will the next `generate` allocate a new block (and so consume the oracle)? -/
def BlockGen.needsRefill (g : BlockGen) : Bool := ¬ (g.currIndex < g.ids.length)

/-- A permutation oracle is acceptable iff it lists every offset `0 .. len-1` exactly once. -/
def validPerm (len : Nat) (perm : List Nat) : Bool :=
  perm.length = len && perm.all (· < len) && perm.Nodup

/-- `MIDGenerator::new`: the first block is generated lazily. -/
def midNew : BlockGen := { nextAlloc := 0, currIndex := midBlockLen, ids := List.replicate midBlockLen 0 }

/-- `AIDGenerator::new`: the first block is generated eagerly from marker 0. -/
def aidNew (perm : List Nat) : BlockGen :=
  { nextAlloc := aidBlockLen, currIndex := 0, ids := perm.map (fun off => 0 + off) }

/-- `TransactionID::new(action_id | message_id)` as 8 big-endian bytes; `aid` is the plain action id. -/
def tidBytes (aid mid : Nat) : Bytes := beBytes 8 (aid * maxMessageId + mid)

/-- `ActionID::from_transaction_id` and `MessageID::from_transaction_id` on the 8 bytes. -/
def tidAction (t : Bytes) : Nat := beVal t / maxMessageId
def tidMessage (t : Bytes) : Nat := beVal t % maxMessageId

end Btdht
