import Btdht.Model.Common
import Btdht.Generated.Constants
/-
Model of src/storage.rs `AnnounceStorage`.
The `HashMap<InfoHash, Vec<AnnounceItem>>` is represented by one list `items` in global push order:
the per-hash `Vec` is `items.filter (·.ih = ih)` (push and `retain` preserve relative order, lookups
are by key only, an emptied entry is removed — so this is observationally the same map).
`expires` is the code's queue, oldest insertion first. Times are virtual nanoseconds.
-/
namespace Btdht

structure Item where
  ih : Bytes
  addr : Addr
  deriving DecidableEq, Repr

structure Expiration where
  item : Item
  inserted : Nat
  deriving DecidableEq, Repr

structure Storage where
  items : List Item
  expires : List Expiration
  deriving Repr

def Storage.empty : Storage := { items := [], expires := [] }

/-- `ItemExpiration::is_expired`: `now - inserted >= EXPIRATION_TIME` -/
def Expiration.isExpired (e : Expiration) (now : Nat) : Bool :=
  decide (now - e.inserted ≥ Constants.EXPIRATION_TIME_ns)

/-- `remove_expired_items`: count the expired prefix, drain it, drop the drained contacts. -/
def Storage.removeExpired (s : Storage) (now : Nat) : Storage :=
  let n := (s.expires.takeWhile (·.isExpired now)).length
  let drained := s.expires.take n
  { items := s.items.filter (fun it => !(drained.map (·.item)).contains it),
    expires := s.expires.drop n }

/-- `add(info_hash, address, curr_time)` -/
def Storage.add (s : Storage) (it : Item) (now : Nat) : Storage × Bool :=
  let s := s.removeExpired now
  let already := s.items.contains it
  if already then
    ({ s with expires := s.expires.filter (fun e => e.item ≠ it) ++ [{ item := it, inserted := now }] }, true)
  else if s.expires.length < Constants.MAX_ITEMS_STORED then
    ({ items := s.items ++ [it], expires := s.expires ++ [{ item := it, inserted := now }] }, true)
  else (s, false)

/-- `find(info_hash, curr_time)` -/
def Storage.find (s : Storage) (ih : Bytes) (now : Nat) : Storage × List Addr :=
  let s := s.removeExpired now
  (s, (s.items.filter (·.ih = ih)).map (·.addr))

end Btdht
