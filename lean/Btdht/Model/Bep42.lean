import Btdht.Model.Crc32c
/-
Model of `InfoHash::from_ip` (src/info_hash.rs) and an independently written BEP42 validity check.
The three random draws of the implementation are arguments (`r`, `r2`, `rest`).
-/
namespace Btdht

def v4Mask : Bytes := [0x03, 0x0f, 0x3f, 0xff]
def v6Mask : Bytes := [0x01, 0x03, 0x07, 0x0f, 0x1f, 0x3f, 0x7f, 0xff]

/-- `ip[i] &= mask[i]` over the first `mask.length` octets -/
def maskIp (octets mask : Bytes) : Bytes :=
  List.zipWith (fun o m => o &&& m) octets mask

/-- `ip[0] |= (rand & 0x7) << 5` -/
def mixR : Bytes → Nat → Bytes
  | [], _ => []
  | b :: bs, r => (b ||| ((r &&& 0x7) <<< 5)) :: bs

/-- the buffer that is fed to CRC32-C: v4 = 4 octets, v6 = the first 8 of 16 octets -/
def crcInput (octets : Bytes) (r : Nat) : Bytes :=
  let mask := if octets.length = 4 then v4Mask else v6Mask
  mixR (maskIp octets mask) r

/-- `InfoHash::from_ip`: `octets` are the 4 (v4) or 16 (v6) address octets, `r` the first random
byte (stored in id[19]), `r2` the second one (low 3 bits of id[2]), `rest` the 16 bytes id[3..19]. -/
def fromIp (octets : Bytes) (r r2 : Nat) (rest : Bytes) : Bytes :=
  let crc := crc32c (crcInput octets r)
  [ (crc >>> 24) % 256,
    (crc >>> 16) % 256,
    (((crc >>> 8) % 256) &&& 0xf8) ||| (r2 &&& 0x7) ] ++ rest ++ [r]

/-- BEP42 check, written from the BEP text: take `r` from the last id byte, recompute the CRC over
the masked address with `r` in the top three bits, compare the top 21 bits. -/
def bep42Valid (octets id : Bytes) : Bool :=
  let r := id.getD 19 0 &&& 0x7
  let crc := crc32c (crcInput octets r)
  id.length = 20 &&
  id.getD 0 0 = (crc >>> 24) % 256 &&
  id.getD 1 0 = (crc >>> 16) % 256 &&
  (id.getD 2 0 &&& 0xf8) = (((crc >>> 8) % 256) &&& 0xf8)

end Btdht
