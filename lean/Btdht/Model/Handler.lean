import Btdht.Model.Lookup
import Btdht.Model.Storage
import Btdht.Model.Token
/-
Model of src/handler.rs `DhtHandler` (one event at a time: the harness plays `run_once`) and of
src/action/refresh.rs `TableRefresh`.
Action ids are symbolic: refresh = 0, bootstrap = 1, lookups 2, 3, ... in creation order (C19
proves the real ones pairwise distinct). Tokens are the terms of `Model/Token.lean`, carried inside
messages by an injective 20-element encoding that no real byte string can collide with.
-/
namespace Btdht

/-- the transaction id of an incoming datagram -/
inductive InTid where
  | raw (b : Bytes)          -- bytes that are no id this node drew: of a length other than 8, or with an unused action prefix
  | sym (t : Tid)            -- an id this node drew
  | fresh (aid : Nat)        -- 8 bytes with the action prefix `aid` and a message id this node never drew
  deriving DecidableEq, Repr

/-- 20 "bytes" standing for SHA1(ip ‖ secret): elements ≥ 256 cannot occur in real byte strings -/
def tokEnc (t : TokTerm) : Bytes := (256 + t.secret) :: (t.ip ++ List.replicate (19 - t.ip.length) 256)

def tokDec? (b : Bytes) : Option TokTerm :=
  match b with
  | s :: rest => if s ≥ 256 then some ⟨rest.filter (· < 256), s - 256⟩ else none
  | [] => none

inductive HEffect where
  | send (dst : Addr) (tid : InTid) (body : Body) (ok : Bool)
  | yield (stream : Nat) (a : Addr)
  | close (stream : Nat)
  deriving Repr

structure HState where
  selfId : Bytes
  v6 : Bool
  readOnly : Bool
  announcePort : Option Nat
  table : Table
  store : Storage
  tokens : TokenStore
  lookups : List Lookup
  refreshBucket : Nat
  refreshSeq : Nat
  timer : Timer Task
  nextAid : Nat
  nextStream : Nat
  failAddrs : List Addr
  deriving Repr

def refreshAid : Nat := 0

def HState.new (selfId : Bytes) (v6 readOnly : Bool) (announcePort : Option Nat) (failAddrs : List Addr) (now : Nat) : HState :=
  { selfId := selfId, v6 := v6, readOnly := readOnly, announcePort := announcePort, table := Table.new selfId,
    store := Storage.empty, tokens := TokenStore.new now, lookups := [], refreshBucket := 0, refreshSeq := 0,
    timer := Timer.new, nextAid := 2, nextStream := 0, failAddrs := failAddrs }

def HState.env (s : HState) (now : Nat) : LEnv :=
  { table := s.table, timer := s.timer, now := now, sendFails := fun a => s.failAddrs.contains a }

def HState.withEnv (s : HState) (env : LEnv) : HState := { s with table := env.table, timer := env.timer }

def liftEffects (effs : List Effect) : List HEffect :=
  effs.map fun e => match e with
    | .send dst tid req ok => .send dst (.sym tid) (.req req) ok
    | .yield st a => .yield st a
    | .close st => .close st

/-- `find_closest_nodes(target, want)` -/
def HState.closestFor (s : HState) (target : Bytes) (want : Option Want) (now : Nat) : List Handle × List Handle :=
  let w : Want := match want with
    | some w => w
    | none => if s.v6 then .n6 else .n4
  let take (v6 : Bool) : List Handle :=
    (((s.table.closestNodes target now).filter (fun n => n.handle.addr.v6 = v6)).take Constants.REPLY_NODES_PER_FAMILY).map (·.handle)
  ((if w = .n4 ∨ w = .both then take false else []), (if w = .n6 ∨ w = .both then take true else []))

/-- the sender of a query is marked as having requested from us, if it is a listed contact -/
def HState.markRemote (s : HState) (id : Bytes) (src : Addr) (now : Nat) : HState :=
  { s with table := (s.table.modifyNode ⟨id, src⟩ now (fun n => n.remoteRequest now)).1 }

def emptyResp (id : Bytes) : Resp := { id := id, values := [], nodes4 := [], nodes6 := [], token := none }

/-- "received an invalid token" -/
def errInvalidToken : Bytes := [114, 101, 99, 101, 105, 118, 101, 100, 32, 97, 110, 32, 105, 110, 118, 97, 108, 105, 100, 32, 116, 111, 107, 101, 110]
/-- "announce storage is full" -/
def errStorageFull : Bytes := [97, 110, 110, 111, 117, 110, 99, 101, 32, 115, 116, 111, 114, 97, 103, 101, 32, 105, 115, 32, 102, 117, 108, 108]

/-- `Token::new` needs exactly 20 bytes; only then is the token store consulted (`checkin` for the
source IP, which may rotate the secrets) -/
def HState.checkToken (s : HState) (token : Bytes) (src : Addr) (now : Nat) : HState × Bool :=
  if token.length = Constants.INFO_HASH_LEN then
    let r := s.tokens.checkin src.ip (tokDec? token) now
    ({ s with tokens := r.1 }, r.2)
  else (s, false)

/-- the contact stored by an announce: the source address, with the announced port unless implied -/
def connectAddr (port : Option Nat) (src : Addr) : Addr :=
  match port with
  | none => src
  | some p => { src with port := p }

/-- the `Request` arms of `handle_incoming` -/
def HState.handleRequest (s : HState) (tid : InTid) (r : Req) (src : Addr) (now : Nat) : HState × List HEffect :=
  if s.readOnly then (s, []) else
  let ok := !s.failAddrs.contains src
  match r with
  | .ping id =>
    let s := s.markRemote id src now
    (s, [.send src tid (.resp (emptyResp s.selfId)) ok])
  | .findNode id target want =>
    let s := s.markRemote id src now
    let (n4, n6) := s.closestFor target want now
    (s, [.send src tid (.resp { emptyResp s.selfId with nodes4 := n4, nodes6 := n6 }) ok])
  | .getPeers id ih want =>
    let s := s.markRemote id src now
    let (store, found) := s.store.find ih now
    let values := (found.filter (fun a => a.v6 = src.v6)).take
      (if src.v6 then Constants.MAX_VALUES_V6 else Constants.MAX_VALUES_V4)
    let s := { s with store := store }
    let (n4, n6) := s.closestFor ih want now
    let (tokens, tok) := s.tokens.checkout src.ip now
    let s := { s with tokens := tokens }
    (s, [.send src tid (.resp { id := s.selfId, values := values, nodes4 := n4, nodes6 := n6, token := some (tokEnc tok) }) ok])
  | .announce id ih port token =>
    let c := (s.markRemote id src now).checkToken token src now
    if !c.2 then
      (c.1, [.send src tid (.err Constants.PROTOCOL_ERROR errInvalidToken) ok])
    else
      let a := c.1.store.add ⟨ih, connectAddr port src⟩ now
      if a.2 then ({ c.1 with store := a.1 }, [.send src tid (.resp (emptyResp s.selfId)) ok])
      else ({ c.1 with store := a.1 }, [.send src tid (.err Constants.SERVER_ERROR errStorageFull) ok])

/-- `handle_lookup_completed`: remove the lookup and let it announce / close its stream -/
def HState.completeLookup (s : HState) (aid : Nat) (now : Nat) : HState × List HEffect :=
  match s.lookups.find? (·.aid = aid) with
  | none => (s, [])
  | some l =>
    let s := { s with lookups := s.lookups.filter (·.aid ≠ aid) }
    let (_, env, effs) := l.recvFinished (s.env now) s.announcePort
    (s.withEnv env, liftEffects effs)

/-- what a transaction id routes to: `(action id, the drawn id if it is one)`; `none` for bytes
that are no id of this node (wrong length, or a prefix this node never used) -/
def InTid.route : InTid → Option (Nat × Option Tid)
  | .raw _ => none
  | .sym t => some (t.aid, some t)
  | .fresh aid => some (aid, none)

/-- the nodes a response names for this node's address family -/
def HState.namedBy (s : HState) (rsp : Resp) : List Handle := if s.v6 then rsp.nodes6 else rsp.nodes4

/-- a response routed to the live lookup `l`: responder and named nodes are offered to the routing
table, then the lookup handles the response (an id of the lookup's prefix that was never drawn
matches no outstanding query) -/
def HState.lookupResponse (s : HState) (l : Lookup) (t? : Option Tid) (rsp : Resp) (src : Addr) (now : Nat) :
    HState × List HEffect :=
  let s1 := { s with table := s.table.addNodes (Node.asGood ⟨rsp.id, src⟩ now) (s.namedBy rsp) now }
  let r : Lookup × LEnv × List Effect := match t? with
    | some t => l.recvResponse (s1.env now) ⟨rsp.id, src⟩ t rsp
    | none => (l, s1.env now, [])
  let s2 := { (s1.withEnv r.2.1) with lookups := s1.lookups.map (fun x => if x.aid = l.aid then r.1 else x) }
  if r.1.completedNow then
    let c := s2.completeLookup l.aid now
    (c.1, liftEffects r.2.2 ++ c.2)
  else (s2, liftEffects r.2.2)

/-- the `Response` arm of `handle_incoming` (`handle_incoming_response`) -/
def HState.handleResponse (s : HState) (tid : InTid) (rsp : Resp) (src : Addr) (now : Nat) : HState × List HEffect :=
  match tid.route with
  | none => (s, [])
  | some (aid, t?) =>
    match s.lookups.find? (·.aid = aid) with
    | some l => s.lookupResponse l t? rsp src now
    | none =>
      if aid = refreshAid then
        ({ s with table := s.table.addNodes (Node.asGood ⟨rsp.id, src⟩ now) (s.namedBy rsp) now }, [])
      else (s, [])

/-- `handle_incoming(message, addr)` -/
def HState.handleIncoming (s : HState) (tid : InTid) (body : Body) (src : Addr) (now : Nat) : HState × List HEffect :=
  match body with
  | .req r => s.handleRequest tid r src now
  | .resp r => s.handleResponse tid r src now
  | .err _ _ => (s, [])

/-- the rest of `handle_start_lookup` once `TableLookup::new` returned `r` -/
def HState.afterNew (s : HState) (r : Lookup × LEnv × List Effect) (now : Nat) : HState × List HEffect × Nat :=
  let stream := s.nextStream
  let s := { s.withEnv r.2.1 with nextAid := s.nextAid + 1, nextStream := stream + 1 }
  if r.1.completedNow then
    let q := r.1.recvFinished (s.env now) s.announcePort
    (s.withEnv q.2.1, liftEffects (r.2.2 ++ q.2.2), stream)
  else ({ s with lookups := s.lookups ++ [r.1] }, liftEffects r.2.2, stream)

/-- `handle_start_lookup` -/
def HState.startLookup (s : HState) (target : Bytes) (announce : Bool) (now : Nat) : HState × List HEffect × Nat :=
  s.afterNew (Lookup.new s.nextAid s.nextStream s.selfId s.v6 target announce (s.env now)) now

/-- `TableRefresh::continue_refresh` -/
def HState.refresh (s : HState) (now : Nat) : HState × List HEffect :=
  let bucket := if s.refreshBucket = maxBuckets then 0 else s.refreshBucket
  let target := flipBit s.selfId bucket
  let picks := (((s.table.closestNodes target now).filter
    (fun n => n.status now = .questionable && !n.recentlyRequestedFrom now)).take Constants.REFRESH_CONCURRENCY).map (·.handle)
  let (s, effs) := picks.foldl (fun (acc : HState × List HEffect) h =>
    let (s, effs) := acc
    let tid : Tid := ⟨refreshAid, s.refreshSeq⟩
    let ok := !s.failAddrs.contains h.addr
    ({ s with refreshSeq := s.refreshSeq + 1, table := markRequested s.table h now },
     effs ++ [.send h.addr (.sym tid) (.req (.findNode s.selfId target none)) ok])) (s, [])
  let (timer, _) := s.timer.scheduleAt (now + Constants.REFRESH_INTERVAL_TIMEOUT_ns) .tableRefresh
  ({ s with timer := timer, refreshBucket := bucket + 1 }, effs)

/-- `handle_check_lookup_timeout` for the live lookup `l` -/
def HState.lookupTimeout (s : HState) (l : Lookup) (t : Tid) (now : Nat) : HState × List HEffect :=
  let r := l.recvTimeout (s.env now) t
  let s2 := { (s.withEnv r.2.1) with lookups := s.lookups.map (fun x => if x.aid = l.aid then r.1 else x) }
  if r.1.completedNow then
    let c := s2.completeLookup l.aid now
    (c.1, liftEffects r.2.2 ++ c.2)
  else (s2, liftEffects r.2.2)

/-- `handle_timeout(task)` -/
def HState.handleTask (s : HState) (task : Task) (now : Nat) : HState × List HEffect :=
  match task with
  | .tableRefresh => s.refresh now
  | .lookupTimeout t =>
    match s.lookups.find? (·.aid = t.aid) with
    | none => (s, [])
    | some l => s.lookupTimeout l t now
  | .lookupEndGame t => s.completeLookup t.aid now

/-- the timer branch of `run_once`: pop the earliest entry and dispatch it (`handle_timeout`) -/
def HState.fireTimer (s : HState) (now : Nat) : HState × List HEffect × Option (TimerEntry Task) :=
  match s.timer.pop with
  | none => (s, [], none)
  | some (timer, e) =>
    let r := { s with timer := timer }.handleTask e.task now
    (r.1, r.2, some e)

end Btdht
