import Btdht.Model.Handler
/-
Model of the running node: src/mainline_dht.rs (API), the `run_once` loop and the bootstrap-success
/ lookup-queue / waiter glue of src/handler.rs, the pending-exchange routing of src/socket.rs and
the bootstrap worker of src/action/bootstrap.rs, on top of the handler model.

One step is one external input (API call, datagram, passage of time); the result is the list of
trace events (`DEv`) the real code emits at its `vtrace!` points, with the instant of each.
The bootstrap worker is an explicit state machine (`BPhase`) advanced by `bRun` "as far as it can
go at `now`"; the handler observes the worker's published state (`hObserve`) after the worker ran.
Iteration order of the first-round contact set (a `HashSet`) is an oracle input (`frOracle`).
-/
namespace Btdht

def bootstrapAid : Nat := 1

/-- an exchange registered in `Socket::transactions` -/
structure Pending where
  addr : Addr
  tid : Tid
  deadline : Nat
  deriving DecidableEq, Repr

/-- `bootstrap::State`, the value of the state channel -/
inductive BPub where
  | awaitStart | initialContact | bootstrapping | bootstrapped | idle
  deriving DecidableEq, Repr

inductive BPhase where
  | awaitStart
  /-- no routers and no nodes configured: bootstrapped, parked for ever -/
  | forever
  /-- `NO_NETWORK_TIMEOUT` or the retry back-off; then the next attempt -/
  | sleeping (wake : Nat)
  /-- first round: contacts still to be sent to (routers first), the throttle sleep if one is
  running, sends that went out, exchanges awaited, responses handled, responses wanted -/
  | initial (tid : Tid) (routersLeft nodesLeft : List Addr) (sleepUntil : Option Nat) (count : Nat)
            (active : List Pending) (responses stopAt : Nat)
  /-- about to send the requests of bucket round `k` -/
  | bucketStart (k : Nat)
  /-- waiting for the answers / timeouts of bucket round `k` -/
  | buckets (k : Nat) (active : List Pending)
  /-- bootstrapped; next periodic check of the number of good nodes -/
  | bootstrapped (nextCheck : Nat)
  deriving Repr

structure BConfig where
  /-- the builder was given router names at all (resolvable or not) -/
  routersGiven : Bool
  /-- the router addresses the names resolve to -/
  routers : List Addr
  nodes : List Addr
  deriving Repr

inductive Cmd where
  | startBootstrap | checkBootstrap | startLookup (ih : Bytes) (ann : Bool) | getLocalAddr | getState | loadContacts
  deriving Repr

/-- trace events -/
inductive DEv where
  | cmd (c : Cmd)
  | timer (t : Task)
  /-- the handler saw the worker's state change to Bootstrapped (`handle_bootstrap_success` follows) -/
  | bstate
  | msg (src : Addr)
  | routed (src : Addr)
  | undecodable (src : Addr)
  | round (bucket : Nat)
  | bpub (p : BPub)
  | battempt (n routers : Nat)
  | binitialDone (n : Nat)
  | bround (k n : Nat)
  | bsweep (good quest : Nat)
  | bcheck
  | bhandled (src : Addr)
  | bignored (src : Addr)
  | send (dst : Addr) (tid : InTid) (body : Body) (ok : Bool)
  | resolved (i : Nat)
  | yield (stream : Nat) (a : Addr)
  | closed (stream : Nat)
  | state (boot : Bool) (good quest buckets : Nat)
  | contacts (good quest : List Addr)
  | addr (a : Addr)
  deriving Repr

structure DState where
  h : HState
  cfg : BConfig
  addr : Addr
  phase : BPhase
  attempt : Nat
  bseq : Nat
  /-- first-round exchanges still registered with the socket although nobody awaits them any more -/
  stale : List Pending
  pub : BPub
  pubVersion : Nat
  seenVersion : Nat
  waiters : List Nat
  nextWaiter : Nat
  queued : List (Bytes × Bool)
  bootstrappedOnce : Bool
  refreshStarted : Bool
  frOracle : List Addr
  /-- the instant of the latest step (time never runs backwards) -/
  clock : Nat
  /-- answers that `Socket::recv` has handed to a registered exchange (the entry is gone from the
  socket's map) and that the worker has not been polled for yet, in arrival order -/
  ready : List (Pending × Body × Addr)
  deriving Repr

def DState.new (selfId : Bytes) (addr : Addr) (readOnly : Bool) (announcePort : Option Nat) (failAddrs : List Addr)
    (cfg : BConfig) (now : Nat) : DState :=
  { h := HState.new selfId addr.v6 readOnly announcePort failAddrs now, cfg := cfg, addr := addr, phase := .awaitStart,
    attempt := 0, bseq := 0, stale := [], pub := .awaitStart, pubVersion := 0, seenVersion := 0, waiters := [],
    nextWaiter := 0, queued := [], bootstrappedOnce := false, refreshStarted := false, frOracle := [], clock := now, ready := [] }

def liftH (effs : List HEffect) : List DEv :=
  effs.map fun e => match e with
    | .send dst tid body ok => .send dst tid body ok
    | .yield st a => .yield st a
    | .close st => .closed st

def DState.setPub (s : DState) (p : BPub) : DState × List DEv :=
  if s.pub = p then (s, []) else ({ s with pub := p, pubVersion := s.pubVersion + 1 }, [.bpub p])

/-- `calculate_retry_duration` -/
def retryDelay (attempt : Nat) : Nat :=
  Constants.BOOTSTRAP_RETRY_BASE ^ (min (attempt + 1) Constants.BOOTSTRAP_RETRY_MAX_EXP) * 1000000000

/-- throttle between first-round sends once more than 8 went out -/
def throttleDelay : Nat := max Constants.NODE_TIMEOUT_ns Constants.NAT_FRIENDLY_SEND_ns

def dedup (l : List Addr) : List Addr := l.foldl (fun acc a => if acc.contains a then acc else acc ++ [a]) []

/-- the contacts of the first round: routers, then the nodes that are not also routers -/
def BConfig.contacts (c : BConfig) : List Addr × List Addr :=
  let rs := dedup c.routers
  (rs, (dedup c.nodes).filter (fun a => !rs.contains a))

/-- loop top of `TableBootstrapInner::run`: exchanges of the previous iteration are dropped -/
def DState.beginAttempt (s : DState) (now : Nat) : DState × List DEv :=
  let s := { s with stale := [] }
  if !s.cfg.routersGiven && s.cfg.nodes.isEmpty then
    let (s, e) := s.setPub .bootstrapped
    ({ s with phase := .forever }, e)
  else
    let (rs, ns) := s.cfg.contacts
    let s := { s with h := { s.h with table := { s.h.table with routers := rs } } }
    let ev := [DEv.battempt s.attempt rs.length]
    if rs.isEmpty && s.cfg.nodes.isEmpty then
      let (s, e) := s.setPub .idle
      ({ s with phase := .sleeping (now + Constants.NO_NETWORK_TIMEOUT_ns) }, ev ++ e)
    else
      let (s, e) := s.setPub .initialContact
      let tid : Tid := ⟨bootstrapAid, s.bseq⟩
      ({ s with bseq := s.bseq + 1,
                phase := .initial tid rs ns none 0 [] 0 (min (rs.length + ns.length) Constants.MAX_INITIAL_RESPONSES) },
       ev ++ e)

/-- the next first-round destination: the oracle's choice if it is still to be contacted, otherwise
the first remaining one (the real order is the iteration order of a hash-set union) -/
def pickFirstRound (oracle routersLeft nodesLeft : List Addr) : Option (Addr × List Addr × List Addr × List Addr) :=
  let pool := routersLeft ++ nodesLeft
  match pool with
  | [] => none
  | d :: _ =>
    let (choice, oracle') := match oracle with
      | o :: rest => if pool.contains o then (o, rest) else (d, oracle)
      | [] => (d, [])
    some (choice, oracle', routersLeft.filter (· ≠ choice), nodesLeft.filter (· ≠ choice))

/-- end of the first round -/
def DState.finishInitial (s : DState) (responses : Nat) (remaining : List Pending) (now : Nat) : DState × List DEv :=
  if responses = 0 then
    let (s, e) := s.setPub .idle
    ({ s with phase := .sleeping (now + retryDelay s.attempt), attempt := s.attempt + 1 },
     [DEv.binitialDone responses] ++ e)
  else
    let (s, e) := s.setPub .bootstrapping
    ({ s with phase := .bucketStart 0, stale := remaining }, [DEv.binitialDone responses] ++ e)

/-- `nodes_to_bootstrap_bucket(k, flip_bit(k))` -/
def DState.bucketPicks (s : DState) (k : Nat) (now : Nat) : List Handle :=
  let t := s.h.table
  let cands : List Node :=
    if k = 0 ∨ k = 1 then t.closestNodes (flipBit t.selfId k) now
    else ((t.buckets.drop (k - 2)).take 3).flatMap (·.nodes)
  ((cands.filter (fun n => n.status now = .questionable)).take Constants.PINGS_PER_BUCKET).map (·.handle)

/-- one request of a bucket round -/
def bucketSend (target : Bytes) (now : Nat) (acc : DState × List Pending × List DEv) (hd : Handle) :
    DState × List Pending × List DEv :=
  let (s, active, evs) := acc
  let tid : Tid := ⟨bootstrapAid, s.bseq⟩
  let s := { s with bseq := s.bseq + 1 }
  let ok := !s.h.failAddrs.contains hd.addr
  let ev := DEv.send hd.addr (.sym tid) (.req (.findNode s.h.selfId target none)) ok
  if ok then
    ({ s with h := { s.h with table := markRequested s.h.table hd now } },
     active ++ [⟨hd.addr, tid, now + Constants.NODE_TIMEOUT_ns⟩], evs ++ [ev])
  else (s, active, evs ++ [ev])

/-- after the last bucket round -/
def DState.sweepDone (s : DState) (now : Nat) : DState × List DEv :=
  let good := s.h.table.numGood now
  let quest := s.h.table.numQuestionable now
  if good < Constants.GOOD_NODE_THRESHOLD && !(dedup s.cfg.routers).isEmpty then
    let (s, e) := s.setPub .idle
    -- the exchanges of this attempt stay registered during the back-off sleep (dropped at the next attempt)
    ({ s with phase := .sleeping (now + retryDelay s.attempt), attempt := s.attempt + 1 },
     [DEv.bsweep good quest] ++ e)
  else
    let (s, e) := s.setPub .bootstrapped
    ({ s with phase := .bootstrapped (now + Constants.PERIODIC_CHECK_TIMEOUT_ns), attempt := 0 }, [DEv.bsweep good quest] ++ e)

/-- the next request of the first round goes out -/
def DState.firstRoundSend (s : DState) (tid : Tid) (rl nl : List Addr) (count : Nat) (active : List Pending)
    (responses stopAt : Nat) (now : Nat) : Option (DState × List DEv) :=
  match pickFirstRound s.frOracle rl nl with
  | none => none
  | some (dst, oracle', rl', nl') =>
    let ok := !s.h.failAddrs.contains dst
    let active' := if ok then active ++ [⟨dst, tid, now + Constants.INITIAL_TIMEOUT_ns⟩] else active
    some ({ s with frOracle := oracle', phase := .initial tid rl' nl' none (if ok then count + 1 else count) active' responses stopAt },
          [DEv.send dst (.sym tid) (.req (.findNode s.h.selfId s.h.selfId none)) ok])

/-- the requests of bucket round `k` go out -/
def DState.bucketRound (s : DState) (k : Nat) (now : Nat) : DState × List DEv :=
  let picks := s.bucketPicks k now
  let acc := picks.foldl (bucketSend (flipBit s.h.selfId k) now) (s, [], [])
  let evs := if picks.isEmpty then acc.2.2 else [DEv.bround k picks.length] ++ acc.2.2
  if acc.2.1.isEmpty then ({ acc.1 with phase := .bucketStart (k + 1) }, evs)
  else ({ acc.1 with phase := .buckets k acc.2.1 }, evs)

/-- the periodic check of a bootstrapped node -/
def DState.periodicCheck (s : DState) (now : Nat) : DState × List DEv :=
  if s.h.table.numGood now < Constants.GOOD_NODE_THRESHOLD then
    let r := s.beginAttempt now
    (r.1, [DEv.bcheck] ++ r.2)
  else ({ s with phase := .bootstrapped (now + Constants.PERIODIC_CHECK_TIMEOUT_ns) }, [.bcheck])

def removePending (l : List Pending) (p : Pending) : List Pending := l.filter (· ≠ p)

/-- the worker's `handle_message` for the answer to the awaited exchange `p` -/
def DState.workerMessage (s : DState) (p : Pending) (body : Body) (src : Addr) (now : Nat) : DState × List DEv :=
  let accept (s : DState) (r : Resp) : DState :=
    { s with h := { s.h with table := s.h.table.addNodes (Node.asGood ⟨r.id, src⟩ now) (s.h.namedBy r) now } }
  match s.phase with
  | .initial tid rl nl sl count active responses stopAt =>
    if active.contains p then
      let active := removePending active p
      match body with
      | .resp r =>
        let s := accept s r
        if responses + 1 ≥ stopAt then
          let f := s.finishInitial (responses + 1) active now
          (f.1, [DEv.bhandled src] ++ f.2)
        else ({ s with phase := .initial tid rl nl sl count active (responses + 1) stopAt }, [.bhandled src])
      | _ => ({ s with phase := .initial tid rl nl sl count active responses stopAt }, [.bignored src])
    else ({ s with stale := removePending s.stale p }, [])
  | .buckets k active =>
    if active.contains p then
      let s := { s with phase := .buckets k (removePending active p) }
      match body with
      | .resp r => (accept s r, [.bhandled src])
      | _ => (s, [.bignored src])
    else ({ s with stale := removePending s.stale p }, [])
  | _ => ({ s with stale := removePending s.stale p }, [])

/-- one transition of the bootstrap worker at `now` when no answer is waiting for it; `none` when it
has to wait -/
def DState.bStepMain (s : DState) (now : Nat) : Option (DState × List DEv) :=
  match s.phase with
  | .awaitStart => none
  | .forever => none
  | .sleeping wake => if wake ≤ now then some (s.beginAttempt now) else none
  | .bootstrapped nextCheck => if nextCheck ≤ now then some (s.periodicCheck now) else none
  | .initial tid rl nl sleepUntil count active responses stopAt =>
    let live := active.filter (fun p => now < p.deadline)
    if live.length < active.length then
      some ({ s with phase := .initial tid rl nl sleepUntil count live responses stopAt }, [])
    else if rl.isEmpty && nl.isEmpty then
      if active.isEmpty then some (s.finishInitial responses [] now) else none
    else
      match sleepUntil with
      | some t => if t ≤ now then s.firstRoundSend tid rl nl count active responses stopAt now else none
      | none =>
        if count > Constants.BOOTSTRAP_THROTTLE_AFTER then
          some ({ s with phase := .initial tid rl nl (some (now + throttleDelay)) count active responses stopAt }, [])
        else s.firstRoundSend tid rl nl count active responses stopAt now
  | .bucketStart k => if k < maxBuckets then some (s.bucketRound k now) else some (s.sweepDone now)
  | .buckets k active =>
    let live := active.filter (fun p => now < p.deadline)
    if live.isEmpty then some ({ s with phase := .bucketStart (k + 1) }, [])
    else if live.length < active.length then some ({ s with phase := .buckets k live }, [])
    else none

/-- one transition of the bootstrap worker at `now`: an answer that was routed to one of its
exchanges is handled first (`receivers.next()`), in arrival order; `none` when it has to wait -/
def DState.bStep (s : DState) (now : Nat) : Option (DState × List DEv) :=
  match s.ready with
  | (p, body, src) :: rest => some (({ s with ready := rest }).workerMessage p body src now)
  | [] => s.bStepMain now

/-- the worker runs until it has to wait -/
def DState.bRun : Nat → DState → Nat → DState × List DEv
  | 0, s, _ => (s, [])
  | fuel + 1, s, now =>
    match s.bStep now with
    | none => (s, [])
    | some (s', evs) =>
      let r := DState.bRun fuel s' now
      (r.1, evs ++ r.2)

def bFuel : Nat := 4000

/-- `TableRefresh::continue_refresh` with its trace point -/
def DState.refreshRound (s : DState) (now : Nat) : DState × List DEv :=
  let bucket := if s.h.refreshBucket = maxBuckets then 0 else s.h.refreshBucket
  let r := s.h.refresh now
  ({ s with h := r.1 }, [DEv.round bucket] ++ liftH r.2)

/-- `handle_start_lookup` (after the F16 repair: queued until the first bootstrap completion) -/
def DState.startLookup (s : DState) (ih : Bytes) (ann : Bool) (now : Nat) : DState × List DEv :=
  if !s.bootstrappedOnce then ({ s with queued := s.queued ++ [(ih, ann)] }, [])
  else
    let r := s.h.startLookup ih ann now
    ({ s with h := r.1 }, liftH r.2.1)

/-- start the lookups that were waiting for the first bootstrap completion, in arrival order -/
def DState.startQueued (s : DState) (now : Nat) : DState × List DEv :=
  s.queued.foldl (fun (acc : DState × List DEv) q =>
    let r := acc.1.startLookup q.1 q.2 now
    (r.1, acc.2 ++ r.2)) ({ s with queued := [] }, [])

/-- the refresh chain is started by the first bootstrap completion only (the F18 repair) -/
def DState.firstRefresh (s : DState) (now : Nat) : DState × List DEv :=
  if s.refreshStarted then (s, []) else ({ s with refreshStarted := true }).refreshRound now

/-- `handle_bootstrap_success` -/
def DState.bootstrapSuccess (s : DState) (now : Nat) : DState × List DEv :=
  let r0 : DState × List DEv := ({ s with waiters := [] }, [DEv.bstate] ++ s.waiters.map DEv.resolved)
  let r1 := r0.1.firstRefresh now
  let r2 := ({ r1.1 with bootstrappedOnce := true }).startQueued now
  (r2.1, r0.2 ++ (r1.2 ++ r2.2))

/-- the `state_rx.changed()` branch of `run_once` -/
def DState.hObserve (s : DState) (now : Nat) : DState × List DEv :=
  if s.seenVersion = s.pubVersion then (s, [])
  else
    let s := { s with seenVersion := s.pubVersion }
    if s.pub = .bootstrapped then s.bootstrapSuccess now else (s, [])

/-- worker, then handler's view of the worker -/
def DState.settle (s : DState) (now : Nat) : DState × List DEv :=
  let r1 := DState.bRun bFuel s now
  let r2 := r1.1.hObserve now
  (r2.1, r1.2 ++ r2.2)

/-- the timer branch of `run_once` for the earliest entry, if it is due at `now` -/
def DState.fireOne (s : DState) (now : Nat) : Option (DState × List DEv) :=
  match s.h.timer.pop with
  | none => none
  | some (timer, e) =>
    if e.deadline ≤ now then
      let h := { s.h with timer := timer }
      match e.task with
      | .tableRefresh => let r := ({ s with h := h }).refreshRound now; some (r.1, [DEv.timer e.task] ++ r.2)
      | task => let r := h.handleTask task now; some ({ s with h := r.1 }, [DEv.timer e.task] ++ liftH r.2)
    else none

/-- ... for every entry that is due at `now` -/
def DState.fireDue : Nat → DState → Nat → DState × List DEv
  | 0, s, _ => (s, [])
  | fuel + 1, s, now =>
    match s.fireOne now with
    | none => (s, [])
    | some (s', evs) =>
      let r := DState.fireDue fuel s' now
      (r.1, evs ++ r.2)

def minOpt (a b : Option Nat) : Option Nat :=
  match a, b with
  | none, b => b
  | a, none => a
  | some x, some y => some (min x y)

def pendingMin (l : List Pending) : Option Nat := l.foldl (fun acc p => minOpt acc (some p.deadline)) none

/-- the next instant at which the node does something on its own -/
def DState.nextDeadline (s : DState) : Option Nat :=
  let hd := s.h.timer.earliest.map (·.deadline)
  let bd : Option Nat := match s.phase with
    | .sleeping w => some w
    | .bootstrapped c => some c
    | .initial _ _ _ sl _ active _ _ => minOpt sl (pendingMin active)
    | .buckets _ active => pendingMin active
    | _ => none
  minOpt hd bd

/-- let time pass up to `t`: at each deadline the handler's due timer entries, then the worker
(`bFirst`: the worker's task was polled before the handler's at coinciding deadlines) -/
def DState.instant (bFirst : Bool) (s : DState) (d : Nat) : DState × List DEv :=
  let s := { s with clock := d }
  let r0 : DState × List DEv := if bFirst then DState.bRun bFuel s d else (s, [])
  let r1 := DState.fireDue 1000 r0.1 d
  let r2 := r1.1.settle d
  (r2.1, r0.2 ++ r1.2 ++ r2.2)

def stamp (t : Nat) (evs : List DEv) : List (Nat × DEv) := evs.map (fun e => (t, e))

def DState.advance (bFirst : Bool) : Nat → DState → Nat → DState × List (Nat × DEv)
  | 0, s, _ => (s, [])
  | fuel + 1, s, t =>
    match s.nextDeadline with
    | none => (s, [])
    | some d =>
      if d ≤ t then
        -- an entry whose deadline has already passed fires at the current instant
        let d := max d s.clock
        let r := s.instant bFirst d
        let z := DState.advance bFirst fuel r.1 t
        (z.1, stamp d r.2 ++ z.2)
      else (s, [])

/-- the registered exchange a message from `src` with id `tid` completes, if any (after the F5
repair requests never do); an exchange that already got its answer is no longer registered -/
def DState.findPending (s : DState) (tid : InTid) (src : Addr) : Option Pending :=
  match tid with
  | .sym t =>
    let active := match s.phase with
      | .initial _ _ _ _ _ a _ _ => a
      | .buckets _ a => a
      | _ => []
    ((active ++ s.stale).filter (fun p => !(s.ready.map (·.1)).contains p)).find? (fun p => p.addr = src ∧ p.tid = t)
  | _ => none

/-- a decodable datagram arrives (`Socket::recv`, then `handle_incoming`) -/
def DState.datagram (s : DState) (tid : InTid) (body : Body) (src : Addr) (now : Nat) : DState × List DEv :=
  let isRequest := match body with | .req _ => true | _ => false
  match (if isRequest then none else s.findPending tid src) with
  | some p =>
    -- `Responded::make_ready`: the worker sees the answer when it is polled next
    ({ s with ready := s.ready ++ [(p, body, src)] }, [DEv.routed src])
  | none =>
    let r := s.h.handleIncoming tid body src now
    ({ s with h := r.1 }, [DEv.msg src] ++ liftH r.2)

def DState.isBootstrapped (s : DState) : Bool := s.pub = .bootstrapped

/-- an API command reaches the handler -/
def DState.command (s : DState) (c : Cmd) (now : Nat) : DState × List DEv :=
  match c with
  | .startBootstrap =>
    match s.phase with
    | .awaitStart => let r := s.beginAttempt now; (r.1, [DEv.cmd c] ++ r.2)
    | _ => (s, [.cmd c])
  | .checkBootstrap =>
    let i := s.nextWaiter
    let s := { s with nextWaiter := i + 1 }
    if s.isBootstrapped then (s, [.cmd c, .resolved i]) else ({ s with waiters := s.waiters ++ [i] }, [.cmd c])
  | .startLookup ih ann => let r := s.startLookup ih ann now; (r.1, [DEv.cmd c] ++ r.2)
  | .getLocalAddr => (s, [.cmd c, .addr s.addr])
  | .getState =>
    (s, [.cmd c, .state s.isBootstrapped (s.h.table.numGood now) (s.h.table.numQuestionable now) s.h.table.buckets.length])
  | .loadContacts => let (g, q) := s.h.table.loadContacts now; (s, [.cmd c, .contacts g q])

/-- external inputs -/
inductive DOp where
  | adv
  | cmd (c : Cmd)
  | datagram (tid : InTid) (body : Body) (src : Addr)
  | garbage (src : Addr)
  /-- scheduler choices, for steps whose inputs arrive together with what is due at that instant:
  the worker's task is polled; the handler takes one due timer entry; the handler looks at the
  worker's published state -/
  | worker
  | timer1
  | observe
  deriving Repr

def advFuel : Nat := 100000

def DState.input (s : DState) (op : DOp) (t : Nat) : DState × List DEv :=
  match op with
  | .adv => (s, [])
  | .cmd c => s.command c t
  | .datagram tid body src => s.datagram tid body src t
  | .garbage src => (s, [.undecodable src])
  | .worker => DState.bRun bFuel s t
  | .timer1 => (s.fireOne t).getD (s, [])
  | .observe => s.hObserve t

/-- several inputs that reach the handler's task back to back (it handles every ready branch of
its `select!` before another task gets to run) -/
def DState.inputs (s : DState) : List DOp → Nat → DState × List DEv
  | [], _ => (s, [])
  | op :: rest, t =>
    let r := s.input op t
    let z := DState.inputs r.1 rest t
    (z.1, r.2 ++ z.2)

/-- one step: time passes up to `t` (everything that is due happens, in order), then the inputs,
then the worker and the handler's view of it.
`hold`: the inputs reach the handler together with what is due at `t` itself — time only passes
up to just before `t`, and `ops` spells out the order in which the handler and the worker got to
run at `t` (`worker`, `timer1`, `observe` between the real inputs); whatever is then still due at
`t` happens at the beginning of the next step. -/
def DState.stepG (s : DState) (ops : List DOp) (t : Nat) (bFirst : Bool) (hold : Bool) : DState × List (Nat × DEv) :=
  let t := max t s.clock
  let a := DState.advance bFirst advFuel s (if hold then t - 1 else t)
  let r := ({ a.1 with clock := t }).inputs ops t
  let z := r.1.settle t
  (z.1, a.2 ++ stamp t (r.2 ++ z.2))

/-- the usual step: one input after everything due at `t` -/
def DState.step (s : DState) (op : DOp) (t : Nat) (bFirst : Bool := false) : DState × List (Nat × DEv) :=
  s.stepG [op] t bFirst false

/-- the inputs of a step with their oracle annotations -/
structure DInput where
  ops : List DOp
  t : Nat
  bFirst : Bool
  fr : List Addr
  hold : Bool

def DState.stepIn (s : DState) (i : DInput) : DState × List (Nat × DEv) :=
  ({ s with frOracle := i.fr }).stepG i.ops i.t i.bFirst i.hold

/-- a whole run: all events in order -/
def DState.run (s : DState) : List DInput → DState × List (Nat × DEv)
  | [] => (s, [])
  | i :: rest =>
    let r := s.stepIn i
    let z := DState.run r.1 rest
    (z.1, r.2 ++ z.2)

end Btdht
