import Btdht.Model.Table
import Driver.Token
namespace Btdht.Driver
open Btdht

def optNs : Option Nat → String
  | some t => toString t
  | none => "-"

def fmtHandle (h : Handle) : String := hexOfBytes h.id ++ "@" ++ h.addr.toStr

def fmtNode (n : Node) : String :=
  if n = Node.asBad placeholderHandle then "_"
  else s!"{fmtHandle n.handle}/{optNs n.lastRequest},{optNs n.lastResponse},{optNs n.lastLocalRequest},{n.refreshRequests}"

def fmtTable (t : Table) : String :=
  s!"len={t.buckets.length} | " ++
    joinWith " | " (t.buckets.map fun b => joinWith " " (b.nodes.map fmtNode))

def parseHandle? (id a : String) : Option Handle :=
  match bytesOfHex? id, Addr.parse? a with
  | some id, some a => if id.length = 20 then some ⟨id, a⟩ else none
  | _, _ => none

/-- `id@addr` -/
def parseHandleAt? (s : String) : Option Handle :=
  match s.splitOn "@" with
  | [id, a] => parseHandle? id a
  | _ => none

def mkNode (kind : String) (h : Handle) (now : Nat) : Option Node :=
  if kind = "g" then some (Node.asGood h now)
  else if kind = "q" then some (Node.asQuestionable h now)
  else if kind = "b" then some (Node.asBad h)
  else none

def sortedDedup (l : List String) : List String :=
  (l.mergeSort (fun a b => decide (a ≤ b))).eraseDups

structure TableDrv where
  table : Option Table := none
  node : Option Node := none

/-- value of `key=value` among plain words -/
def kv? (ws : List String) (key : String) : Option String :=
  let p := key ++ "="
  ws.findSome? fun w => if w.startsWith p then some ((w.drop p.length).toString) else none

def tableStep (d : TableDrv) (line : String) : TableDrv × String :=
  let ws := plainWords line
  match ws with
  | ["case", n] => ({}, "case " ++ n)
  | ["case", n, _] => ({}, "case " ++ n)
  | ["new", id, routers] =>
    match bytesOfHex? id, kv? ws "routers" with
    | some id, some r =>
      let rs := if r = "-" then some [] else (r.splitOn ",").mapM Addr.parse?
      match rs with
      | some rs => if id.length = 20 then ({ d with table := some { Table.new id with routers := rs } }, "ok") else (d, "bad-op")
      | none => (d, "bad-op")
    | _, _ => (d, "bad-op")
  | ["offer", kind, id, a, t] =>
    match d.table, parseHandle? id a, at? t with
    | some tb, some h, some now =>
      match mkNode kind h now with
      | some n => let tb' := tb.addNode n now; ({ d with table := some tb' }, s!"len={tb'.buckets.length}")
      | none => (d, "bad-op")
    | none, _, _ => (d, "no-table")
    | _, _, _ => (d, "bad-op")
  | ["addnodes", id, a, named, t] =>
    match d.table, parseHandle? id a, kv? ws "named", at? t with
    | some tb, some h, some nm, some now =>
      let hs := if nm = "-" then some [] else (nm.splitOn ";").mapM parseHandleAt?
      match hs with
      | some hs =>
        let tb' := tb.addNodes (Node.asGood h now) hs now
        ({ d with table := some tb' }, s!"len={tb'.buckets.length}")
      | none => (d, "bad-op")
    | none, _, _, _ => (d, "no-table")
    | _, _, _, _ => (d, "bad-op")
  | [op, id, a, t] =>
    if op = "local" ∨ op = "remote" then
      match d.table, parseHandle? id a, at? t with
      | some tb, some h, some now =>
        let (tb', found) := tb.modifyNode h now (fun n => if op = "local" then n.localRequest now else n.remoteRequest now)
        ({ d with table := some tb' }, if found then "found" else "absent")
      | none, _, _ => (d, "no-table")
      | _, _, _ => (d, "bad-op")
    else if op = "n" ∧ id = "update" then
      match d.node, at? t with
      | some n, some now =>
        match mkNode a n.handle now with
        | some other => let n' := n.update other now; ({ d with node := some n' }, fmtNode n')
        | none => (d, "bad-op")
      | none, _ => (d, "no-node")
      | _, _ => (d, "bad-op")
    else (d, "bad-op")
  | ["closest", target, t] =>
    match d.table, bytesOfHex? target, at? t with
    | some tb, some tg, some now =>
      (d, "[" ++ joinWith "," ((tb.closestNodes tg now).map (fun n => fmtHandle n.handle)) ++ "]")
    | none, _, _ => (d, "no-table")
    | _, _, _ => (d, "bad-op")
  | ["contacts", t] =>
    match d.table, at? t with
    | some tb, some now =>
      let (g, q) := tb.loadContacts now
      (d, "good=[" ++ joinWith "," (sortedDedup (g.map Addr.toStr)) ++ "] quest=[" ++
          joinWith "," (sortedDedup (q.map Addr.toStr)) ++ "]")
    | none, _ => (d, "no-table")
    | _, _ => (d, "bad-op")
  | ["counts", t] =>
    match d.table, at? t with
    | some tb, some now => (d, s!"good={tb.numGood now} quest={tb.numQuestionable now} buckets={tb.buckets.length}")
    | none, _ => (d, "no-table")
    | _, _ => (d, "bad-op")
  | ["dump", t] =>
    match d.table, at? t with
    | some tb, some _ => (d, fmtTable tb)
    | none, _ => (d, "no-table")
    | _, _ => (d, "bad-op")
  | ["n", "new", kind, id, a, t] =>
    match parseHandle? id a, at? t with
    | some h, some now =>
      match mkNode kind h now with
      | some n => ({ d with node := some n }, fmtNode n)
      | none => (d, "bad-op")
    | _, _ => (d, "bad-op")
  | ["n", op, t] =>
    match d.node, at? t with
    | some n, some now =>
      if op = "local" then let n' := n.localRequest now; ({ d with node := some n' }, fmtNode n')
      else if op = "remote" then let n' := n.remoteRequest now; ({ d with node := some n' }, fmtNode n')
      else if op = "status" then (d, (n.status now).letter)
      else if op = "recent" then (d, toString (n.recentlyRequestedFrom now))
      else (d, "bad-op")
    | none, _ => (d, "no-node")
    | _, _ => (d, "bad-op")
  | _ => (d, "bad-op")

end Btdht.Driver
