import Btdht.Model.Common
namespace Btdht.Driver
open Btdht

/-- value of the oracle annotation `~key=value` of an op line -/
def oracle? (ws : List String) (key : String) : Option String :=
  let p := "~" ++ key ++ "="
  ws.findSome? fun w => if w.startsWith p then some ((w.drop p.length).toString) else none

/-- the words of a line without oracle annotations -/
def plainWords (line : String) : List String := (words line).filter fun w => !w.startsWith "~"

def u16List (bs : Bytes) : List Nat :=
  match bs with
  | a :: b :: rest => (a * 256 + b) :: u16List rest
  | _ => []

end Btdht.Driver
