import Btdht.Model.Token
import Driver.Util
namespace Btdht.Driver
open Btdht

/-- `@123` -/
def at? (w : String) : Option Nat :=
  if w.startsWith "@" then (w.drop 1).toString.toNat? else none

structure TokDrv where
  run : Option TokRun := none

def fmtStore (s : TokenStore) : String := s!"c={s.curr} l={s.last} lr={s.lastRefresh}"

/-- ops: `new @t` | `checkout <ip> @t` | `checkin <ip> #k @t` | `checkin <ip> raw:<hex> @t` -/
def tokenStep (d : TokDrv) (line : String) : TokDrv × String :=
  match plainWords line with
  | ["case", n] => ({}, "case " ++ n)
  | ["case", n, _] => ({}, "case " ++ n)
  | ["new", t] =>
    match at? t with
    | some t => let r := TokRun.init t; ({ run := some r }, "ok | " ++ fmtStore r.store)
    | none => (d, "bad-op")
  | ["checkout", ip, t] =>
    match d.run, bytesOfHex? ip, at? t with
    | some r, some ip, some t =>
      let (r', o) := r.step (.checkout ip t)
      match o with
      | .issued tok => ({ run := some r' }, s!"tok {hexOfBytes tok.ip} {tok.secret} | " ++ fmtStore r'.store)
      | _ => (d, "internal")
    | none, _, _ => (d, "no-store")
    | _, _, _ => (d, "bad-op")
  | ["checkin", ip, tok, t] =>
    match d.run, bytesOfHex? ip, at? t with
    | some r, some ip, some t =>
      let ev : Option TokEvent :=
        if tok.startsWith "#" then (tok.drop 1).toString.toNat?.map (fun k => TokEvent.checkin ip k t)
        else if tok.startsWith "raw:" then some (TokEvent.checkinJunk ip t)
        else none
      match ev with
      | some ev =>
        let (r', o) := r.step ev
        match o with
        | .verdict b => ({ run := some r' }, s!"{b} | " ++ fmtStore r'.store)
        | _ => (d, "internal")
      | none => (d, "bad-op")
    | none, _, _ => (d, "no-store")
    | _, _, _ => (d, "bad-op")
  | _ => (d, "bad-op")

end Btdht.Driver
