import Driver.Bep42
import Driver.Tid
import Driver.Token
import Driver.Storage
import Driver.Table
import Driver.Codec
import Driver.Handler
import Driver.Node
open Btdht Btdht.Driver

/-- Generic loop for a stateful engine: one op per stdin line, one canonical line out. -/
partial def loopS {σ : Type} (h : IO.FS.Stream) (out : IO.FS.Stream) (step : σ → String → σ × String) (s : σ) : IO Unit := do
  let line ← h.getLine
  if line.isEmpty then return ()
  let (s', o) := step s line
  out.putStrLn o
  loopS h out step s'

def stateless (f : String → String) : Unit → String → Unit × String := fun _ l => ((), f l)

def main (args : List String) : IO UInt32 := do
  let stdin ← IO.getStdin
  let stdout ← IO.getStdout
  match args with
  | ["bep42"] => loopS stdin stdout (stateless bep42Step) (); return 0
  | ["tid"] => loopS stdin stdout tidStep {}; return 0
  | ["token"] => loopS stdin stdout tokenStep {}; return 0
  | ["storage"] => loopS stdin stdout storageStep Storage.empty; return 0
  | ["table"] => loopS stdin stdout tableStep {}; return 0
  | ["codec"] => loopS stdin stdout (stateless codecStep) (); return 0
  | ["handler"] => loopS stdin stdout handlerStep {}; return 0
  | ["node"] => loopS stdin stdout nodeStep {}; return 0
  | _ => IO.eprintln "usage: btdht_model <engine>"; return 2
