import Btdht.Model.Storage
import Driver.Token
namespace Btdht.Driver
open Btdht

def fmtAddrs (l : List Addr) : String := "[" ++ joinWith "," (l.map Addr.toStr) ++ "]"

/-- ops: `add <ih> <addr> @t` -> true|false ; `find <ih> @t` -> [addr,..] ; `len @t` -> number of stored pairs -/
def storageStep (s : Storage) (line : String) : Storage × String :=
  match plainWords line with
  | ["case", n] => (Storage.empty, "case " ++ n)
  | ["case", n, _] => (Storage.empty, "case " ++ n)
  | ["add", ih, a, t] =>
    match bytesOfHex? ih, Addr.parse? a, at? t with
    | some ih, some a, some t => let (s', ok) := s.add ⟨ih, a⟩ t; (s', toString ok)
    | _, _, _ => (s, "bad-op")
  | ["find", ih, t] =>
    match bytesOfHex? ih, at? t with
    | some ih, some t => let (s', l) := s.find ih t; (s', fmtAddrs l)
    | _, _ => (s, "bad-op")
  | _ => (s, "bad-op")

end Btdht.Driver
