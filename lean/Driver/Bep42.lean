import Btdht.Model.Bep42
import Driver.Util
namespace Btdht.Driver
open Btdht

/-- ops:  `fromip <octets-hex> <r> <r2> <rest-hex>` -> id hex
          `valid <octets-hex> <id-hex>`            -> true|false
          `crc <hex>`                              -> decimal crc -/
def bep42Step (line : String) : String :=
  let ws := words line
  match plainWords line with
  | ["fromip", o] =>
    match bytesOfHex? o, (oracle? ws "r").bind (·.toNat?), (oracle? ws "r2").bind (·.toNat?),
        (oracle? ws "rest").bind bytesOfHex? with
    | some o, some r, some r2, some rest =>
      if (o.length = 4 ∨ o.length = 16) ∧ r < 256 ∧ r2 < 256 ∧ rest.length = 16
      then hexOfBytes (fromIp o r r2 rest) else "bad-op"
    | _, _, _, _ => "bad-op"
  | ["valid", o, id] =>
    match bytesOfHex? o, bytesOfHex? id with
    | some o, some id => if o.length = 4 ∨ o.length = 16 then toString (bep42Valid o id) else "bad-op"
    | _, _ => "bad-op"
  | ["crc", h] =>
    match bytesOfHex? h with
    | some b => toString (crc32c b)
    | none => "bad-op"
  | ["case", n] => "case " ++ n
  | ["case", n, _] => "case " ++ n
  | _ => "bad-op"

end Btdht.Driver
