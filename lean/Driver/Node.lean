import Btdht.Model.Dht
import Driver.Handler
import Std.Data.HashMap
namespace Btdht.Driver
open Btdht

/-- driver state of the node engine: the node models of the case and the global naming tables -/
structure NDrv where
  nodes : List (Nat × DState) := []
  now : Nat := 0
  /-- `(node, aid, seq)` of the transaction ids that appeared, `#k` by first appearance -/
  tids : Array (Nat × Nat × Nat) := #[]
  tidIdx : Std.HashMap (Nat × Nat × Nat) Nat := {}
  /-- `(node, ip, secret)` of the tokens real nodes issued, `K<n>` by first appearance -/
  toks : List (Nat × Bytes × Nat) := []
  /-- a same-instant interleaving the model does not reproduce was observed: stop comparing -/
  unmodelled : Bool := false
  /-- `(node, waiter)` of `bootstrapped()` calls whose caller gave up (`api <k> cancel`): the handler
  still resolves them, nobody is there to see it -/
  cancelled : List (Nat × Nat) := []

def NDrv.get? (d : NDrv) (k : Nat) : Option DState := (d.nodes.find? (·.1 = k)).map (·.2)

def NDrv.set (d : NDrv) (k : Nat) (s : DState) : NDrv :=
  if d.nodes.any (·.1 = k) then { d with nodes := d.nodes.map fun p => if p.1 = k then (k, s) else p }
  else { d with nodes := (d.nodes ++ [(k, s)]).mergeSort (fun a b => a.1 ≤ b.1) }

/-- a foreign transaction id `#j` handed to a node: one out-of-range element the node echoes back -/
def foreignTid (j : Nat) : Bytes := [256 + j]
/-- a token named `K<n>` that another node issued: 20 out-of-range elements -/
def foreignTok (n : Nat) : Bytes := List.replicate 20 (100000 + n)

def NDrv.tidName (d : NDrv) (node : Nat) (t : InTid) : NDrv × String :=
  match t with
  | .raw [x] => if x ≥ 256 then (d, s!"#{x - 256}") else (d, "x" ++ hexOrDash [x])
  | .raw b => (d, "x" ++ hexOrDash b)
  | .fresh aid => (d, "{" ++ s!"n{node}.a{aid}.fresh" ++ "}")
  | .sym t =>
    let key := (node, t.aid, t.seq)
    match d.tidIdx[key]? with
    | some j => (d, s!"#{j}")
    | none => ({ d with tids := d.tids.push key, tidIdx := d.tidIdx.insert key d.tids.size }, s!"#{d.tids.size}")

def NDrv.tokName (d : NDrv) (node : Nat) (b : Bytes) : NDrv × String :=
  match b with
  | x :: _ =>
    if x ≥ 100000 then (d, s!"K{x - 100000}")
    else match tokDec? b with
      | some t =>
        let key := (node, t.ip, t.secret)
        (match d.toks.findIdx? (· == key) with
         | some j => (d, s!"K{j}")
         | none => ({ d with toks := d.toks ++ [key] }, s!"K{d.toks.length}"))
      | none => (d, hexOrDash b)
  | [] => (d, "-")

def nBodyText (d : NDrv) (node : Nat) : Body → NDrv × String
  | .req (.announce id ih p tok) =>
    let ps := match p with | none => "implied" | some p => toString p
    let (d, tk) := d.tokName node tok
    (d, s!"q announce_peer id={hexOfBytes id} info_hash={hexOfBytes ih} port={ps} token={tk}")
  | .resp r =>
    let vals := if r.values.isEmpty then "-" else joinWith ";" (r.values.map Addr.toStr)
    let (d, tok) := match r.token with
      | none => (d, "none")
      | some t => d.tokName node t
    (d, s!"r id={hexOfBytes r.id} values={vals} nodes={nodesStr r.nodes4} nodes6={nodesStr r.nodes6} token={tok}")
  | b => (d, bodyText b)

def pubName : BPub → String
  | .awaitStart => "AwaitStart"
  | .initialContact => "InitialContact"
  | .bootstrapping => "Bootstrapping"
  | .bootstrapped => "Bootstrapped"
  | .idle => "IdleBeforeRebootstrap"

def cmdText : Cmd → String
  | .startBootstrap => "start_bootstrap"
  | .checkBootstrap => "check_bootstrap"
  | .startLookup ih ann => s!"start_lookup {hexOfBytes ih} {ann}"
  | .getLocalAddr => "get_local_addr"
  | .getState => "get_state"
  | .loadContacts => "load_contacts"

def isX : DEv → Bool
  | .resolved _ | .yield _ _ | .closed _ | .state _ _ _ _ | .contacts _ _ | .addr _ => true
  | _ => false

def evText (d : NDrv) (node : Nat) (e : DEv) : NDrv × String :=
  match e with
  | .cmd c => (d, "H cmd " ++ cmdText c)
  | .timer .tableRefresh => (d, "H timer refresh")
  | .timer (.lookupTimeout t) => let (d, n) := d.tidName node (.sym t); (d, "H timer timeout:" ++ n)
  | .timer (.lookupEndGame t) => let (d, n) := d.tidName node (.sym t); (d, "H timer endgame:" ++ n)
  | .bstate => (d, "H bstate true")
  | .msg src => (d, "H msg " ++ src.toStr)
  | .routed src => (d, "S routed " ++ src.toStr)
  | .undecodable src => (d, "S undecodable " ++ src.toStr)
  | .round b => (d, s!"R round {b}")
  | .bpub p => (d, "B state " ++ pubName p)
  | .battempt n r => (d, s!"B attempt {n} routers={r}")
  | .binitialDone n => (d, s!"B initial-done {n}")
  | .bround k n => (d, s!"B round {k} {n}")
  | .bsweep g q => (d, s!"B sweep-done {g} {q}")
  | .bcheck => (d, "B check")
  | .bhandled src => (d, "B handled " ++ src.toStr)
  | .bignored src => (d, "B ignored " ++ src.toStr)
  | .send dst tid body ok =>
    let (d, tn) := d.tidName node tid
    let (d, bt) := nBodyText d node body
    (d, s!"W {dst.toStr}/{if ok then "ok" else "fail"}/t={tn} {bt}")
  | .resolved i => (d, s!"X resolved {i} true")
  | .yield st a => (d, s!"X yield {st} {a.toStr}")
  | .closed st => (d, s!"X closed {st}")
  | .state boot g q b => (d, s!"X state run=true boot={boot} good={g} quest={q} buckets={b}")
  | .contacts g q =>
    (d, "X contacts good=[" ++ joinWith "," (sortedDedup (g.map Addr.toStr)) ++ "] quest=[" ++
        joinWith "," (sortedDedup (q.map Addr.toStr)) ++ "]")
  | .addr a => (d, "X addr " ++ a.toStr)

/-- canonical order of the events of one step: by instant, then by node; within such a group the
API-side events (`X ...`, produced by other tasks) after the node's own, resolutions by waiter -/
def canonEvents (evs : List (Nat × Nat × DEv)) : List (Nat × Nat × DEv) :=
  let sorted := evs.mergeSort (fun a b => a.1 < b.1 || (a.1 == b.1 && a.2.1 ≤ b.2.1))
  -- split into groups of equal (t, node)
  let groups : List (List (Nat × Nat × DEv)) := sorted.foldl (fun acc e =>
    match acc.getLast? with
    | some g =>
      (match g.head? with
       | some h => if h.1 == e.1 && h.2.1 == e.2.1 then acc.dropLast ++ [g ++ [e]] else acc ++ [[e]]
       | none => acc ++ [[e]])
    | none => [[e]]) []
  groups.flatMap fun g =>
    let own := g.filter (fun e => !isX e.2.2)
    let xs := g.filter (fun e => isX e.2.2)
    let res := xs.filter (fun e => match e.2.2 with | .resolved _ => true | _ => false)
    let others := xs.filter (fun e => match e.2.2 with | .resolved _ => false | _ => true)
    let resSorted := res.mergeSort (fun a b => match a.2.2, b.2.2 with
      | .resolved i, .resolved j => i ≤ j
      | _, _ => true)
    -- resolutions keep their place relative to the other API events only as a block at the front
    own ++ resSorted ++ others

def renderEvents (d : NDrv) (evs : List (Nat × Nat × DEv)) : NDrv × String :=
  let evs := (canonEvents evs).filter fun e => match e.2.2 with
    | .resolved i => !d.cancelled.contains (e.2.1, i)
    | _ => true
  let (d, parts, _) := evs.foldl (fun (acc : NDrv × List String × Option Nat) e =>
    let (d, parts, lastT) := acc
    let (d, txt) := evText d e.2.1 e.2.2
    let p := if lastT == some e.1 then s!"n{e.2.1} {txt}" else s!"@{e.1} n{e.2.1} {txt}"
    (d, parts ++ [p], some e.1)) (d, [], none)
  (d, if parts.isEmpty then "-" else joinWith " ; " parts)

/-- `#j` / `x<hex>` of an incoming datagram for node `k` -/
def NDrv.parseTid? (d : NDrv) (k : Nat) (w : String) : Option InTid :=
  if w.startsWith "x" then (bytesOfHex? (w.drop 1).toString).map .raw
  else if w.startsWith "#" then
    match (w.drop 1).toString.toNat? with
    | some j =>
      match d.tids[j]? with
      | some (node, aid, seq) => if node = k then some (.sym ⟨aid, seq⟩) else some (.raw (foreignTid j))
      | none => none
    | none => none
  else none

/-- `token=K<n>` words resolved for node `k`: its own token term, or the opaque foreign token -/
def NDrv.resolveToks (d : NDrv) (k : Nat) (ws : List String) : List String :=
  ws.map fun w =>
    if w.startsWith "token=K" then
      match (w.drop 7).toString.toNat? with
      | some n =>
        (match d.toks[n]? with
         | some (node, ip, sec) =>
           if node = k then s!"token=T{hexOfBytes ip}.{sec}" else "token=F" ++ toString n
         | none => "token=" ++ hexOfBytes (List.replicate 20 238))
      | none => w
    else w

/-- body text with `token=F<n>` (foreign token) understood -/
def parseBodyN? (ws : List String) : Option Body :=
  match ws.find? (·.startsWith "token=F") with
  | some w =>
    match (w.drop 7).toString.toNat? with
    | some n =>
      let ws' := ws.map fun x => if x.startsWith "token=F" then "token=00" else x
      (parseBody? ws').map fun b => match b with
        | .req (.announce id ih p _) => .req (.announce id ih p (foreignTok n))
        | .resp r => .resp { r with token := some (foreignTok n) }
        | b => b
    | none => none
  | none => parseBody? ws

def parseAddrList? (s : String) : Option (List Addr) :=
  if s = "-" then some [] else (s.splitOn ",").mapM Addr.parse?

/-- first-round order hints `~fr=<k>:<addr>,...` for node `k` -/
def frFor (line : String) (k : Nat) : List Addr :=
  match oracle? (words line) "fr" with
  | some s => (s.splitOn ",").filterMap fun item =>
      match item.splitOn "/" with
      | [n, a] => if n.toNat? = some k then Addr.parse? a else none
      | _ => none
  | none => []

/-- `~sched=W,I0,T,O,...`: the order in which, at the instant of a racing op, the worker's task was
polled (`W`), the handler took the n-th input of the op (`I<n>`), one due timer entry (`T`) or
looked at the worker's published state (`O`) -/
def schedule (line : String) (inputs : List DOp) : List DOp :=
  match oracle? (words line) "sched" with
  | none => inputs
  | some sch =>
    let items := if sch = "-" then [] else sch.splitOn ","
    let ops := items.filterMap fun c =>
      match c with
      | "W" => some DOp.worker
      | "T" => some DOp.timer1
      | "O" => some DOp.observe
      | _ => if c.startsWith "I" then (c.drop 1).toString.toNat?.bind (inputs[·]?) else none
    -- an input the trace does not show (it had no effect the hooks see) is taken at the end
    let used := items.filterMap fun c => if c.startsWith "I" then (c.drop 1).toString.toNat? else none
    ops ++ ((List.range inputs.length).filter (fun i => !used.contains i)).filterMap (inputs[·]?)

def NDrv.stepAllG (d : NDrv) (line : String) (t : Nat) (target : Option (Nat × List DOp)) : NDrv × String :=
  let hold := (words line).any (· == "~hold")
  let (nodes, evs) := d.nodes.foldl (fun (acc : List (Nat × DState) × List (Nat × Nat × DEv)) p =>
    let (k, s) := p
    let s := { s with frOracle := frFor line k }
    let (ops, hold) := match target with
      | some (k', ops) => if k' = k then (schedule line ops, hold) else ([DOp.adv], false)
      | none => ([DOp.adv], false)
    let bf := match oracle? (words line) "bfirst" with
      | some l => (l.splitOn ",").any (·.toNat? == some k)
      | none => false
    let r := s.stepG ops t bf hold
    (acc.1 ++ [(k, r.1)], acc.2 ++ r.2.map (fun e => (e.1, k, e.2)))) ([], [])
  let d := { d with nodes := nodes, now := t }
  renderEvents d evs

def NDrv.stepAll (d : NDrv) (line : String) (t : Nat) (target : Option (Nat × DOp)) : NDrv × String :=
  d.stepAllG line t (target.map fun p => (p.1, [p.2]))

/-- the input a `dg <tid> <src> <body...>` / `dgraw <hex> <src>` item stands for at node `k` -/
def NDrv.parseDatagram? (d : NDrv) (k : Nat) (st : DState) (ws : List String) : Option (Option DOp) :=
  match ws with
  | "dg" :: tidw :: src :: rest =>
    match Addr.parse? src, d.parseTid? k tidw with
    | some src, some tid =>
      match parseBodyN? (d.resolveToks k rest) with
      | some body =>
        let body := match body with
          | .req (.announce id ih p tok) =>
            (match tokDec? tok with
             | some tt => if tt.secret ≥ st.h.tokens.next then Body.req (.announce id ih p (List.replicate 20 0)) else body
             | none => body)
          | b => b
        some (some (.datagram tid body src))
      | none => none
    | _, _ => none
  | ["dgraw", h, src] =>
    match bytesOfHex? h, Addr.parse? src with
    | some b, some src =>
      match decodeMsg b with
      | .ok m => some (some (.datagram (.raw m.tid) m.body src))
      | .error => some (some (.garbage src))
      | .unmodelled => some none
    | _, _ => none
  | _ => none

def splitOnWord (sep : String) (ws : List String) : List (List String) :=
  ws.foldl (fun acc w => if w = sep then acc ++ [[]] else acc.dropLast ++ [(acc.getLast?.getD []) ++ [w]]) [[]]

def nodeStep (d : NDrv) (line : String) : NDrv × String :=
  let ws := plainWords line
  -- `racing <op>`: the harness issued the input concurrently with what was due at that instant;
  -- the order that resulted is in the `~hold ~sched=` annotations
  let ws := if ws.head? = some "racing" then ws.drop 1 else ws
  match ws with
  | ["case", n] => ({}, "case " ++ n)
  | ["case", n, _] => ({}, "case " ++ n)
  | "note" :: _ => (d, "-")
  | _ =>
  if d.unmodelled || (words line).any (· == "~unmodelled") then ({ d with unmodelled := true }, "unmodelled") else
  match ws.getLast?.bind at? with
  | none => (d, "bad-op")
  | some t =>
  if t < d.now then (d, "bad-op") else
  match ws with
  | ["adv", _] => d.stepAll line t none
  | "nnew" :: ks :: id :: _ =>
    match ks.toNat?, bytesOfHex? id, (kv? ws "addr").bind Addr.parse?, kv? ws "ro", kv? ws "port", kv? ws "routers", (kv? ws "nodes").bind parseAddrList? with
    | some k, some id, some addr, some ro, some port, some routers, some nodes =>
      let p : Option (Option Nat) := if port = "none" then some none else port.toNat?.map some
      let fa := match kv? ws "fail" with
        | some f => parseAddrList? f
        | none => some []
      let ritems := if routers = "-" then [] else routers.splitOn ","
      let rs := ritems.filterMap fun r => if r.startsWith "!" then none else Addr.parse? r
      let okRouters := ritems.all fun r => r.startsWith "!" || (Addr.parse? r).isSome
      match p, fa with
      | some p, some fa =>
        if id.length = 20 ∧ (d.get? k).isNone ∧ okRouters ∧ !(d.nodes.any fun n => n.2.addr == addr) then
          -- everything due on the other nodes happens first, then the new node starts
          let cfg : BConfig := { routersGiven := !ritems.isEmpty, routers := rs.filter (·.v6 == addr.v6), nodes := nodes }
          let s := DState.new id addr (ro = "1") p fa cfg t
          let d := d.set k s
          d.stepAll line t (some (k, .cmd .startBootstrap))
        else (d, "bad-op")
      | _, _ => (d, "bad-op")
    | _, _, _, _, _, _, _ => (d, "bad-op")
  | "combo" :: ks :: _yields :: rest =>
    -- an API call and datagrams that reach the handler at about the same moment
    match ks.toNat? with
    | some k =>
      match d.get? k with
      | some st =>
        let items := splitOnWord "||" rest.dropLast
        let c : Option Cmd := match items.head? with
          | some ["api", "bootstrapped"] => some .checkBootstrap
          | some ["api", "search", ih, ann] => (id20? ih).map fun ih => .startLookup ih (ann = "1")
          | some ["api", "state"] => some .getState
          | some ["api", "contacts"] => some .loadContacts
          | some ["api", "addr"] => some .getLocalAddr
          | _ => none
        let dgs := (items.drop 1).map (d.parseDatagram? k st)
        match c with
        | none => (d, "bad-op")
        | some c =>
          if dgs.isEmpty || dgs.any (·.isNone) then (d, "bad-op")
          else if dgs.any (fun i => match i with | some none => true | _ => false) then ({ d with unmodelled := true }, "unmodelled")
          else d.stepAllG line t (some (k, DOp.cmd c :: dgs.filterMap (·.join)))
      | none => (d, "bad-op")
    | none => (d, "bad-op")
  | "multi" :: ks :: rest =>
    -- several datagrams that are in the node's socket when its handler task is polled
    match ks.toNat? with
    | some k =>
      match d.get? k with
      | some st =>
        let items := (splitOnWord "||" rest.dropLast).map (d.parseDatagram? k st)
        if items.isEmpty || items.any (·.isNone) then (d, "bad-op")
        else if items.any (fun i => match i with | some none => true | _ => false) then ({ d with unmodelled := true }, "unmodelled")
        else d.stepAllG line t (some (k, items.filterMap (·.join)))
      | none => (d, "bad-op")
    | none => (d, "bad-op")
  | "dg" :: ks :: tidw :: src :: rest =>
    match ks.toNat?, Addr.parse? src with
    | some k, some src =>
      match d.get? k, d.parseTid? k tidw with
      | some st, some tid =>
        match parseBodyN? (d.resolveToks k rest.dropLast) with
        | some body =>
          let body := match body with
            | .req (.announce id ih p tok) =>
              (match tokDec? tok with
               | some tt => if tt.secret ≥ st.h.tokens.next then Body.req (.announce id ih p (List.replicate 20 0)) else body
               | none => body)
            | b => b
          d.stepAll line t (some (k, .datagram tid body src))
        | none => (d, "bad-op")
      | _, _ => (d, "bad-op")
    | _, _ => (d, "bad-op")
  | ["dgraw", ks, h, src, _] =>
    match ks.toNat?, bytesOfHex? h, Addr.parse? src with
    | some k, some b, some src =>
      if (d.get? k).isNone then (d, "bad-op") else
      match decodeMsg b with
      | .ok m => d.stepAll line t (some (k, .datagram (.raw m.tid) m.body src))
      | .error => d.stepAll line t (some (k, .garbage src))
      | .unmodelled => ({ d with unmodelled := true }, "unmodelled")
    | _, _, _ => (d, "bad-op")
  | "api" :: ks :: what :: rest =>
    match ks.toNat? with
    | some k =>
      if (d.get? k).isNone then (d, "bad-op") else
      if what = "cancel" ∧ rest.length = 1 then
        -- the caller of the oldest pending `bootstrapped()` call gives up (nothing reaches the handler)
        let r := d.stepAll line t none
        let d' := r.1
        match d'.get? k with
        | some st =>
          (match st.waiters.find? (fun i => !d'.cancelled.contains (k, i)) with
           | some i => ({ d' with cancelled := (k, i) :: d'.cancelled }, r.2)
           | none => r)
        | none => r
      else
      let c : Option Cmd := match what, rest with
        | "bootstrapped", [_] => some .checkBootstrap
        | "search", [ih, ann, _] => (id20? ih).map fun ih => .startLookup ih (ann = "1")
        | "state", [_] => some .getState
        | "contacts", [_] => some .loadContacts
        | "addr", [_] => some .getLocalAddr
        | _, _ => none
      match c with
      | some c => d.stepAll line t (some (k, .cmd c))
      | none => (d, "bad-op")
    | none => (d, "bad-op")
  | _ => (d, "bad-op")

end Btdht.Driver
