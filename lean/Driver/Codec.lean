import Btdht.Model.Codec
import Driver.Table
namespace Btdht.Driver
open Btdht

def wantStr : Option Want → String
  | none => "none"
  | some .n4 => "n4"
  | some .n6 => "n6"
  | some .both => "both"

def nodesStr (l : List Handle) : String :=
  if l.isEmpty then "-" else joinWith ";" (l.map fmtHandle)

def msgText (m : Msg) : String :=
  let t := hexOrDash m.tid
  match m.body with
  | .req (.ping id) => s!"q ping t={t} id={hexOfBytes id}"
  | .req (.findNode id tg w) => s!"q find_node t={t} id={hexOfBytes id} target={hexOfBytes tg} want={wantStr w}"
  | .req (.getPeers id ih w) => s!"q get_peers t={t} id={hexOfBytes id} info_hash={hexOfBytes ih} want={wantStr w}"
  | .req (.announce id ih p tok) =>
    let ps := match p with | none => "implied" | some p => toString p
    s!"q announce_peer t={t} id={hexOfBytes id} info_hash={hexOfBytes ih} port={ps} token={hexOrDash tok}"
  | .resp r =>
    let vals := if r.values.isEmpty then "-" else joinWith ";" (r.values.map Addr.toStr)
    let tok := match r.token with | none => "none" | some t => hexOrDash t
    s!"r t={t} id={hexOfBytes r.id} values={vals} nodes={nodesStr r.nodes4} nodes6={nodesStr r.nodes6} token={tok}"
  | .err code msg => s!"e t={t} code={code} msg={hexOrDash msg}"

def parseWant? (s : String) : Option (Option Want) :=
  if s = "none" then some none else if s = "n4" then some (some .n4)
  else if s = "n6" then some (some .n6) else if s = "both" then some (some .both) else none

def parseNodes? (s : String) : Option (List Handle) :=
  if s = "-" then some [] else (s.splitOn ";").mapM parseHandleAt?

def id20? (s : String) : Option Bytes := (bytesOfHex? s).bind fun b => if b.length = 20 then some b else none

def parseMsg? (ws : List String) : Option Msg := do
  let tid ← (kv? ws "t").bind bytesOfHex?
  match ws with
  | "q" :: "ping" :: _ =>
    let id ← (kv? ws "id").bind id20?
    pure ⟨tid, .req (.ping id)⟩
  | "q" :: "find_node" :: _ =>
    let id ← (kv? ws "id").bind id20?
    let tg ← (kv? ws "target").bind id20?
    let w ← (kv? ws "want").bind parseWant?
    pure ⟨tid, .req (.findNode id tg w)⟩
  | "q" :: "get_peers" :: _ =>
    let id ← (kv? ws "id").bind id20?
    let ih ← (kv? ws "info_hash").bind id20?
    let w ← (kv? ws "want").bind parseWant?
    pure ⟨tid, .req (.getPeers id ih w)⟩
  | "q" :: "announce_peer" :: _ =>
    let id ← (kv? ws "id").bind id20?
    let ih ← (kv? ws "info_hash").bind id20?
    let ps ← kv? ws "port"
    let port ← if ps = "implied" then some none else (ps.toNat?.bind fun p => if p < 65536 then some (some p) else none)
    let tok ← (kv? ws "token").bind bytesOfHex?
    pure ⟨tid, .req (.announce id ih port tok)⟩
  | "r" :: _ =>
    let id ← (kv? ws "id").bind id20?
    let vs ← kv? ws "values"
    let values ← if vs = "-" then some [] else (vs.splitOn ";").mapM Addr.parse?
    let n4 ← (kv? ws "nodes").bind parseNodes?
    let n6 ← (kv? ws "nodes6").bind parseNodes?
    let ts ← kv? ws "token"
    let token ← if ts = "none" then some none else (bytesOfHex? ts).map some
    pure ⟨tid, .resp ⟨id, values, n4, n6, token⟩⟩
  | "e" :: _ =>
    let code ← (kv? ws "code").bind (·.toNat?)
    let msg ← (kv? ws "msg").bind bytesOfHex?
    if code < 256 ∧ validUtf8 msg then pure ⟨tid, .err code msg⟩ else none
  | _ => none

def codecStep (line : String) : String :=
  let main := (line.splitOn " | ").headD ""
  match plainWords main with
  | ["case", n] => "case " ++ n
  | ["case", n, _] => "case " ++ n
  | "enc" :: ws =>
    match parseMsg? ws with
    | some m => match encodeMsg m with
      | some b => hexOfBytes b
      | none => "error"
    | none => "bad-op"
  | ["dec", h] =>
    match bytesOfHex? h with
    | some b => match decodeMsg b with
      | .ok m => "ok " ++ msgText m
      | .error => "error"
      | .unmodelled => "unmodelled"
    | none => "bad-op"
  | _ => "bad-op"

end Btdht.Driver
