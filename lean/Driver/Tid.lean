import Btdht.Model.Tid
import Driver.Util
namespace Btdht.Driver
open Btdht

structure TidState where
  aidg : Option BlockGen := none
  midg : Option (Nat × BlockGen) := none

def permOf (ws : List String) : Option (List Nat) :=
  match oracle? ws "perm" with
  | some h => (bytesOfHex? h).map u16List
  | none => none

/-- generate with an optional oracle; `need-oracle` / `bad-oracle` / `unused-oracle` are explicit verdicts -/
def genWith (g : BlockGen) (len max : Nat) (perm : Option (List Nat)) : Except String (BlockGen × Nat) :=
  if g.needsRefill then
    match perm with
    | none => .error "need-oracle"
    | some p => if validPerm len p then .ok (g.generate len max p) else .error "bad-oracle"
  else
    match perm with
    | some _ => .error "unused-oracle"
    | none => .ok (g.generate len max [])

def digestBlock (aid : Nat) (g : BlockGen) (perm : Option (List Nat)) : Except String (BlockGen × String) := do
  let n := if g.needsRefill then midBlockLen else midBlockLen - g.currIndex
  let rec go (k : Nat) (j : Nat) (g : BlockGen) (perm : Option (List Nat)) (first last sum xor : Nat) :
      Except String (BlockGen × Nat × Nat × Nat × Nat) :=
    match k with
    | 0 => .ok (g, first, last, sum, xor)
    | k + 1 =>
      match genWith g midBlockLen maxMessageId perm with
      | .error e => .error e
      | .ok (g', m) =>
        let v := aid * maxMessageId + m
        let rot := j % 61
        let r := ((v <<< rot) % 2 ^ 64) ||| (v >>> (64 - rot))
        go k (j + 1) g' none (if j = 0 then v else first) v (sum + v) (xor ^^^ r)
  let (g', first, last, sum, xor) ← go n 0 g perm 0 0 0 0
  return (g', s!"n={n} first={first} last={last} sum={sum} xor={xor}")

def tidStep (s : TidState) (line : String) : TidState × String :=
  let ws := words line
  match plainWords line with
  | ["case", n] => ({}, "case " ++ n)
  | ["case", n, _] => ({}, "case " ++ n)
  | ["aidnew"] =>
    match permOf ws with
    | some p => if validPerm aidBlockLen p then ({ s with aidg := some (aidNew p) }, "ok") else (s, "bad-oracle")
    | none => (s, "need-oracle")
  | ["aidjump", n] =>
    match s.aidg, n.toNat? with
    | some g, some n => ({ s with aidg := some { g with nextAlloc := n, currIndex := aidBlockLen } }, "ok")
    | none, some _ => (s, "no-generator")
    | _, none => (s, "bad-op")
  | ["aid"] =>
    match s.aidg with
    | none => (s, "no-generator")
    | some g =>
      match genWith g aidBlockLen maxActionId (permOf ws) with
      | .ok (g', aid) => ({ aidg := some g', midg := some (aid, midNew) }, toString aid)
      | .error e => (s, e)
  | ["midnew", a] =>
    match a.toNat? with
    | some a => ({ s with midg := some (a, midNew) }, "ok")
    | none => (s, "bad-op")
  | ["midjump", n] =>
    match s.midg, n.toNat? with
    | some (a, g), some n => ({ s with midg := some (a, { g with nextAlloc := n, currIndex := midBlockLen }) }, "ok")
    | none, some _ => (s, "no-generator")
    | _, none => (s, "bad-op")
  | ["mid"] =>
    match s.midg with
    | none => (s, "no-generator")
    | some (a, g) =>
      match genWith g midBlockLen maxMessageId (permOf ws) with
      | .ok (g', m) => ({ s with midg := some (a, g') }, hexOfBytes (tidBytes a m))
      | .error e => (s, e)
  | ["midblock"] =>
    match s.midg with
    | none => (s, "no-generator")
    | some (a, g) =>
      match digestBlock a g (permOf ws) with
      | .ok (g', d) => ({ s with midg := some (a, g') }, d)
      | .error e => (s, e)
  | _ => (s, "bad-op")

end Btdht.Driver
