import Btdht.Model.Handler
import Driver.Codec
namespace Btdht.Driver
open Btdht

/-- token field: `T<iphex>.<secret>` for a token term, hex for raw bytes, `-` empty -/
def tokStr (b : Bytes) : String :=
  match tokDec? b with
  | some t => s!"T{hexOfBytes t.ip}.{t.secret}"
  | none => hexOrDash b

def parseTok? (s : String) : Option Bytes :=
  if s.startsWith "T" then
    match ((s.drop 1).toString.splitOn ".") with
    | [ip, sec] => match bytesOfHex? ip, sec.toNat? with
      | some ip, some sec => some (tokEnc ⟨ip, sec⟩)
      | _, _ => none
    | _ => none
  else bytesOfHex? s

def tidStr : InTid → String
  | .raw b => "x" ++ hexOrDash b
  | .sym t => "{" ++ s!"a{t.aid}.{t.seq}" ++ "}"
  | .fresh aid => "{" ++ s!"a{aid}.fresh" ++ "}"

/-- message body text (no transaction id) -/
def bodyText : Body → String
  | .req (.ping id) => s!"q ping id={hexOfBytes id}"
  | .req (.findNode id tg w) => s!"q find_node id={hexOfBytes id} target={hexOfBytes tg} want={wantStr w}"
  | .req (.getPeers id ih w) => s!"q get_peers id={hexOfBytes id} info_hash={hexOfBytes ih} want={wantStr w}"
  | .req (.announce id ih p tok) =>
    let ps := match p with | none => "implied" | some p => toString p
    s!"q announce_peer id={hexOfBytes id} info_hash={hexOfBytes ih} port={ps} token={tokStr tok}"
  | .resp r =>
    let vals := if r.values.isEmpty then "-" else joinWith ";" (r.values.map Addr.toStr)
    let tok := match r.token with | none => "none" | some t => tokStr t
    s!"r id={hexOfBytes r.id} values={vals} nodes={nodesStr r.nodes4} nodes6={nodesStr r.nodes6} token={tok}"
  | .err code msg => s!"e code={code} msg={hexOrDash msg}"

def parseBody? (ws : List String) : Option Body :=
  match ws with
  | "q" :: "ping" :: _ => do
    let id ← (kv? ws "id").bind id20?
    pure (.req (.ping id))
  | "q" :: "find_node" :: _ => do
    let id ← (kv? ws "id").bind id20?
    let tg ← (kv? ws "target").bind id20?
    let w ← (kv? ws "want").bind parseWant?
    pure (.req (.findNode id tg w))
  | "q" :: "get_peers" :: _ => do
    let id ← (kv? ws "id").bind id20?
    let ih ← (kv? ws "info_hash").bind id20?
    let w ← (kv? ws "want").bind parseWant?
    pure (.req (.getPeers id ih w))
  | "q" :: "announce_peer" :: _ => do
    let id ← (kv? ws "id").bind id20?
    let ih ← (kv? ws "info_hash").bind id20?
    let ps ← kv? ws "port"
    let port ← if ps = "implied" then some none else (ps.toNat?.bind fun p => if p < 65536 then some (some p) else none)
    let tok ← (kv? ws "token").bind parseTok?
    pure (.req (.announce id ih port tok))
  | "r" :: _ => do
    let id ← (kv? ws "id").bind id20?
    let vs ← kv? ws "values"
    let values ← if vs = "-" then some [] else (vs.splitOn ";").mapM Addr.parse?
    let n4 ← (kv? ws "nodes").bind parseNodes?
    let n6 ← (kv? ws "nodes6").bind parseNodes?
    let ts ← kv? ws "token"
    let token ← if ts = "none" then some none else (parseTok? ts).map some
    pure (.resp ⟨id, values, n4, n6, token⟩)
  | "e" :: _ => do
    let code ← (kv? ws "code").bind (·.toNat?)
    let msg ← (kv? ws "msg").bind bytesOfHex?
    if code < 256 ∧ validUtf8 msg then pure (.err code msg) else none
  | _ => none

def effectsText (effs : List HEffect) : String :=
  let sends := effs.filterMap fun e => match e with
    | .send dst tid body ok => some s!"{dst.toStr}/{if ok then "ok" else "fail"}/t={tidStr tid} {bodyText body}"
    | _ => none
  let yields := effs.filterMap fun e => match e with
    | .yield st a => some s!"{st}:{a.toStr}"
    | _ => none
  let closes := effs.filterMap fun e => match e with
    | .close st => some (toString st)
    | _ => none
  "sent=[" ++ joinWith " ; " sends ++ "] yield=[" ++ joinWith "," yields ++ "] closed=[" ++ joinWith "," closes ++ "]"

def taskStr : Task → String
  | .tableRefresh => "refresh"
  | .lookupTimeout t => "timeout:" ++ tidStr (.sym t)
  | .lookupEndGame t => "endgame:" ++ tidStr (.sym t)

def timersText (t : Timer Task) : String :=
  let sorted := t.entries.mergeSort (fun a b => keyLe (a.deadline, a.id) (b.deadline, b.id))
  "timers=[" ++ joinWith "," (sorted.map fun e => s!"{e.deadline}:{taskStr e.task}") ++ "]"

structure HDrv where
  st : Option HState := none
  now : Nat := 0
  names : List (String × Nat) := []     -- model tid name ↦ #k (first appearance)
  issued : List Bytes := []             -- tokens handed out in get_peers replies, in order (`I<n>`)
  dropped : List Nat := []              -- streams whose receiver was dropped by the caller: their items are not observable

/-- rename every `{name}` in the output to `#k` by first appearance (same pass on both sides) -/
def renameTids (names : List (String × Nat)) (out : String) : List (String × Nat) × String :=
  let parts := out.splitOn "{"
  match parts with
  | [] => (names, out)
  | first :: rest =>
    rest.foldl (fun (acc : List (String × Nat) × String) part =>
      let (names, s) := acc
      match part.splitOn "}" with
      | name :: tail =>
        let after := joinWith "}" tail
        match names.find? (·.1 = name) with
        | some (_, k) => (names, s ++ s!"#{k}" ++ after)
        | none => let k := names.length; (names ++ [(name, k)], s ++ s!"#{k}" ++ after)
      | [] => (names, s)) (names, first)

/-- `#k`, `#k~fresh`, `R~fresh`, `x<hex>`, `<spec>+<hex>`, `<spec>^<hex>` -/
def parseInTid? (d : HDrv) (w : String) : Option InTid :=
  -- `<spec>+<hex>`: an id of this node followed by further bytes; its length is not 8, so it is
  -- no id of this node (only used for responses, which echo nothing)
  -- `<spec>^<hex>`: an id of this node with its leading bytes altered: 8 bytes with an action prefix the
  -- node never used
  if (w.splitOn "^").length = 2 then some (.raw [255, 255, 255, 255, 255, 0, 0, 0])
  else if (w.splitOn "+").length = 2 then (bytesOfHex? ((w.splitOn "+").getD 1 "")).map (fun b => .raw (0 :: 0 :: 0 :: 0 :: 0 :: 0 :: 0 :: 0 :: b))
  else if w.startsWith "x" then (bytesOfHex? (w.drop 1).toString).map .raw
  else if w = "R~fresh" then some (.fresh refreshAid)
  else if w.startsWith "#" then
    let body := (w.drop 1).toString
    let (numS, fresh) := match body.splitOn "~" with
      | [n, "fresh"] => (n, true)
      | [n] => (n, false)
      | _ => ("", false)
    match numS.toNat? with
    | some k =>
      match d.names.find? (·.2 = k) with
      | some (name, _) =>
        -- name is `a<aid>.<seq>`
        match ((name.drop 1).toString.splitOn ".") with
        | [a, s] => match a.toNat?, s.toNat? with
          | some a, some s => some (if fresh then .fresh a else .sym ⟨a, s⟩)
          | some a, none => some (.fresh a)
          | _, _ => none
        | _ => none
      | none => none
    | none => none
  else none

def finish (d : HDrv) (st : HState) (now : Nat) (res : String) (effs : List HEffect) : HDrv × String :=
  -- what a search delivers to a stream nobody listens to any more cannot be seen from outside
  let effs := effs.filter fun e => match e with
    | .yield stream _ => !d.dropped.contains stream
    | _ => true
  let out := res ++ " | " ++ effectsText effs ++ " " ++ timersText st.timer
  let (names, out') := renameTids d.names out
  let newTokens := effs.filterMap fun e => match e with
    | .send _ _ (.resp r) _ => r.token
    | _ => none
  ({ d with st := some st, now := now, names := names, issued := d.issued ++ newTokens }, out')

/-- `token=I<n>`: the n-th token this node handed out (20 zero bytes if there is none yet) -/
def resolveIssued (d : HDrv) (ws : List String) : List String :=
  ws.map fun w =>
    -- `token=<spec>+<hex>`: a token followed by further bytes — some bytes of another length than 20
    if w.startsWith "token=" ∧ (w.splitOn "+").length = 2 then
      "token=" ++ hexOfBytes (List.replicate 21 7)
    else if w.startsWith "token=I" then
      match (w.drop 7).toString.toNat? with
      | some n => "token=" ++ (match d.issued[n]? with
          | some tk => tokStr tk
          | none => hexOfBytes (List.replicate 20 0))
      | none => w
    else w

def handlerStep (d : HDrv) (line : String) : HDrv × String :=
  let ws := plainWords line
  match ws with
  | ["case", n] => ({}, "case " ++ n)
  | ["case", n, _] => ({}, "case " ++ n)
  | ["hnew", id, fam, ro, port, fail, t] =>
    match bytesOfHex? id, kv? ws "fam", kv? ws "ro", kv? ws "port", kv? ws "fail", at? t with
    | some id, some fam, some ro, some port, some fail, some now =>
      let failAddrs := if fail = "-" then some [] else (fail.splitOn ",").mapM Addr.parse?
      let p : Option (Option Nat) := if port = "none" then some none else port.toNat?.map some
      match failAddrs, p with
      | some fa, some p =>
        if id.length = 20 then finish {} (HState.new id (fam = "v6") (ro = "1") p fa now) now "ok" [] else (d, "bad-op")
      | _, _ => (d, "bad-op")
    | _, _, _, _, _, _ => (d, "bad-op")
  | ["tadd", kind, id, a, t] =>
    match d.st, parseHandle? id a, at? t with
    | some st, some h, some now =>
      match mkNode kind h now with
      | some n => finish d { st with table := st.table.addNode n now } now "ok" []
      | none => (d, "bad-op")
    | none, _, _ => (d, "no-handler")
    | _, _, _ => (d, "bad-op")
  | ["sadd", ih, a, t] =>
    match d.st, bytesOfHex? ih, Addr.parse? a, at? t with
    | some st, some ih, some a, some now =>
      let (store, ok) := st.store.add ⟨ih, a⟩ now
      finish d { st with store := store } now (toString ok) []
    | none, _, _, _ => (d, "no-handler")
    | _, _, _, _ => (d, "bad-op")
  | ["lookup", ih, ann, "drop", t] =>
    -- a fire-and-forget search: the caller drops the stream at once
    match d.st, bytesOfHex? ih, at? t with
    | some st, some ih, some now =>
      let (st', effs, stream) := st.startLookup ih (ann = "1") now
      finish { d with dropped := stream :: d.dropped } st' now s!"stream={stream}" effs
    | none, _, _ => (d, "no-handler")
    | _, _, _ => (d, "bad-op")
  | ["lookup", ih, ann, t] =>
    match d.st, bytesOfHex? ih, at? t with
    | some st, some ih, some now =>
      let (st', effs, stream) := st.startLookup ih (ann = "1") now
      finish d st' now s!"stream={stream}" effs
    | none, _, _ => (d, "no-handler")
    | _, _, _ => (d, "bad-op")
  | "in" :: tidw :: src :: rest =>
    match d.st, parseInTid? d tidw, Addr.parse? src, rest.getLast?.bind at? with
    | some st, some tid, some src, some now =>
      match parseBody? (resolveIssued d rest.dropLast) with
      | some body =>
        -- a token naming a secret the store has not drawn yet cannot exist on the wire: it is junk
        let body := match body with
          | .req (.announce id ih p tok) =>
            (match tokDec? tok with
             | some t => if t.secret ≥ st.tokens.next then Body.req (.announce id ih p (List.replicate 20 0)) else body
             | none => body)
          | b => b
        let (st', effs) := st.handleIncoming tid body src now
        finish d st' now "handled" effs
      | none => (d, "bad-op")
    | none, _, _, _ => (d, "no-handler")
    | _, _, _, _ => (d, "bad-op")
  | ["inraw", h, src, t] =>
    match d.st, bytesOfHex? h, Addr.parse? src, at? t with
    | some st, some b, some src, some now =>
      match decodeMsg b with
      | .ok m =>
        let (st', effs) := st.handleIncoming (.raw m.tid) m.body src now
        finish d st' now "handled" effs
      | .error => finish d st now "undecodable" []
      | .unmodelled => (d, "unmodelled")
    | none, _, _, _ => (d, "no-handler")
    | _, _, _, _ => (d, "bad-op")
  | ["fire"] =>
    match d.st with
    | some st =>
      match st.timer.earliest with
      | none => finish d st d.now "idle" []
      | some e =>
        -- the instant at which tokio woke the timer is an oracle input (deadline rounded up to its 1 ms tick)
        let now := match (oracle? (words line) "now").bind (·.toNat?) with
          | some n => if e.deadline ≤ n ∧ n < e.deadline + 2000000 then n else max d.now e.deadline
          | none => max d.now e.deadline
        let (st', effs, _) := st.fireTimer now
        finish d st' now s!"fired {now} {taskStr e.task}" effs
    | none => (d, "no-handler")
  | ["refresh", t] =>
    match d.st, at? t with
    | some st, some now => let (st', effs) := st.refresh now; finish d st' now "ok" effs
    | none, _ => (d, "no-handler")
    | _, _ => (d, "bad-op")
  | ["contacts", t] =>
    match d.st, at? t with
    | some st, some now =>
      let (g, q) := st.table.loadContacts now
      finish d st now ("good=[" ++ joinWith "," (sortedDedup (g.map Addr.toStr)) ++ "] quest=[" ++
          joinWith "," (sortedDedup (q.map Addr.toStr)) ++ "]") []
    | none, _ => (d, "no-handler")
    | _, _ => (d, "bad-op")
  | ["dump", t] =>
    match d.st, at? t with
    | some st, some now => finish d st now (fmtTable st.table) []
    | none, _ => (d, "no-handler")
    | _, _ => (d, "bad-op")
  | _ => (d, "bad-op")

end Btdht.Driver
