//! The single PRNG all generators draw from (SplitMix64), so that a case replays from its seed.
#[derive(Clone)]
pub struct Rng(pub u64);

impl Rng {
    pub fn new(seed: u64) -> Self {
        Rng(seed ^ 0x9E37_79B9_7F4A_7C15)
    }
    pub fn next(&mut self) -> u64 {
        self.0 = self.0.wrapping_add(0x9E37_79B9_7F4A_7C15);
        let mut z = self.0;
        z = (z ^ (z >> 30)).wrapping_mul(0xBF58_476D_1CE4_E5B9);
        z = (z ^ (z >> 27)).wrapping_mul(0x94D0_49BB_1331_11EB);
        z ^ (z >> 31)
    }
    /// uniform in 0..n (n > 0)
    pub fn below(&mut self, n: u64) -> u64 {
        self.next() % n
    }
    pub fn range(&mut self, lo: u64, hi_incl: u64) -> u64 {
        lo + self.below(hi_incl - lo + 1)
    }
    pub fn chance(&mut self, num: u64, den: u64) -> bool {
        self.below(den) < num
    }
    pub fn byte(&mut self) -> u8 {
        self.next() as u8
    }
    pub fn bytes(&mut self, n: usize) -> Vec<u8> {
        (0..n).map(|_| self.byte()).collect()
    }
    pub fn bytes_below(&mut self, n: u64) -> Vec<u8> {
        let l = self.below(n) as usize;
        self.bytes(l)
    }
    pub fn pick<'a, T>(&mut self, xs: &'a [T]) -> &'a T {
        &xs[self.below(xs.len() as u64) as usize]
    }
    pub fn fork(&mut self) -> Rng {
        Rng(self.next())
    }
}
