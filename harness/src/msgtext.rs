//! Canonical one-line text form of a KRPC message (shared with the Lean driver) and an own
//! bencode tree used to build expected encodings and structure-aware mutations.
use crate::util::*;
use btdht::message::*;
use btdht::verif::NodeHandle;
use btdht::InfoHash;
use std::net::SocketAddr;

fn id_of(b: &[u8]) -> Option<InfoHash> {
    if b.len() != 20 {
        return None;
    }
    let mut a = [0u8; 20];
    a.copy_from_slice(b);
    Some(InfoHash::from(a))
}

fn want_str(w: &Option<Want>) -> &'static str {
    match w {
        None => "none",
        Some(Want::V4) => "n4",
        Some(Want::V6) => "n6",
        Some(Want::Both) => "both",
    }
}

fn nodes_str(ns: &[NodeHandle]) -> String {
    if ns.is_empty() {
        return "-".into();
    }
    ns.iter().map(|n| format!("{}@{}", hex(n.id.as_ref()), addr_str(&n.addr))).collect::<Vec<_>>().join(";")
}

pub fn msg_to_text(m: &Message) -> String {
    let t = hex_or_dash(&m.transaction_id);
    match &m.body {
        MessageBody::Request(Request::Ping(p)) => format!("q ping t={t} id={}", hex(p.id.as_ref())),
        MessageBody::Request(Request::FindNode(f)) => format!(
            "q find_node t={t} id={} target={} want={}",
            hex(f.id.as_ref()), hex(f.target.as_ref()), want_str(&f.want)
        ),
        MessageBody::Request(Request::GetPeers(g)) => format!(
            "q get_peers t={t} id={} info_hash={} want={}",
            hex(g.id.as_ref()), hex(g.info_hash.as_ref()), want_str(&g.want)
        ),
        MessageBody::Request(Request::AnnouncePeer(a)) => format!(
            "q announce_peer t={t} id={} info_hash={} port={} token={}",
            hex(a.id.as_ref()), hex(a.info_hash.as_ref()),
            match a.port { None => "implied".to_string(), Some(p) => p.to_string() },
            hex_or_dash(&a.token)
        ),
        MessageBody::Response(r) => format!(
            "r t={t} id={} values={} nodes={} nodes6={} token={}",
            hex(r.id.as_ref()),
            if r.values.is_empty() { "-".to_string() } else { r.values.iter().map(addr_str).collect::<Vec<_>>().join(";") },
            nodes_str(&r.nodes_v4), nodes_str(&r.nodes_v6),
            match &r.token { None => "none".to_string(), Some(t) => hex_or_dash(t) }
        ),
        MessageBody::Error(e) => format!("e t={t} code={} msg={}", e.code, hex_or_dash(e.message.as_bytes())),
    }
}

fn parse_nodes(s: &str) -> Option<Vec<NodeHandle>> {
    if s == "-" {
        return Some(vec![]);
    }
    s.split(';').map(|x| {
        let (i, a) = x.split_once('@')?;
        Some(NodeHandle::new(id_of(&unhex(i)?)?, parse_addr_plain(a)?))
    }).collect()
}

pub fn text_to_msg(words: &[&str]) -> Option<Message> {
    let t = unhex(kv(words, "t")?)?;
    let want = |w: &str| match w { "none" => Some(None), "n4" => Some(Some(Want::V4)), "n6" => Some(Some(Want::V6)), "both" => Some(Some(Want::Both)), _ => None };
    let body = match (words.first()?, words.get(1).copied()) {
        (&"q", Some("ping")) => MessageBody::Request(Request::Ping(PingRequest { id: id_of(&unhex(kv(words, "id")?)?)? })),
        (&"q", Some("find_node")) => MessageBody::Request(Request::FindNode(FindNodeRequest {
            id: id_of(&unhex(kv(words, "id")?)?)?, target: id_of(&unhex(kv(words, "target")?)?)?, want: want(kv(words, "want")?)?,
        })),
        (&"q", Some("get_peers")) => MessageBody::Request(Request::GetPeers(GetPeersRequest {
            id: id_of(&unhex(kv(words, "id")?)?)?, info_hash: id_of(&unhex(kv(words, "info_hash")?)?)?, want: want(kv(words, "want")?)?,
        })),
        (&"q", Some("announce_peer")) => MessageBody::Request(Request::AnnouncePeer(AnnouncePeerRequest {
            id: id_of(&unhex(kv(words, "id")?)?)?, info_hash: id_of(&unhex(kv(words, "info_hash")?)?)?,
            port: match kv(words, "port")? { "implied" => None, p => Some(p.parse().ok()?) },
            token: unhex(kv(words, "token")?)?,
        })),
        (&"r", _) => {
            let vals = kv(words, "values")?;
            let values: Vec<SocketAddr> = if vals == "-" { vec![] } else { vals.split(';').map(parse_addr_plain).collect::<Option<_>>()? };
            MessageBody::Response(Response {
                id: id_of(&unhex(kv(words, "id")?)?)?, values,
                nodes_v4: parse_nodes(kv(words, "nodes")?)?, nodes_v6: parse_nodes(kv(words, "nodes6")?)?,
                token: match kv(words, "token")? { "none" => None, h => Some(unhex(h)?) },
            })
        }
        (&"e", _) => MessageBody::Error(Error {
            code: kv(words, "code")?.parse().ok()?, message: String::from_utf8(unhex(kv(words, "msg")?)?).ok()?,
        }),
        _ => return None,
    };
    Some(Message { transaction_id: t, body })
}

// ------------------------------------------------------------------------ own bencode tree

#[derive(Clone, Debug)]
pub enum BVal {
    Int(i128),
    /// an integer / length written with arbitrary text (for malformed numbers)
    RawInt(Vec<u8>),
    Bytes(Vec<u8>),
    /// a byte string whose length prefix is replaced by arbitrary text
    RawLenBytes(Vec<u8>, Vec<u8>),
    List(Vec<BVal>),
    Dict(Vec<(BVal, BVal)>),
    /// verbatim bytes (garbage)
    Raw(Vec<u8>),
}

impl BVal {
    pub fn b(s: &[u8]) -> BVal { BVal::Bytes(s.to_vec()) }
    pub fn s(s: &str) -> BVal { BVal::Bytes(s.as_bytes().to_vec()) }
    pub fn enc(&self, out: &mut Vec<u8>) {
        match self {
            BVal::Int(i) => { out.push(b'i'); out.extend_from_slice(i.to_string().as_bytes()); out.push(b'e') }
            BVal::RawInt(t) => { out.push(b'i'); out.extend_from_slice(t); out.push(b'e') }
            BVal::Bytes(b) => { out.extend_from_slice(b.len().to_string().as_bytes()); out.push(b':'); out.extend_from_slice(b) }
            BVal::RawLenBytes(l, b) => { out.extend_from_slice(l); out.push(b':'); out.extend_from_slice(b) }
            BVal::List(l) => { out.push(b'l'); for x in l { x.enc(out) } out.push(b'e') }
            BVal::Dict(d) => { out.push(b'd'); for (k, v) in d { k.enc(out); v.enc(out) } out.push(b'e') }
            BVal::Raw(r) => out.extend_from_slice(r),
        }
    }
    pub fn to_bytes(&self) -> Vec<u8> { let mut v = vec![]; self.enc(&mut v); v }
}

pub fn compact_addr(a: &SocketAddr) -> Vec<u8> {
    let mut v = ip_octets(&a.ip());
    v.extend_from_slice(&a.port().to_be_bytes());
    v
}

/// The canonical BEP5/BEP32 encoding of a message as a tree (keys sorted at every level),
/// written from the BEP templates — independent of the crate's serializer.
pub fn bep_tree(m: &Message) -> BVal {
    let mut top: Vec<(BVal, BVal)> = vec![];
    match &m.body {
        MessageBody::Request(r) => {
            let (name, mut args): (&str, Vec<(BVal, BVal)>) = match r {
                Request::Ping(p) => ("ping", vec![(BVal::s("id"), BVal::b(p.id.as_ref()))]),
                Request::FindNode(f) => ("find_node", vec![(BVal::s("id"), BVal::b(f.id.as_ref())), (BVal::s("target"), BVal::b(f.target.as_ref()))]),
                Request::GetPeers(g) => ("get_peers", vec![(BVal::s("id"), BVal::b(g.id.as_ref())), (BVal::s("info_hash"), BVal::b(g.info_hash.as_ref()))]),
                Request::AnnouncePeer(a) => {
                    let mut v = vec![(BVal::s("id"), BVal::b(a.id.as_ref()))];
                    if a.port.is_none() { v.push((BVal::s("implied_port"), BVal::Int(1))); }
                    v.push((BVal::s("info_hash"), BVal::b(a.info_hash.as_ref())));
                    v.push((BVal::s("port"), BVal::Int(a.port.unwrap_or(0) as i128)));
                    v.push((BVal::s("token"), BVal::b(&a.token)));
                    ("announce_peer", v)
                }
            };
            let want = match r { Request::FindNode(f) => f.want, Request::GetPeers(g) => g.want, _ => None };
            if let Some(w) = want {
                let mut l = vec![];
                if matches!(w, Want::V4 | Want::Both) { l.push(BVal::s("n4")); }
                if matches!(w, Want::V6 | Want::Both) { l.push(BVal::s("n6")); }
                args.push((BVal::s("want"), BVal::List(l)));
            }
            top.push((BVal::s("a"), BVal::Dict(args)));
            top.push((BVal::s("q"), BVal::s(name)));
            top.push((BVal::s("t"), BVal::b(&m.transaction_id)));
            top.push((BVal::s("y"), BVal::s("q")));
        }
        MessageBody::Response(r) => {
            let mut d = vec![(BVal::s("id"), BVal::b(r.id.as_ref()))];
            if !r.nodes_v4.is_empty() {
                let mut b = vec![];
                for n in &r.nodes_v4 { b.extend_from_slice(n.id.as_ref()); b.extend_from_slice(&compact_addr(&n.addr)); }
                d.push((BVal::s("nodes"), BVal::Bytes(b)));
            }
            if !r.nodes_v6.is_empty() {
                let mut b = vec![];
                for n in &r.nodes_v6 { b.extend_from_slice(n.id.as_ref()); b.extend_from_slice(&compact_addr(&n.addr)); }
                d.push((BVal::s("nodes6"), BVal::Bytes(b)));
            }
            if let Some(t) = &r.token { d.push((BVal::s("token"), BVal::b(t))); }
            if !r.values.is_empty() {
                d.push((BVal::s("values"), BVal::List(r.values.iter().map(|a| BVal::Bytes(compact_addr(a))).collect())));
            }
            top.push((BVal::s("r"), BVal::Dict(d)));
            top.push((BVal::s("t"), BVal::b(&m.transaction_id)));
            top.push((BVal::s("y"), BVal::s("r")));
        }
        MessageBody::Error(e) => {
            top.push((BVal::s("e"), BVal::List(vec![BVal::Int(e.code as i128), BVal::b(e.message.as_bytes())])));
            top.push((BVal::s("t"), BVal::b(&m.transaction_id)));
            top.push((BVal::s("y"), BVal::s("e")));
        }
    }
    BVal::Dict(top)
}
