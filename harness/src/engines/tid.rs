//! C19: `AIDGenerator` / `MIDGenerator` / `TransactionID` against the Lean `Tid` model.
//! The shuffle of every freshly allocated block is read through the hook accessor and handed to
//! the model as oracle input (`~perm=`: 2 bytes per entry, offset inside the block).
use crate::{rng::Rng, util::*, Engine};
use btdht::verif::{AIDGenerator, MIDGenerator};
use std::collections::HashSet;

#[derive(Default)]
pub struct Tid;

const BLOCK: usize = 2048;

fn perm_hex(block: &[u64]) -> String {
    let base = block.iter().copied().min().unwrap_or(0);
    let mut v = Vec::with_capacity(block.len() * 2);
    for x in block {
        let off = (x - base) as u16;
        v.extend_from_slice(&off.to_be_bytes());
    }
    hex(&v)
}

impl Engine for Tid {
    fn gen_case(&mut self, rng: &mut Rng, idx: usize, thorough: bool) -> Vec<String> {
        let mut ops = vec![];
        match idx % 4 {
            0 => {
                // one message-id generator from its start across block boundaries
                ops.push(format!("midnew {}", rng.below(1 << 40)));
                let n = if thorough { 5 * BLOCK + 7 } else { 2 * BLOCK + 5 };
                for _ in 0..n {
                    ops.push("mid".into());
                }
            }
            1 => {
                // the 2^24 wrap of message ids
                ops.push(format!("midnew {}", rng.below(1 << 40)));
                ops.push("mid".into());
                let back = rng.range(1, 3) * BLOCK as u64;
                ops.push(format!("midjump {}", (1u64 << 24) - back));
                for _ in 0..(back as usize + BLOCK + 3) {
                    ops.push("mid".into());
                }
            }
            2 => {
                // action ids: start, block boundary, and the 2^40 wrap; ids of derived generators
                ops.push("aidnew".into());
                for _ in 0..(BLOCK + 3) {
                    ops.push("aid".into());
                    if rng.chance(1, 50) {
                        ops.push("mid".into());
                    }
                }
                ops.push(format!("aidjump {}", (1u64 << 40) - BLOCK as u64));
                for _ in 0..(BLOCK + 3) {
                    ops.push("aid".into());
                }
                ops.push("mid".into());
                ops.push("mid".into());
            }
            _ => {
                // whole blocks, digest form (the thorough tier walks all 2^24 ids this way)
                ops.push(format!("midnew {}", rng.below(1 << 40)));
                let blocks = if thorough { 8192 + 2 } else { 40 };
                for _ in 0..blocks {
                    ops.push("midblock".into());
                }
            }
        }
        ops
    }

    fn run_case(&mut self, case: usize, reqs: &[String], out: &mut Vec<(String, String)>, st: &mut Stats) {
        let mut aidg: Option<AIDGenerator> = None;
        let mut midg: Option<MIDGenerator> = None;
        let mut seen_mid: HashSet<u64> = HashSet::new();
        let mut issued_mid: u64 = 0;
        let mut seen_aid: HashSet<u64> = HashSet::new();
        let mut issued_aid: u64 = 0;
        let mut bits: Vec<u64> = vec![]; // bitset for the digest walk
        for (k, req) in reqs.iter().enumerate() {
            let w: Vec<&str> = req.split_whitespace().collect();
            match w.as_slice() {
                ["aidnew"] => {
                    let g = AIDGenerator::new();
                    let (_, _, block) = g.verif_state();
                    out.push((format!("aidnew ~perm={}", perm_hex(&block)), "ok".into()));
                    aidg = Some(g);
                    seen_aid.clear();
                    issued_aid = 0;
                    st.hit("aidnew");
                }
                ["aidjump", n] => {
                    let n: u64 = n.parse().unwrap();
                    if let Some(g) = aidg.as_mut() {
                        g.verif_jump(n);
                        seen_aid.clear();
                        issued_aid = 0;
                        out.push((req.clone(), "ok".into()));
                        st.hit("aidjump");
                    } else {
                        out.push((req.clone(), "no-generator".into()));
                    }
                }
                ["aid"] => {
                    if let Some(g) = aidg.as_mut() {
                        let refill = g.verif_state().1 >= BLOCK;
                        let m = g.generate();
                        let aid = m.action_id().verif_value();
                        let op = if refill {
                            st.hit("aid_refill");
                            format!("aid ~perm={}", perm_hex(&g.verif_state().2))
                        } else {
                            "aid".to_string()
                        };
                        issued_aid += 1;
                        if !seen_aid.insert(aid) && issued_aid <= (1 << 40) {
                            st.fail(case, k, &format!("action id {aid} issued twice within {issued_aid} ids"));
                        }
                        if aid >= (1 << 40) {
                            st.fail(case, k, &format!("action id {aid} does not fit 5 bytes"));
                        }
                        midg = Some(m);
                        seen_mid.clear();
                        issued_mid = 0;
                        out.push((op, aid.to_string()));
                        st.hit("aid");
                    } else {
                        out.push((req.clone(), "no-generator".into()));
                    }
                }
                ["midnew", aid] => {
                    let aid: u64 = aid.parse().unwrap();
                    midg = Some(MIDGenerator::verif_new(aid));
                    seen_mid.clear();
                    issued_mid = 0;
                    bits.clear();
                    out.push((req.clone(), "ok".into()));
                    st.hit("midnew");
                }
                ["midjump", n] => {
                    let n: u64 = n.parse().unwrap();
                    if let Some(g) = midg.as_mut() {
                        g.verif_jump(n);
                        seen_mid.clear();
                        issued_mid = 0;
                        out.push((req.clone(), "ok".into()));
                        st.hit("midjump");
                    } else {
                        out.push((req.clone(), "no-generator".into()));
                    }
                }
                ["mid"] => {
                    if let Some(g) = midg.as_mut() {
                        let refill = g.verif_state().2 >= BLOCK;
                        let aid = g.action_id();
                        let t = g.generate();
                        let bytes: &[u8] = t.as_ref();
                        let op = if refill {
                            st.hit("mid_refill");
                            format!("mid ~perm={}", perm_hex(&g.verif_state().3))
                        } else {
                            "mid".to_string()
                        };
                        if bytes.len() != 8 {
                            st.fail(case, k, &format!("transaction id of {} bytes", bytes.len()));
                        }
                        let mut b8 = [0u8; 8];
                        b8.copy_from_slice(bytes);
                        let v = u64::from_be_bytes(b8);
                        issued_mid += 1;
                        if !seen_mid.insert(v) && issued_mid <= (1 << 24) {
                            st.fail(case, k, &format!("transaction id {} issued twice within {issued_mid} ids", hex(bytes)));
                        }
                        if t.action_id() != aid {
                            st.fail(case, k, "transaction id does not carry the generator's action id");
                        }
                        out.push((op, hex(bytes)));
                        st.hit("mid");
                    } else {
                        out.push((req.clone(), "no-generator".into()));
                    }
                }
                ["midblock"] => {
                    // finish the current block (or take a whole new one); result is a digest
                    if let Some(g) = midg.as_mut() {
                        if bits.is_empty() {
                            bits = vec![0u64; (1 << 24) / 64];
                        }
                        let mut idx = g.verif_state().2;
                        let refill = idx >= BLOCK;
                        if refill {
                            idx = 0;
                        }
                        let n = BLOCK - idx;
                        let (mut first, mut last, mut sum, mut xor) = (0u64, 0u64, 0u128, 0u64);
                        for j in 0..n {
                            let t = g.generate();
                            let mut b8 = [0u8; 8];
                            b8.copy_from_slice(t.as_ref());
                            let v = u64::from_be_bytes(b8);
                            if j == 0 {
                                first = v;
                            }
                            last = v;
                            sum += v as u128;
                            xor ^= v.rotate_left((j % 61) as u32);
                            let m = (v & 0xFF_FFFF) as usize;
                            issued_mid += 1;
                            if bits[m / 64] >> (m % 64) & 1 == 1 && issued_mid <= (1 << 24) {
                                st.fail(case, k, &format!("message id {m} issued twice within {issued_mid} ids"));
                            }
                            bits[m / 64] |= 1 << (m % 64);
                            if issued_mid == (1 << 24) {
                                // a full cycle: every id must have been used exactly once
                                if bits.iter().any(|w| *w != !0u64) {
                                    st.fail(case, k, "after 2^24 ids some message id was never issued");
                                }
                                st.hit("full_cycle");
                                for w in bits.iter_mut() {
                                    *w = 0;
                                }
                                issued_mid = 0;
                            }
                        }
                        let op = if refill {
                            format!("midblock ~perm={}", perm_hex(&g.verif_state().3))
                        } else {
                            "midblock".to_string()
                        };
                        out.push((op, format!("n={n} first={first} last={last} sum={sum} xor={xor}")));
                        st.hit("midblock");
                    } else {
                        out.push((req.clone(), "no-generator".into()));
                    }
                }
                _ => out.push((req.clone(), "bad-op".into())),
            }
        }
    }
}
