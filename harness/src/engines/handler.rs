//! C02 C03 C04 C05 C12 C17 (and the handler-level clauses of C06 C07 C09): the real `DhtHandler`,
//! driven one event at a time over an in-memory socket under the virtual clock, against the Lean
//! `Handler` model in lockstep. Transaction ids and token secrets are canonicalised by order of
//! first appearance on both sides.
use crate::memnet::MemSocket;
use crate::msgtext::*;
use crate::{rng::Rng, sha1::sha1, util::*, Engine};
use btdht::message::*;
use btdht::verif::{Node, NodeHandle, VHandler, VTask};
use btdht::InfoHash;
use std::collections::{HashMap, HashSet};
use std::net::SocketAddr;
use tokio::sync::mpsc::UnboundedReceiver;

#[derive(Default)]
pub struct HandlerEngine;

const S: u128 = 1_000_000_000;
const MS: u128 = 1_000_000;

fn id_of(b: &[u8]) -> InfoHash {
    let mut a = [0u8; 20];
    a.copy_from_slice(b);
    InfoHash::from(a)
}

struct Ctx {
    h: VHandler,
    sock: MemSocket,
    clock: VClock,
    me: Vec<u8>,
    /// #k -> real tid bytes (braced names in order of first appearance)
    names: Vec<Vec<u8>>,
    known: HashSet<Vec<u8>>,
    fresh: HashMap<Vec<u8>, Vec<u8>>, // action prefix (5 bytes) -> fresh tid
    secrets: Vec<u32>,
    streams: Vec<Option<UnboundedReceiver<SocketAddr>>>,
    /// streams whose receiver the caller dropped at once (fire-and-forget searches): (stream, action id of its search)
    dropped: Vec<(usize, Option<u64>)>,
    // ---- what the last op did (structured), for the oracles and the network simulator
    last_sent: Vec<(SocketAddr, Option<Message>, usize, bool)>,
    last_yields: Vec<(usize, SocketAddr)>,
    last_closed: Vec<usize>,
    // ---- oracle bookkeeping
    ro: bool,
    v6: bool,
    announce_port: Option<u16>,
    looks: Vec<LookInfo>,
    issued: Vec<(Vec<u8>, Vec<u8>, u128)>,          // (requester ip, token bytes, time)
    store: HashMap<(Vec<u8>, SocketAddr), u128>,     // (info hash, contact) -> last successful announce
}

/// what the oracles know about one search
#[derive(Default)]
struct LookInfo {
    aid: Vec<u8>,
    ih: Vec<u8>,
    announce: bool,
    started: u128,
    closed_at: Option<u128>,
    /// tid -> (destination, sent at, endgame round?)
    outstanding: HashMap<Vec<u8>, (SocketAddr, u128, bool)>,
    told: HashSet<Vec<u8>>,                          // ids of nodes it was told about (initial picks + named)
    tokens: HashMap<(Vec<u8>, SocketAddr), Vec<u8>>, // (claimed id, source) -> latest token of an accepted answer
    accepted_values: Vec<SocketAddr>,
    yielded: Vec<SocketAddr>,
    announces: Vec<(SocketAddr, Vec<u8>)>,
    endgame_at: Option<u128>,
    /// every token an answer under an outstanding id carried, with its source
    tokens_all: Vec<(SocketAddr, Vec<u8>)>,
    /// the caller dropped the stream at once: nothing it is sent can be observed
    dropped: bool,
    any_sent_ok: bool,
    /// some datagram of the search could not be sent (C02's premise does not hold for it)
    any_send_failed: bool,
}

impl Ctx {
    fn note_secrets(&mut self, first: bool) {
        let (c, l, _) = self.h.token_store().verif_state();
        let order = if first { [c, l] } else { [l, c] };
        for s in order {
            if !self.secrets.contains(&s) {
                self.secrets.push(s);
            }
        }
    }
    fn tok_str(&self, tok: &[u8], ip: &[u8]) -> String {
        if tok.len() == 20 {
            for (k, s) in self.secrets.iter().enumerate() {
                let mut buf = ip.to_vec();
                buf.extend_from_slice(&s.to_be_bytes());
                if sha1(&buf)[..] == tok[..] {
                    return format!("T{}.{k}", hex(ip));
                }
            }
        }
        hex_or_dash(tok)
    }
    fn tok_bytes(&self, s: &str) -> Option<Vec<u8>> {
        // `<spec>+<hex>`: the token `<spec>` stands for, followed by further bytes (not a token of this node)
        if let Some((base, ext)) = s.split_once('+') {
            let mut t = self.tok_bytes(base)?;
            t.extend(unhex(ext)?);
            return Some(t);
        }
        if let Some(n) = s.strip_prefix('I') {
            let n: usize = n.parse().ok()?;
            // the n-th token handed out in a get_peers reply; junk if there is none yet
            return Some(self.issued.get(n).map(|(_, t, _)| t.clone()).unwrap_or_else(|| vec![0u8; 20]));
        }
        if let Some(rest) = s.strip_prefix('T') {
            let (ip, k) = rest.split_once('.')?;
            let ip = unhex(ip)?;
            let k: usize = k.parse().ok()?;
            let sec = match self.secrets.get(k) {
                Some(s) => *s,
                // a secret index the store has not drawn: some other secret
                None => 0xDEAD_0000u32.wrapping_add(k as u32),
            };
            let mut buf = ip;
            buf.extend_from_slice(&sec.to_be_bytes());
            Some(sha1(&buf).to_vec())
        } else {
            unhex(s)
        }
    }
    fn tid_str(&self, tid: &[u8]) -> String {
        if self.known.contains(tid) {
            format!("{{{}}}", hex(tid))
        } else {
            format!("x{}", hex_or_dash(tid))
        }
    }
    fn body_text(&self, m: &Message, peer_ip: &[u8]) -> String {
        let full = msg_to_text(m);
        // drop the t= word; re-print tokens in term form where they are this node's
        let mut words: Vec<String> = full.split_whitespace().filter(|w| !w.starts_with("t=")).map(|s| s.to_string()).collect();
        for w in words.iter_mut() {
            if let Some(t) = w.strip_prefix("token=") {
                if t != "none" && t != "-" {
                    *w = format!("token={}", self.tok_str(&unhex(t).unwrap(), peer_ip));
                }
            }
        }
        words.join(" ")
    }
    /// rename `{hex}` to `#k` by first appearance
    fn rename(&mut self, out: &str) -> String {
        let mut res = String::new();
        let mut rest = out;
        while let Some(i) = rest.find('{') {
            res.push_str(&rest[..i]);
            let j = rest[i..].find('}').map(|j| i + j).unwrap_or(rest.len() - 1);
            let name = unhex(&rest[i + 1..j]).unwrap_or_default();
            let k = match self.names.iter().position(|n| *n == name) {
                Some(k) => k,
                None => { self.names.push(name); self.names.len() - 1 }
            };
            res.push_str(&format!("#{k}"));
            rest = &rest[j + 1..];
        }
        res.push_str(rest);
        res
    }
    fn resolve_tid(&mut self, spec: &str) -> Option<Vec<u8>> {
        // `<spec>+<hex>`: the id `<spec>` stands for, followed by further bytes (an over-long id)
        if let Some((base, ext)) = spec.split_once('+') {
            let mut t = self.resolve_tid(base)?;
            t.extend(unhex(ext)?);
            return Some(t);
        }
        // `<spec>^<hex>`: the id `<spec>` stands for with its leading bytes XOR-ed: same length, same low
        // bytes, an action prefix far outside anything the node ever allocates
        if let Some((base, x)) = spec.split_once('^') {
            let mut t = self.resolve_tid(base)?;
            for (i, b) in unhex(x)?.iter().enumerate() { if i < t.len() { t[i] ^= *b; } }
            return Some(t);
        }
        if let Some(h) = spec.strip_prefix('x') {
            return unhex(h);
        }
        let fresh_for = |this: &mut Ctx, prefix: Vec<u8>| {
            let t = this.fresh.entry(prefix.clone()).or_insert_with(|| { let mut t = prefix.clone(); t.extend_from_slice(&[0xF0, 0x00, 0x01]); t }).clone();
            this.known.insert(t.clone());
            t
        };
        if spec == "R~fresh" {
            let aid = self.h.refresh_action_id();
            return Some(fresh_for(self, aid.to_be_bytes()[3..8].to_vec()));
        }
        let body = spec.strip_prefix('#')?;
        let (num, fresh) = match body.split_once('~') { Some((n, "fresh")) => (n, true), None => (body, false), _ => return None };
        let k: usize = num.parse().ok()?;
        let t = self.names.get(k)?.clone();
        if fresh { Some(fresh_for(self, t[..5].to_vec())) } else { Some(t) }
    }
    fn task_str(&self, t: &VTask) -> String {
        match t {
            VTask::TableRefresh => "refresh".into(),
            VTask::LookupTimeout(id) => format!("timeout:{{{}}}", hex(id)),
            VTask::LookupEndGame(id) => format!("endgame:{{{}}}", hex(id)),
        }
    }
    /// everything observable after an op
    fn finish(&mut self, res: &str) -> String {
        self.note_secrets(false);
        let sent = self.sock.take_sent();
        let entries = self.h.timer_entries();
        for (_, _, t) in &entries {
            if let VTask::LookupTimeout(id) | VTask::LookupEndGame(id) = t {
                self.known.insert(id.clone());
            }
        }
        let mut sends = vec![];
        self.last_sent.clear();
        self.last_yields.clear();
        self.last_closed.clear();
        for (dst, bytes, ok) in &sent {
            self.last_sent.push((*dst, Message::decode(bytes).ok(), bytes.len(), *ok));
            match Message::decode(bytes) {
                Ok(m) => {
                    if matches!(m.body, MessageBody::Request(_)) {
                        self.known.insert(m.transaction_id.clone());
                    }
                    sends.push(format!("{}/{}/t={} {}", addr_str(dst), if *ok { "ok" } else { "fail" }, self.tid_str(&m.transaction_id), self.body_text(&m, &ip_octets(&dst.ip()))));
                }
                Err(_) => sends.push(format!("{}/{}/undecodable:{}", addr_str(dst), if *ok { "ok" } else { "fail" }, bytes.len())),
            }
        }
        let mut yields = vec![];
        let mut closed = vec![];
        for (sid, slot) in self.streams.iter_mut().enumerate() {
            if let Some(rx) = slot {
                loop {
                    match rx.try_recv() {
                        Ok(a) => { self.last_yields.push((sid, a)); yields.push(format!("{sid}:{}", addr_str(&a))) }
                        Err(tokio::sync::mpsc::error::TryRecvError::Empty) => break,
                        Err(tokio::sync::mpsc::error::TryRecvError::Disconnected) => { self.last_closed.push(sid); closed.push(sid.to_string()); *slot = None; break }
                    }
                }
            }
        }
        // a dropped stream's end is seen as its search leaving the handler
        let live = self.h.lookup_action_ids();
        let mut still = vec![];
        for (sid, aid) in std::mem::take(&mut self.dropped) {
            match aid {
                Some(a) if live.contains(&a) => still.push((sid, aid)),
                // the search is gone (or never stayed: no good node to ask)
                _ => { self.last_closed.push(sid); closed.push(sid.to_string()); }
            }
        }
        self.dropped = still;
        closed.sort_by_key(|x| x.parse::<usize>().unwrap_or(0));
        let t0 = self.clock.t0_std();
        let timers: Vec<String> = entries.iter().map(|(d, _, t)| format!("{}:{}", d.duration_since(t0).as_nanos(), self.task_str(t))).collect();
        let out = format!("{res} | sent=[{}] yield=[{}] closed=[{}] timers=[{}]", sends.join(" ; "), yields.join(","), closed.join(","), timers.join(","));
        self.rename(&out)
    }
}

/// message from body text (+ tid bytes), tokens in term form resolved
fn build_msg(ctx: &Ctx, tid: Vec<u8>, words: &[&str]) -> Option<Message> {
    let mut ws: Vec<String> = words.iter().map(|s| s.to_string()).collect();
    for w in ws.iter_mut() {
        if let Some(t) = w.strip_prefix("token=") {
            if t != "none" {
                *w = format!("token={}", hex_or_dash(&ctx.tok_bytes(t)?));
            }
        }
    }
    let mut all: Vec<String> = vec![ws[0].clone()];
    if ws[0] == "q" { all.push(ws[1].clone()); }
    all.push(format!("t={}", hex_or_dash(&tid)));
    all.extend(ws.iter().skip(if ws[0] == "q" { 2 } else { 1 }).cloned());
    let refs: Vec<&str> = all.iter().map(|s| s.as_str()).collect();
    text_to_msg(&refs)
}

pub async fn exec_op(ctx: &mut Option<Ctx>, req: &str, st: &mut Stats) -> (String, String) {
    let w: Vec<&str> = req.split_whitespace().collect();
    if w.is_empty() { return (req.to_string(), "bad-op".into()); }
    if w[0] == "hnew" {
        let me = unhex(w[1]).unwrap();
        let v6 = kv(&w, "fam") == Some("v6");
        let ro = kv(&w, "ro") == Some("1");
        let port = kv(&w, "port").and_then(|p| p.parse::<u16>().ok());
        let clock = VClock::start();
        clock.advance_to(parse_at(w.last().unwrap()).unwrap()).await;
        let local: SocketAddr = if v6 { "[2001:db8::1]:6881".parse().unwrap() } else { "10.0.0.1:6881".parse().unwrap() };
        let sock = MemSocket::new(local);
        if let Some(f) = kv(&w, "fail") { if f != "-" { for a in f.split(',') { sock.fail.lock().unwrap().insert(parse_addr(a).unwrap()); } } }
        let h = VHandler::new(id_of(&me), sock.clone(), ro, port).unwrap();
        let mut c = Ctx { h, sock, clock, me, names: vec![], known: HashSet::new(), fresh: HashMap::new(), secrets: vec![], streams: vec![], dropped: vec![], last_sent: vec![], last_yields: vec![], last_closed: vec![], ro, v6, announce_port: port, looks: vec![], issued: vec![], store: HashMap::new() };
        c.note_secrets(true);
        // C19: the long-lived activities hold action ids that were *drawn* from the generator — none of the ids
        // it will hand out to later activities (round-4 seed C19: refresh and bootstrap got the fixed ids 0 and 1
        // while the generator's shuffled first block still contained them)
        let upcoming = c.h.upcoming_action_ids();
        if upcoming.contains(&c.h.refresh_action_id()) {
            st.fail(0, 0, &format!("[C19] the refresh activity's action id {} is among the ids the generator will hand out to later activities", c.h.refresh_action_id()));
        }
        st.hit("c19_refresh_id_checked");
        let out = c.finish("ok");
        *ctx = Some(c);
        return (req.to_string(), out);
    }
    let Some(c) = ctx.as_mut() else { return (req.to_string(), "no-handler".into()) };
    if let Some(t) = w.last().and_then(|x| parse_at(x)) { c.clock.advance_to(t).await; }
    match w[0] {
        "tadd" => {
            let h = NodeHandle::new(id_of(&unhex(w[2]).unwrap()), parse_addr(w[3]).unwrap());
            let n = if w[1] == "g" { Node::as_good(h.id, h.addr) } else { Node::as_questionable(h.id, h.addr) };
            c.h.table().lock().unwrap().add_node(n);
            (req.to_string(), c.finish("ok"))
        }
        "sadd" => {
            let ok = c.h.store_mut().add_item(id_of(&unhex(w[1]).unwrap()), parse_addr(w[2]).unwrap());
            if ok {
                let now = c.clock.now_ns();
                c.store.insert((unhex(w[1]).unwrap(), parse_addr(w[2]).unwrap()), now);
            }
            (req.to_string(), c.finish(&ok.to_string()))
        }
        "lookup" => {
            let before = c.h.lookup_action_ids();
            let rx = c.h.start_lookup(id_of(&unhex(w[1]).unwrap()), w[2] == "1").await;
            let sid = c.streams.len();
            if w.get(3) == Some(&"drop") {
                // the caller does not keep the stream (an announce it does not wait for)
                drop(rx);
                c.streams.push(None);
                let aid = c.h.lookup_action_ids().into_iter().find(|a| !before.contains(a));
                c.dropped.push((sid, aid));
                st.hit("lookup_dropped_stream");
            } else {
                c.streams.push(Some(rx));
            }
            st.hit("lookup");
            // C19: concurrently live activities have pairwise distinct action ids, none the refresh's
            let ids = c.h.lookup_action_ids();
            let mut d = ids.clone(); d.dedup();
            if d.len() != ids.len() || ids.contains(&c.h.refresh_action_id()) {
                st.fail(0, 0, &format!("[C19] live searches {:?} share an action id with each other or with the refresh ({})", ids, c.h.refresh_action_id()));
            }
            (req.to_string(), c.finish(&format!("stream={sid}")))
        }
        "in" => {
            let Some(tid) = c.resolve_tid(w[1]) else { return (req.to_string(), "bad-op".into()) };
            let src = parse_addr(w[2]).unwrap();
            let Some(msg) = build_msg(c, tid, &w[3..w.len() - 1]) else { return (req.to_string(), "bad-op".into()) };
            let Ok(bytes) = msg.encode() else { return (req.to_string(), "bad-op".into()) };
            st.hit(&format!("in_{}", w[3]));
            if bytes.len() > 1500 { st.hit("in_over_1500"); }
            c.sock.deliver(bytes, src);
            let r = tokio::time::timeout(std::time::Duration::ZERO, c.h.recv_and_handle()).await;
            let res = if r.is_ok() { "handled" } else { "dropped" };
            (req.to_string(), c.finish(res))
        }
        "inraw" => {
            let bytes = unhex(w[1]).unwrap_or_default();
            c.sock.deliver(bytes, parse_addr(w[2]).unwrap());
            let r = tokio::time::timeout(std::time::Duration::ZERO, c.h.recv_and_handle()).await;
            let res = if r.is_ok() { "handled" } else { "undecodable" };
            st.hit(&format!("inraw_{res}"));
            (req.to_string(), c.finish(res))
        }
        "fire" => {
            if c.h.timer_entries().is_empty() {
                return (req.to_string(), c.finish("idle"));
            }
            let task = c.h.fire_timer().await;
            let now = c.clock.now_ns();
            let ts = task.map(|t| c.task_str(&t)).unwrap_or("none".into());
            st.hit("fire");
            (format!("fire ~now={now}"), c.finish(&format!("fired {now} {ts}")))
        }
        "refresh" => {
            c.h.refresh().await;
            (req.to_string(), c.finish("ok"))
        }
        "contacts" => {
            let (g, q) = c.h.table().lock().unwrap().load_contacts();
            let mut g: Vec<String> = g.iter().map(addr_str).collect();
            let mut q: Vec<String> = q.iter().map(addr_str).collect();
            g.sort();
            q.sort();
            (req.to_string(), c.finish(&format!("good=[{}] quest=[{}]", g.join(","), q.join(","))))
        }
        "dump" => {
            let d = crate::engines::table::fmt_table(&c.h.table().lock().unwrap(), c.clock.t0_std());
            (req.to_string(), c.finish(&d))
        }
        _ => (req.to_string(), "bad-op".into()),
    }
}

fn gen_addr(rng: &mut Rng, v6: bool, pool: u64) -> String {
    let i = rng.below(pool);
    if v6 {
        // one address in six is IPv4-mapped / IPv4-compatible / NAT64 around the bytes of an IPv4 address of
        // the pool (round-4 seeds C05, C06: the source of a query canonicalised, tokens shared between
        // `::a.b.c.d` and `::ffff:a.b.c.d`)
        if rng.chance(1, 6) {
            let k = rng.below(3);
            return format!("v6:{}:{}", hex(&structured_v6(k, [10, 1, (i >> 8) as u8, i as u8])), 7000 + i % 3);
        }
        let mut ip = vec![0x20u8, 0x01, 0x0d, 0xb8];
        ip.extend_from_slice(&[0u8; 10]);
        ip.extend_from_slice(&(i as u16 + 2).to_be_bytes());
        format!("v6:{}:{}", hex(&ip), 7000 + i % 3)
    } else {
        format!("v4:{}:{}", hex(&[10, 1, (i >> 8) as u8, i as u8]), 7000 + i % 3)
    }
}

impl Engine for HandlerEngine {
    fn gen_case(&mut self, rng: &mut Rng, idx: usize, thorough: bool) -> Vec<String> {
        if idx % 2 == 1 {
            // a search on a simulated network; the ops are produced online from the node's queries
            let policy = *rng.pick(&["truthful", "truthful", "lossy", "hostile", "hostile", "silent", "chain"]);
            let n = *rng.pick(&[1u64, 3, 7, 8, 9, 20, 60, 300]);
            return vec![format!("scenario net seed={} n={n} policy={policy} ann={} fam={} port={} looks={}",
                rng.next() % 1_000_000, rng.below(2), if rng.chance(1, 4) { "v6" } else { "v4" },
                if rng.chance(1, 2) { "none".to_string() } else { rng.range(1, 65535).to_string() }, rng.range(1, 3))];
        }
        let mut ops = vec![];
        let mut t: u128 = 2000 * S + rng.below(1000) as u128 * S;
        let me = rng.bytes(20);
        let v6 = rng.chance(1, 4);
        let ro = idx % 7 == 6;
        let port = if rng.chance(1, 2) { "none".to_string() } else { rng.range(1, 65535).to_string() };
        let pool = 40;
        let fail: Vec<String> = if rng.chance(1, 3) { (0..rng.range(1, 3)).map(|_| gen_addr(rng, v6, pool)).collect() } else { vec![] };
        ops.push(format!("hnew {} fam={} ro={} port={port} fail={} @{t}", hex(&me), if v6 { "v6" } else { "v4" }, ro as u8, if fail.is_empty() { "-".into() } else { fail.join(",") }));
        // contacts of both families, some deep
        let mut contacts: Vec<(String, String)> = vec![];
        for _ in 0..rng.range(0, 14) {
            let d = rng.below(12) as usize;
            let mut id = me.clone();
            id[d / 8] ^= 1 << (7 - d % 8);
            for b in (d + 1)..160 { if rng.chance(1, 2) { id[b / 8] ^= 1 << (7 - b % 8); } }
            let fam6 = if rng.chance(1, 5) { !v6 } else { v6 };
            let a = gen_addr(rng, fam6, pool);
            ops.push(format!("tadd {} {} {a} @{t}", if rng.chance(3, 4) { "g" } else { "q" }, hex(&id)));
            contacts.push((hex(&id), a));
        }
        let ihs: Vec<String> = (0..3).map(|_| hex(&rng.bytes(20))).collect();
        if idx % 10 == 0 {
            // C17: many peers of one family on one info-hash, full node lists, long transaction ids
            let fam6 = rng.chance(1, 2);
            for i in 0..*rng.pick(&[40u64, 41, 100, 101, 150, 499]) {
                let a = if fam6 { format!("v6:20010db8000000000000000000ff{:04x}:{}", i, 1000 + i) } else { format!("v4:{}:{}", hex(&[10, 9, (i >> 8) as u8, i as u8]), 1000 + i) };
                ops.push(format!("sadd {} {a} @{t}", ihs[0]));
            }
            // up to 16 contacts per family spread over six buckets, a mix of good and questionable ones
            // around the reply's cap of 8 (round-3 seed C17: a reply listing 7 good + 8 questionable nodes)
            for f6 in [false, true] {
                let (ng, nq) = *rng.pick(&[(10u64, 0u64), (7, 8), (8, 8), (0, 12), (6, 9), (7, 1), (16, 0), (3, 13)]);
                for i in 0..(ng + nq) {
                    let mut id = me.clone();
                    let c = (i % 6) as usize;
                    id[0] ^= 0x80 >> c;
                    id[19] = i as u8;
                    id[18] = f6 as u8;
                    let a = if f6 { format!("v6:20010db8000000000000000000ee{:04x}:{}", i, 2000 + i) } else { format!("v4:{}:{}", hex(&[10, 8, 0, i as u8]), 2000 + i) };
                    ops.push(format!("tadd {} {} {a} @{t}", if i < ng { "g" } else { "q" }, hex(&id)));
                }
            }
            for want in ["both", "none", "n4", "n6"] {
                for f6 in [false, true] {
                    let src = if f6 { "v6:20010db80000000000000000000000aa:4000".to_string() } else { "v4:0a070707:4000".to_string() };
                    ops.push(format!("in x{} {src} q get_peers id={} info_hash={} want={want} @{t}", hex(&rng.bytes(32)), hex(&rng.bytes(20)), ihs[0]));
                }
            }
        }
        for _ in 0..rng.below(if idx % 5 == 0 { 160 } else { 8 }) {
            let fam6 = rng.chance(1, 3);
            ops.push(format!("sadd {} {} @{t}", rng.pick(&ihs), gen_addr(rng, fam6, 600)));
        }
        if idx % 7 == 3 {
            // the store at its capacity of 500 pairs (coverage: handler.rs "announce storage is full"): new
            // pairs around the boundary are acknowledged / refused with 202, a pair that is already stored
            // is renewed also when the store is full
            let fill = 496 + rng.below(4) as usize;
            for i in 0..fill {
                ops.push(format!("sadd {} v4:{}:3000 @{t}", ihs[i % ihs.len()], hex(&[10, 99, (i >> 8) as u8, i as u8])));
            }
            let s1 = "v4:0a0a0a0a:5000";
            ops.push(format!("in x01 {s1} q get_peers id={} info_hash={} want=none @{t}", hex(&rng.bytes(20)), ihs[0]));
            for port in 6000..6007 {
                for k in 0..2 {
                    ops.push(format!("in x02 {s1} q announce_peer id={} info_hash={} port={port} token=T0a0a0a0a.{k} @{t}", hex(&rng.bytes(20)), ihs[0]));
                }
            }
            // renewal of stored pairs at capacity: one added by announce, one of the initial fill
            for k in 0..2 {
                ops.push(format!("in x03 {s1} q announce_peer id={} info_hash={} port=6000 token=T0a0a0a0a.{k} @{t}", hex(&rng.bytes(20)), ihs[0]));
            }
            let s2 = "v4:0a630000:1234";
            ops.push(format!("in x04 {s2} q get_peers id={} info_hash={} want=none @{t}", hex(&rng.bytes(20)), ihs[0]));
            for k in 0..2 {
                ops.push(format!("in x05 {s2} q announce_peer id={} info_hash={} port=3000 token=T0a630000.{k} @{t}", hex(&rng.bytes(20)), ihs[0]));
            }
            ops.push(format!("in x06 {s1} q get_peers id={} info_hash={} want=none @{t}", hex(&rng.bytes(20)), ihs[0]));
        }
        if v6 && idx % 3 != 0 {
            // a link-local peer (its source address carries an interface scope) announces the same contact twice,
            // once with an implied port and once with the explicit port equal to its source port: one pair
            // (round-4 seed C07: the explicit-port path rebuilt the address and lost the scope)
            let s1 = "v6:fe80000000000000000000000000000a:6881";
            let ipx = "fe80000000000000000000000000000a";
            ops.push(format!("in x10 {s1} q get_peers id={} info_hash={} want=none @{t}", hex(&rng.bytes(20)), ihs[1]));
            let order: [&str; 2] = if rng.chance(1, 2) { ["implied", "6881"] } else { ["6881", "implied"] };
            for port in order {
                for k in 0..2 {
                    ops.push(format!("in x11 {s1} q announce_peer id={} info_hash={} port={port} token=T{ipx}.{k} @{t}", hex(&rng.bytes(20)), ihs[1]));
                }
            }
            ops.push(format!("in x12 {s1} q get_peers id={} info_hash={} want=none @{t}", hex(&rng.bytes(20)), ihs[1]));
        }
        let n = if thorough { 150 } else { 50 };
        let mut issued_tokens: Vec<(String, String)> = vec![]; // (src addr, T-form)
        for _ in 0..n {
            t += match rng.below(12) { 0 => 600 * S, 1 => 900 * S, 2 => 1500 * MS, 3 => 6 * S, _ => rng.below(2000) as u128 * MS };
            let src6 = if rng.chance(1, 4) { !v6 } else { v6 };
            // now and then a link-local requester (its source address carries an interface scope: only ever a
            // requester, never a node named by others — addresses decoded from messages have no scope)
            let src = if src6 && rng.chance(1, 6) { format!("v6:fe80000000000000000000000000{:04x}:{}", 1 + rng.below(3), 7000 + rng.below(2)) }
                      else if !contacts.is_empty() && rng.chance(1, 3) { rng.pick(&contacts).1.clone() } else { gen_addr(rng, src6, pool) };
            let sid = if !contacts.is_empty() && rng.chance(1, 2) { rng.pick(&contacts).0.clone() } else { hex(&rng.bytes(20)) };
            let tidlen = *rng.pick(&[0usize, 1, 2, 4, 8, 8, 20, 32]);
            let tid = format!("x{}", hex_or_dash(&rng.bytes(tidlen)));
            let want = *rng.pick(&["none", "none", "n4", "n6", "both"]);
            let target = if rng.chance(1, 4) { hex(&me) } else if !contacts.is_empty() && rng.chance(1, 3) { rng.pick(&contacts).0.clone() } else { hex(&rng.bytes(20)) };
            match rng.below(20) {
                0..=1 => {
                    ops.push(format!("in {tid} {src} q ping id={sid} @{t}"));
                    // ... followed by a cut-off copy of the same datagram: undecodable, nothing may happen (round-5 seed
                    // C03: a receive buffer kept between datagrams completed a truncated one with the tail of its predecessor)
                    if rng.chance(1, 3) {
                        let w: Vec<String> = format!("q ping t={} id={sid}", hex_or_dash(&unhex(tid.trim_start_matches('x')).unwrap_or_default())).split_whitespace().map(|x| x.to_string()).collect();
                        let wr: Vec<&str> = w.iter().map(|x| x.as_str()).collect();
                        if let Some(m) = crate::msgtext::text_to_msg(&wr) {
                            let b = crate::msgtext::bep_tree(&m).to_bytes();
                            let k = rng.range(1, b.len() as u64 - 1) as usize;
                            ops.push(format!("inraw {} {src} @{t}", hex(&b[..k])));
                        }
                    }
                }
                2..=4 => ops.push(format!("in {tid} {src} q find_node id={sid} target={target} want={want} @{t}")),
                5..=8 => {
                    ops.push(format!("in {tid} {src} q get_peers id={sid} info_hash={} want={want} @{t}", rng.pick(&ihs)));
                    // the reply's token for this source is a term with the current secret; we refer to secrets by index
                    let ip = src.split(':').nth(1).unwrap().to_string();
                    issued_tokens.push((src.clone(), format!("T{ip}.")));
                }
                9..=13 => {
                    let mut port = if rng.chance(1, 2) { "implied".to_string() } else { rng.below(65536).to_string() };
                    let (asrc, tok) = if !issued_tokens.is_empty() && rng.chance(3, 4) {
                        let j = rng.below(issued_tokens.len() as u64) as usize;
                        let (s, tpre) = issued_tokens[j].clone();
                        // same IP (maybe another port) or a different IP; secret index 0..3
                        let k = rng.below(4);
                        let tpre = if rng.chance(2, 3) { format!("I{j}#") } else { tpre };
                        let s2 = if rng.chance(1, 5) { src.clone() } else if rng.chance(1, 3) { let mut p: Vec<&str> = s.split(':').collect(); let np = "9999"; p[2] = np; p.join(":") } else { s };
                        let spec = if let Some(i) = tpre.strip_suffix('#') { i.to_string() } else { format!("{tpre}{k}") };
                        // a valid token followed by further bytes is not a token of this node (round-5 seed C06)
                        (s2, if rng.chance(1, 8) { let l = *rng.pick(&[1usize, 1, 20]); format!("{spec}+{}", hex(&rng.bytes(l))) } else { spec })
                    } else {
                        // junk of any length a request can carry (round-5 seed C17: the refused token echoed in the error)
                        let l = *rng.pick(&[0usize, 19, 20, 21, 40, 700, 1000, 1300]);
                        (src.clone(), hex_or_dash(&rng.bytes(l)))
                    };
                    // the explicit port equal to the source port: the same contact as with an implied port
                    if port != "implied" && rng.chance(1, 3) { port = asrc.rsplit(':').next().unwrap_or("1").to_string(); }
                    ops.push(format!("in {tid} {asrc} q announce_peer id={sid} info_hash={} port={port} token={tok} @{t}", rng.pick(&ihs)));
                }
                14..=15 => {
                    // unsolicited responses: raw ids, the refresh prefix
                    let rt = match rng.below(7) { 0 | 1 => "R~fresh".to_string(), 2 => { let l = *rng.pick(&[1usize, 1, 2, 8]); format!("R~fresh+{}", hex(&rng.bytes(l))) } 3 => format!("R~fresh^{}", *rng.pick(&["01", "0001", "c000"])), _ => tid.clone() };
                    let nodes: Vec<String> = (0..rng.below(4)).map(|_| format!("{}@{}", if rng.chance(1, 6) { hex(&me) } else { hex(&rng.bytes(20)) }, gen_addr(rng, false, pool))).collect();
                    ops.push(format!("in {rt} {src} r id={sid} values=- nodes={} nodes6=- token=none @{t}", if nodes.is_empty() { "-".into() } else { nodes.join(";") }));
                }
                16 => ops.push(format!("in {tid} {src} e code=201 msg={} @{t}", hex(b"oops"))),
                17 => ops.push(format!("inraw {} {src} @{t}", hex_or_dash(&rng.bytes_below(40)))),
                18 => ops.push(format!("contacts @{t}")),
                _ => ops.push(format!("dump @{t}")),
            }
        }
        ops.push(format!("dump @{t}"));
        ops
    }

    fn run_case(&mut self, case: usize, reqs: &[String], out: &mut Vec<(String, String)>, st: &mut Stats) {
        with_rt(case as u64, async {
            let mut ctx: Option<Ctx> = None;
            for req in reqs {
                if req.starts_with("scenario ") {
                    run_scenario(&mut ctx, req, case, out, st).await;
                    continue;
                }
                let line = out.len();
                let r = exec_checked(&mut ctx, req, case, line, st).await;
                out.push(r);
            }
        })
    }
}

// =========================================================================== oracles

fn contact_sets(c: &Ctx) -> (HashSet<SocketAddr>, HashSet<SocketAddr>) {
    c.h.table().lock().unwrap().load_contacts()
}

fn fam6(a: &SocketAddr) -> bool { a.is_ipv6() }

/// The property-level checks on what the real handler just did for `op`.
fn check_op(c: &mut Ctx, w: &[&str], before: &(HashSet<SocketAddr>, HashSet<SocketAddr>), case: usize, line: usize, st: &mut Stats) {
    let now = c.clock.now_ns();
    // C17: everything that leaves the node fits a 1500-byte receive buffer
    for (dst, _, len, _) in &c.last_sent {
        if *len > 1500 {
            st.fail(case, line, &format!("[C17] the node emitted a {len}-byte datagram to {}", addr_str(dst)));
        }
    }
    let sent: Vec<(SocketAddr, Message, bool)> = c.last_sent.iter().filter_map(|(d, m, _, ok)| m.clone().map(|m| (*d, m, *ok))).collect();
    let replies: Vec<&(SocketAddr, Message, bool)> = sent.iter().filter(|(_, m, _)| !matches!(m.body, MessageBody::Request(_))).collect();
    let is_in = w[0] == "in";
    let kind = if is_in { w[3] } else { "" };
    if is_in && kind == "q" {
        let src = parse_addr(w[2]).unwrap();
        let tid = c.resolve_tid(w[1]).unwrap_or_default();
        let method = w[4];
        // C12: a query never changes the contacts
        let after = contact_sets(c);
        let union = |x: &(HashSet<SocketAddr>, HashSet<SocketAddr>)| -> HashSet<SocketAddr> { x.0.union(&x.1).copied().collect() };
        if union(&after) != union(before) {
            st.fail(case, line, "[C12] receiving a query changed the node's contacts");
        }
        if c.ro {
            if !c.last_sent.is_empty() {
                st.fail(case, line, "[C05] a read-only node answered a query");
            }
            return;
        }
        // C05: exactly one reply, to the source, echoing the transaction id, carrying our id
        if c.last_sent.len() != 1 || replies.len() != 1 {
            st.fail(case, line, &format!("[C05] a well-formed {method} query caused {} datagrams ({} replies)", c.last_sent.len(), replies.len()));
            return;
        }
        let (dst, m, _) = replies[0];
        if *dst != src { st.fail(case, line, "[C05] the reply went to another address than the query's source"); }
        if m.transaction_id != tid { st.fail(case, line, "[C05] the reply does not echo the query's transaction id"); }
        let ih = kv(w, "info_hash").and_then(unhex);
        match (&m.body, method) {
            (MessageBody::Response(r), "ping" | "find_node") => {
                if r.id.as_ref() != c.me.as_slice() { st.fail(case, line, "[C05] reply does not carry the node's own id"); }
                if r.token.is_some() || !r.values.is_empty() { st.fail(case, line, "[C05] ping/find_node reply carries a token or values"); }
                if method == "ping" && (!r.nodes_v4.is_empty() || !r.nodes_v6.is_empty()) { st.fail(case, line, "[C05] ping reply carries nodes"); }
            }
            (MessageBody::Response(r), "get_peers") => {
                if r.id.as_ref() != c.me.as_slice() { st.fail(case, line, "[C05] reply does not carry the node's own id"); }
                match &r.token {
                    Some(t) if t.len() == 20 => c.issued.push((ip_octets(&src.ip()), t.clone(), now)),
                    _ => st.fail(case, line, "[C05] get_peers reply without a 20-byte token"),
                }
                if r.values.iter().any(|v| fam6(v) != fam6(&src)) { st.fail(case, line, "[C05] get_peers reply lists peers of another address family than the requester's"); }
                // C07 (handler level): exactly the live pairs of that family
                let ihb = ih.clone().unwrap_or_default();
                c.store.retain(|_, t| now - *t < 86_400 * S);
                let mut exp: Vec<String> = c.store.keys().filter(|(i, a)| *i == ihb && fam6(a) == fam6(&src)).map(|(_, a)| addr_str(a)).collect();
                let mut got: Vec<String> = r.values.iter().map(addr_str).collect();
                exp.sort(); got.sort();
                let cap = if fam6(&src) { 40 } else { 100 };
                if exp != got && exp.len() <= cap {
                    st.fail(case, line, &format!("[C07] get_peers reply lists {} peers, the announces of the last 24 h say {}", got.len(), exp.len()));
                }
            }
            (MessageBody::Response(r), "announce_peer") => {
                if r.id.as_ref() != c.me.as_slice() { st.fail(case, line, "[C05] reply does not carry the node's own id"); }
                if r.token.is_some() || !r.values.is_empty() || !r.nodes_v4.is_empty() || !r.nodes_v6.is_empty() { st.fail(case, line, "[C05] announce acknowledgement carries data"); }
            }
            (MessageBody::Error(e), "announce_peer") => {
                if e.code != 203 && e.code != 202 { st.fail(case, line, &format!("[C05] announce_peer refused with error {}", e.code)); }
            }
            _ => st.fail(case, line, &format!("[C05] unexpected reply shape to a {method} query")),
        }
        // nodes only of the requested families
        if let (MessageBody::Response(r), "find_node" | "get_peers") = (&m.body, method) {
            let want = kv(w, "want").unwrap_or("none");
            let (w4, w6) = match want { "n4" => (true, false), "n6" => (false, true), "both" => (true, true), _ => (!c.v6, c.v6) };
            if (!w4 && !r.nodes_v4.is_empty()) || (!w6 && !r.nodes_v6.is_empty()) {
                st.fail(case, line, "[C05] reply lists nodes of a family that was not requested");
            }
            // C09 (reply level): distinct live contacts
            let live: HashSet<SocketAddr> = before.0.union(&before.1).copied().collect();
            let mut seen = HashSet::new();
            for n in r.nodes_v4.iter().chain(r.nodes_v6.iter()) {
                if !live.contains(&n.addr) { st.fail(case, line, "[C09] reply names a node that is not a live contact"); }
                if !seen.insert((n.id, n.addr)) { st.fail(case, line, "[C09] reply names a node twice"); }
            }
            let n4live = live.iter().filter(|a| a.is_ipv4()).count();
            let n6live = live.iter().filter(|a| a.is_ipv6()).count();
            if w4 && r.nodes_v4.len() != n4live.min(8) && r.nodes_v4.len() < n4live.min(8) { st.fail(case, line, "[C09] reply lists fewer v4 nodes than min(8, live v4 contacts)"); }
            if w6 && r.nodes_v6.len() < n6live.min(8) { st.fail(case, line, "[C09] reply lists fewer v6 nodes than min(8, live v6 contacts)"); }
        }
        // C06 / C07: the announce gate
        if method == "announce_peer" {
            let tok = kv(w, "token").and_then(|t| c.tok_bytes(t)).unwrap_or_default();
            let ip = ip_octets(&src.ip());
            let youngest = c.issued.iter().filter(|(i, t, _)| *i == ip && *t == tok).map(|(_, _, at)| *at).max();
            let acked = matches!(m.body, MessageBody::Response(_));
            let code = if let MessageBody::Error(e) = &m.body { e.code } else { 0 };
            match youngest {
                Some(at) if now - at <= 600 * S => {
                    if code == 203 { st.fail(case, line, "[C06] a token issued to this IP less than 10 minutes ago was refused"); }
                }
                Some(at) if now - at >= 1800 * S => {
                    if code != 203 { st.fail(case, line, "[C06] a token older than 30 minutes was accepted"); }
                }
                Some(_) => {}
                None => {
                    // `T<ip>.<k>` is built by the harness from the store's real secret k (something no
                    // remote party can do); it counts as unissued only when made for another IP
                    let forged_same_ip = kv(w, "token").map(|t| t.starts_with(&format!("T{}.", hex(&ip)))).unwrap_or(false);
                    if code != 203 && !forged_same_ip { st.fail(case, line, "[C06] a token this node never issued to that IP was accepted"); }
                }
            }
            let ihb = ih.unwrap_or_default();
            let contact = match kv(w, "port") { Some("implied") | None => src, Some(p) => { let mut a = src; a.set_port(p.parse().unwrap_or(0)); a } };
            c.store.retain(|_, t| now - *t < 86_400 * S);
            if acked {
                c.store.insert((ihb, contact), now);
            } else if code == 202 && (c.store.len() < 500 || c.store.contains_key(&(ihb, contact))) {
                st.fail(case, line, &format!("[C07] announce refused as full with {} live pairs", c.store.len()));
            }
            st.hit(if acked { "announce_acked" } else if code == 203 { "announce_203" } else { "announce_202" });
        }
        return;
    }
    if is_in || w[0] == "inraw" {
        // C05: nothing but queries may answer a non-query
        if !replies.is_empty() {
            st.fail(case, line, "[C05] the node sent a response/error although no query was received");
        }
    }
    if is_in && kind == "r" {
        let spec = w[1];
        let src = parse_addr(w[2]).unwrap();
        let after = contact_sets(c);
        if spec.starts_with('x') || spec.contains('+') || spec.contains('^') {
            // C12: an id that derives from no request of this node (random, or of a wrong length)
            let union = |x: &(HashSet<SocketAddr>, HashSet<SocketAddr>)| -> HashSet<SocketAddr> { x.0.union(&x.1).copied().collect() };
            if union(&after) != union(before) || !c.last_sent.is_empty() || !c.last_yields.is_empty() {
                st.fail(case, line, "[C12] a response with a transaction id this node never used changed its contacts, searches or caused traffic");
            }
        } else if spec == "R~fresh" {
            if after.0.contains(&src) && !before.0.contains(&src) {
                // the forged-refresh-prefix admission (finding F12)
                st.fail(case, line, "[C12] refresh-prefix: a response carrying the refresh action prefix with a message id that was never issued admitted its sender as good");
            }
        }
        // C12: nodes merely named are not good right away
        let named = kv(w, "nodes").filter(|n| *n != "-").map(|n| n.split(';').filter_map(|x| x.split_once('@').and_then(|(_, a)| parse_addr(a))).collect::<Vec<_>>()).unwrap_or_default();
        for a in named {
            if a != src && after.0.contains(&a) && !before.0.contains(&a) {
                st.fail(case, line, "[C12] a node merely named in a response is reported good");
            }
        }
        if after.0.iter().chain(after.1.iter()).any(|a| c.sock.local == *a) {
            st.fail(case, line, "[C12] the node's own address was admitted");
        }
        {
            let t = c.h.table();
            let t = t.lock().unwrap();
            let me = &c.me;
            if t.buckets().any(|b| b.iter().any(|n| n.id().as_ref() == &me[..] && n.addr().port() != 0)) {
                st.fail(case, line, "[C12] the node's own id was admitted as a contact");
            }
        }
    }
}

/// search-level bookkeeping and checks (C02 C03 C04), driven by the structured results of each op
fn check_lookups(c: &mut Ctx, w: &[&str], case: usize, line: usize, st: &mut Stats) {
    let now = c.clock.now_ns();
    if w[0] == "lookup" {
        c.looks.push(LookInfo { ih: unhex(w[1]).unwrap(), announce: w[2] == "1", started: now, dropped: w.get(3) == Some(&"drop"), ..Default::default() });
    }
    // the response being delivered, if any
    let delivered: Option<(Vec<u8>, SocketAddr, Response)> = if w[0] == "in" && w[3] == "r" {
        let tid = c.resolve_tid(w[1]).unwrap_or_default();
        build_msg(c, tid.clone(), &w[3..w.len() - 1]).and_then(|m| match m.body { MessageBody::Response(r) => Some((tid, parse_addr(w[2]).unwrap(), r)), _ => None })
    } else { None };
    // 1. yields must come from the response delivered in this very op, under an outstanding id of that search
    let mut accepted_for: Option<usize> = None;
    if let Some((tid, src, r)) = &delivered {
        for (sid, li) in c.looks.iter_mut().enumerate() {
            if li.closed_at.is_none() && li.outstanding.contains_key(tid) {
                accepted_for = Some(sid);
                li.outstanding.remove(tid);
                if let Some(t) = &r.token { if t.len() <= 256 { li.tokens.insert((r.id.as_ref().to_vec(), *src), t.clone()); li.tokens_all.push((*src, t.clone())); } }
                for n in if c.v6 { &r.nodes_v6 } else { &r.nodes_v4 } { li.told.insert(n.id.as_ref().to_vec()); }
                li.accepted_values.extend(r.values.iter().copied());
            }
        }
    }
    for (sid, a) in c.last_yields.clone() {
        let ok = match (&delivered, accepted_for) {
            (Some((_, _, r)), Some(s)) => s == sid && r.values.contains(&a),
            _ => false,
        };
        if !ok {
            st.fail(case, line, &format!("[C03] search {sid} yielded {} which is not a value of a response to one of its outstanding queries", addr_str(&a)));
        }
        if let Some(li) = c.looks.get_mut(sid) { li.yielded.push(a); }
    }
    if let (Some((_, _, r)), Some(sid)) = (&delivered, accepted_for) {
        let n = c.last_yields.iter().filter(|(s, _)| *s == sid).count();
        // (C02 presupposes that the search's datagrams can be sent: a round whose sends all fail makes the
        // code give up its outstanding queries and go to the end-game, an answer still on its way is then dropped)
        if n != r.values.len() && !c.looks[sid].any_send_failed && !c.looks[sid].dropped {
            st.fail(case, line, &format!("[C02] an accepted response carried {} peers but the search yielded {n}", r.values.len()));
        }
    }
    // 2. queries sent in this op
    let sent: Vec<(SocketAddr, Message, bool)> = c.last_sent.iter().filter_map(|(d, m, _, ok)| m.clone().map(|m| (*d, m, *ok))).collect();
    let endgame_started = c.h.timer_entries().iter().any(|(_, _, t)| matches!(t, VTask::LookupEndGame(_)));
    let _ = endgame_started;
    for (dst, m, ok) in &sent {
        let MessageBody::Request(rq) = &m.body else { continue };
        let aid = m.transaction_id[..5.min(m.transaction_id.len())].to_vec();
        match rq {
            Request::GetPeers(g) => {
                // attribute to the search with that action prefix (or the one just created)
                let idx = c.looks.iter().position(|l| l.aid == aid && l.closed_at.is_none()).or_else(|| c.looks.iter().position(|l| l.aid.is_empty() && l.closed_at.is_none()));
                if let Some(i) = idx {
                    let li = &mut c.looks[i];
                    if li.aid.is_empty() { li.aid = aid.clone(); }
                    if g.info_hash.as_ref() != li.ih.as_slice() { st.fail(case, line, "[C03] a search queried for another info-hash"); }
                    li.outstanding.insert(m.transaction_id.clone(), (*dst, now, false));
                    if *ok { li.any_sent_ok = true; } else { li.any_send_failed = true; }
                    if m.transaction_id.len() != 8 { st.fail(case, line, "[C19] a query carries a transaction id that is not 8 bytes"); }
                }
            }
            Request::AnnouncePeer(a) => {
                if let Some(li) = c.looks.iter_mut().find(|l| l.aid == aid) {
                    li.announces.push((*dst, a.token.clone()));
                    if !li.announce { st.fail(case, line, "[C03] announce_peer sent by a search that was not asked to announce"); }
                    if li.announces.len() > 8 { st.fail(case, line, "[C03] more than 8 announce_peer for one search"); }
                    if a.info_hash.as_ref() != li.ih.as_slice() { st.fail(case, line, "[C03] announce_peer for another info-hash"); }
                    if a.id.as_ref() != c.me.as_slice() { st.fail(case, line, "[C02] announce_peer does not carry the node's own id"); }
                    if a.port != c.announce_port { st.fail(case, line, "[C02] announce_peer does not carry the configured port / implied_port"); }
                    // (after a round whose sends failed the code may have given up queries this oracle still counts as
                    // outstanding: which of a node's tokens was the latest *accepted* one is then not known here)
                    let good = li.tokens.iter().any(|((_, src), tok)| src == dst && *tok == a.token)
                        || (li.any_send_failed && li.tokens_all.iter().any(|(src, tok)| src == dst && *tok == a.token));
                    if !good { st.fail(case, line, "[C03] announce_peer to a node that did not answer this search with that (latest) token"); }
                } else {
                    st.fail(case, line, "[C03] announce_peer that belongs to no search");
                }
            }
            _ => {}
        }
    }
    // 3. timeouts that fired
    if w[0] == "fire" {
        // the task is in the result text of the op; the simplest robust source is the timer: an id that is no longer scheduled
        let scheduled: HashSet<Vec<u8>> = c.h.timer_entries().iter().filter_map(|(_, _, t)| match t { VTask::LookupTimeout(id) => Some(id.clone()), _ => None }).collect();
        for li in c.looks.iter_mut() {
            let gone: Vec<Vec<u8>> = li.outstanding.iter().filter(|(tid, (_, at, eg))| !*eg && now >= *at + 1500 * MS && !scheduled.contains(*tid)).map(|(t, _)| t.clone()).collect();
            for t in gone { li.outstanding.remove(&t); }
        }
    }
    // 4. closing
    for sid in c.last_closed.clone() {
        let Some(li) = c.looks.get_mut(sid) else { continue };
        li.closed_at = Some(now);
        let told = li.told.len() as u128 + 8; // initial picks come from the table: at most a bucket's worth
        if now > li.started + 1500 * MS * told + 3 * S + 10 * MS {
            st.fail(case, line, &format!("[C04] search {sid} closed {} ms after its start, later than 1.5 s per node it was told about + 3 s", (now - li.started) / MS));
        }
        // not early: no query younger than 1.5 s may be pending unless nothing could be sent at all
        if li.any_sent_ok {
            for (_, (_, at, _)) in li.outstanding.iter() {
                if now < *at + 1500 * MS {
                    st.fail(case, line, &format!("[C04] search {sid} closed while a query only {} ms old was unanswered", (now - *at) / MS));
                    break;
                }
            }
        }
        st.hit("lookup_closed");
        st.hit(&format!("lookup_closed_after_{}s", ((now - li.started) / S).min(9)));
    }
}

pub async fn exec_checked(ctx: &mut Option<Ctx>, req: &str, case: usize, line: usize, st: &mut Stats) -> (String, String) {
    let before = ctx.as_ref().map(contact_sets);
    let r = exec_op(ctx, req, st).await;
    if let (Some(c), Some(b)) = (ctx.as_mut(), before) {
        let w: Vec<&str> = req.split_whitespace().collect();
        if !r.1.starts_with("bad-op") {
            check_op(c, &w, &b, case, line, st);
            check_lookups(c, &w, case, line, st);
        }
    }
    r
}

// =========================================================================== network simulator

struct SimNode {
    id: Vec<u8>,
    addr: SocketAddr,
    peers: Vec<SocketAddr>,
    /// the token of the node's latest answer
    token: Vec<u8>,
    /// the node hands out another token with every answer (a rotating secret)
    rotating: bool,
    /// delivery time of its latest answer (answers of one node arrive in the order they were issued)
    last_at: u128,
    issued: u32,
    /// every token the node ever handed out
    history: Vec<Vec<u8>>,
}

fn dist(a: &[u8], b: &[u8]) -> Vec<u8> { a.iter().zip(b.iter()).map(|(x, y)| x ^ y).collect() }

/// `scenario net seed=<s> n=<N> policy=<truthful|lossy|hostile|silent|chain> ann=<0|1> fam=<v4|v6> port=<none|N> looks=<k>`
/// expands, online, into concrete ops: the simulated network reacts to the queries the node sends.
async fn run_scenario(ctx: &mut Option<Ctx>, req: &str, case: usize, out: &mut Vec<(String, String)>, st: &mut Stats) {
    let w: Vec<&str> = req.split_whitespace().collect();
    let mut rng = Rng::new(kv(&w, "seed").and_then(|s| s.parse().ok()).unwrap_or(1));
    let n: usize = kv(&w, "n").and_then(|s| s.parse().ok()).unwrap_or(20);
    let policy = kv(&w, "policy").unwrap_or("truthful").to_string();
    let ann = kv(&w, "ann") == Some("1");
    let v6 = kv(&w, "fam") == Some("v6");
    let port = kv(&w, "port").unwrap_or("none").to_string();
    let nlooks: usize = kv(&w, "looks").and_then(|s| s.parse().ok()).unwrap_or(1);
    st.hit(&format!("scenario_{policy}"));
    let mut t: u128 = 3000 * S;
    let me = rng.bytes(20);
    let ih = rng.bytes(20);
    // ids: uniform, or clustered around the target / around the local id
    let cluster = rng.below(3);
    let mut nodes: Vec<SimNode> = (0..n).map(|i| {
        let mut id = rng.bytes(20);
        if cluster == 1 { let k = rng.range(1, 18) as usize; id[..k].copy_from_slice(&ih[..k]); }
        if cluster == 2 { let k = rng.range(1, 18) as usize; id[..k].copy_from_slice(&me[..k]); }
        let addr = parse_addr(&if v6 { format!("v6:20010db80000000000000000{:04x}{:04x}:{}", 1, i + 2, 8000 + i % 5) } else { format!("v4:{}:{}", hex(&[10, 2, (i >> 8) as u8, i as u8]), 8000 + i % 5) }).unwrap();
        let peers = if rng.chance(1, 3) { (0..rng.range(1, 4)).map(|_| { let f6 = rng.chance(1, 4); parse_addr(&gen_addr(&mut rng, f6, 500)).unwrap() }).collect() } else { vec![] };
        // token lengths up to the longest the search records (MAX_TOKEN_LEN = 256)
        let token = match rng.below(14) { 0 => rng.bytes(256), 1 => rng.bytes(255), _ => rng.bytes_below(30) };
        SimNode { id, addr, peers, history: vec![token.clone()], token, rotating: rng.chance(1, 3), last_at: 0, issued: 0 }
    }).collect();
    nodes.dedup_by(|a, b| a.id == b.id);
    let closest8 = |nodes: &Vec<SimNode>, target: &[u8]| -> Vec<usize> {
        let mut idx: Vec<usize> = (0..nodes.len()).collect();
        idx.sort_by_key(|i| dist(&nodes[*i].id, target));
        idx.truncate(8);
        idx
    };
    let mut line = |ctx: &mut Option<Ctx>, op: String, out: &mut Vec<(String, String)>, st: &mut Stats| {
        let l = out.len();
        (op, l, ctx as *mut Option<Ctx>, st as *mut Stats)
    };
    let _ = &mut line;
    let mut new_sends: Vec<(SocketAddr, Option<Message>, usize, bool)> = vec![];
    macro_rules! run { ($op:expr) => {{ let l = out.len(); let r = exec_checked(ctx, &$op, case, l, st).await; out.push(r);
        if let Some(c) = ctx.as_ref() { new_sends.extend(c.last_sent.iter().cloned()); } }}; }
    // C04 "send failures": on networks other than the truthful one (C02 presupposes that every
    // datagram can be sent) some addresses are unreachable at the socket level, so that query rounds
    // fail partially; drawn from a generator of its own so that the main stream is unchanged
    let mut frng = Rng::new(kv(&w, "seed").and_then(|s| s.parse::<u64>().ok()).unwrap_or(1) ^ 0xfa11_fa11);
    let mut fail: Vec<String> = vec![];
    if policy != "truthful" && frng.chance(1, 2) {
        let den = *frng.pick(&[2u64, 3, 5]);
        for nd in nodes.iter() { if frng.chance(1, den) { fail.push(addr_str(&nd.addr)); } }
        if policy == "chain" {
            // nodes that will be named later on
            for i in nodes.len()..nodes.len() + 130 { if frng.chance(1, den) { fail.push(format!("v4:{}:{}", hex(&[10, 3, (i >> 8) as u8, i as u8]), 8100)); } }
        }
        st.hit("scenario_with_send_failures");
    }
    run!(format!("hnew {} fam={} ro={} port={port} fail={} @{t}", hex(&me), if v6 { "v6" } else { "v4" }, rng.below(2), if fail.is_empty() { "-".to_string() } else { fail.join(",") }));
    // bootstrap contacts: a non-empty subset of the network, as good nodes
    let k0 = rng.range(1, 12.min(nodes.len() as u64)) as usize;
    for i in 0..k0 {
        let j = (i * 7 + 3) % nodes.len();
        run!(format!("tadd g {} {} @{t}", hex(&nodes[j].id), addr_str(&nodes[j].addr)));
    }
    // pending deliveries: (at, op text without @t)
    let mut events: Vec<(u128, String)> = vec![];
    let mut answered: HashSet<Vec<u8>> = HashSet::new();
    let mut looks_started = 0;
    let mut steps = 0;
    let mut chain_depth = 0usize;
    loop {
        steps += 1;
        if steps > 600 { st.hit("scenario_step_limit"); break; }
        // start searches
        if looks_started < nlooks && (looks_started == 0 || rng.chance(1, 3)) {
            // one announcing search in four is fire-and-forget: the caller drops the stream at once (round-5 seed
            // C02: a failed delivery to the stream made the search skip the rest of the answer)
            if ann && rng.chance(1, 4) { run!(format!("lookup {} 1 drop @{t}", hex(&ih))); }
            else { run!(format!("lookup {} {} @{t}", hex(&ih), ann as u8)); }
            looks_started += 1;
        }
        // react to the queries just sent
        let c = ctx.as_mut().unwrap();
        let sent = std::mem::take(&mut new_sends);
        for (dst, m, _, ok) in sent {
            let Some(m) = m else { continue };
            if !ok { continue }
            let MessageBody::Request(Request::GetPeers(_)) = &m.body else { continue };
            let Some(k) = c.names.iter().position(|x| *x == m.transaction_id) else { continue };
            let Some(ni) = nodes.iter().position(|x| x.addr == dst) else { continue };
            if answered.contains(&m.transaction_id) { continue }
            let lat = |rng: &mut Rng| rng.below(1000) as u128 * MS;
            // a rotating node issues a fresh token with this answer (only where every answer is delivered,
            // in issue order: the oracle's "token that very node issued" is then the latest one)
            let mut fifo_at: Option<u128> = None;
            if nodes[ni].rotating && (policy == "truthful" || policy == "chain") {
                nodes[ni].issued += 1;
                let mut tk = nodes[ni].token.clone();
                if tk.is_empty() { tk.push(0) }
                let l = tk.len();
                tk[l - 1] = tk[l - 1].wrapping_add(1);
                nodes[ni].token = tk.clone();
                nodes[ni].history.push(tk);
                let at = (t + lat(&mut rng)).max(nodes[ni].last_at + 1);
                // still within the second the property grants
                let at = at.min(t + 999 * MS).max(nodes[ni].last_at + 1);
                nodes[ni].last_at = at;
                fifo_at = Some(at);
                st.hit("net_rotating_token_answer");
                if nodes[ni].issued > 1 { st.hit("net_node_asked_twice_rotating"); }
            }
            let nd = SimNode { id: nodes[ni].id.clone(), addr: nodes[ni].addr, peers: nodes[ni].peers.clone(), token: nodes[ni].token.clone(), rotating: false, last_at: 0, issued: 0, history: vec![] };
            let nd = &nd;
            let c8: Vec<String> = closest8(&nodes, &ih).iter().map(|i| format!("{}@{}", hex(&nodes[*i].id), addr_str(&nodes[*i].addr))).collect();
            let nodes_field = |list: &Vec<String>| if list.is_empty() { "-".to_string() } else { list.join(";") };
            let vals = if nd.peers.is_empty() { "-".to_string() } else { nd.peers.iter().map(addr_str).collect::<Vec<_>>().join(";") };
            let (nk, n6k) = if v6 { ("nodes=-".to_string(), format!("nodes6={}", nodes_field(&c8))) } else { (format!("nodes={}", nodes_field(&c8)), "nodes6=-".to_string()) };
            let good = format!("in #{k} {} r id={} values={vals} {nk} {n6k} token={}", addr_str(&nd.addr), hex(&nd.id), hex_or_dash(&nd.token));
            match policy.as_str() {
                "silent" => {}
                "truthful" => { let at = fifo_at.unwrap_or_else(|| t + lat(&mut rng)); events.push((at, good)); answered.insert(m.transaction_id.clone()); }
                "lossy" => {
                    match rng.below(10) {
                        0..=2 => {}
                        // around and shortly after the 1.5 s query time-out: the answer of a slow node that is no
                        // longer outstanding while the search goes on (round-4 seeds C03, C17: its token kept)
                        3 => events.push((t + 1400 * MS + rng.below(200) as u128 * MS, good)),
                        4 => events.push((t + 1501 * MS + rng.below(900) as u128 * MS, good)),
                        5 => events.push((t + 2000 * MS + rng.below(3000) as u128 * MS, good)),
                        6 => events.push((t + lat(&mut rng), format!("in #{k} {} e code=201 msg={}", addr_str(&nd.addr), hex(b"no")))),
                        _ => events.push((t + lat(&mut rng), good)),
                    }
                }
                "chain" => {
                    // every answer names a few fresh nodes that are closer than the responder
                    chain_depth += 1;
                    let mut named = vec![];
                    if chain_depth < 60 {
                        for _ in 0..rng.range(1, 3) {
                            let mut id = ih.clone();
                            let keep = (dist(&nd.id, &ih).iter().position(|b| *b != 0).unwrap_or(19) + 1).min(19);
                            for b in id.iter_mut().skip(keep) { *b = rng.byte(); }
                            let i = nodes.len();
                            let addr = parse_addr(&format!("v4:{}:{}", hex(&[10, 3, (i >> 8) as u8, i as u8]), 8100)).unwrap();
                            named.push(format!("{}@{}", hex(&id), addr_str(&addr)));
                            let tk = rng.bytes(8); nodes.push(SimNode { id, addr, peers: vec![], history: vec![tk.clone()], token: tk, rotating: rng.chance(1, 3), last_at: 0, issued: 0 });
                        }
                    }
                    events.push((fifo_at.unwrap_or_else(|| t + lat(&mut rng)), format!("in #{k} {} r id={} values=- nodes={} nodes6=- token={}", addr_str(&nd.addr), hex(&nd.id), nodes_field(&named), hex_or_dash(&nd.token))));
                }
                _ => {
                    // hostile
                    let other_src = gen_addr(&mut rng, v6, 30);
                    let junk_nodes: Vec<String> = (0..rng.below(5)).map(|_| match rng.below(6) {
                        0 => format!("{}@{}", hex(&me), gen_addr(&mut rng, v6, 30)),
                        // the id of the responder / of a node of the network under an address of somebody else
                        4 => format!("{}@{}", hex(&nd.id), gen_addr(&mut rng, v6, 30)),
                        5 => format!("{}@{}", hex(&nodes[rng.below(nodes.len() as u64) as usize].id), gen_addr(&mut rng, v6, 30)),
                        1 => c8.first().cloned().unwrap_or_else(|| format!("{}@{}", hex(&rng.bytes(20)), gen_addr(&mut rng, v6, 30))),
                        _ => format!("{}@{}", hex(&rng.bytes(20)), gen_addr(&mut rng, v6, 30)),
                    }).collect();
                    let (jn, jn6) = if v6 { ("nodes=-".to_string(), format!("nodes6={}", nodes_field(&junk_nodes))) } else { (format!("nodes={}", nodes_field(&junk_nodes)), "nodes6=-".to_string()) };
                    let forged_vals = format!("{};{}", gen_addr(&mut rng, false, 900), gen_addr(&mut rng, false, 900));
                    let at = t + lat(&mut rng);
                    match rng.below(18) {
                        // an outstanding id / the refresh prefix with its two leading bytes altered: 8 bytes, but an
                        // action prefix the node never used (round-4 seed C12: only the low bytes were compared)
                        16 => events.push((at, format!("in #{k}^{} {other_src} r id={} values={forged_vals} {jn} {jn6} token={}", *rng.pick(&["01", "0001", "8000", "ff01"]), hex(&rng.bytes(20)), hex(&rng.bytes(4))))),
                        17 => events.push((at, format!("in R~fresh^{} {other_src} r id={} values={forged_vals} {jn} {jn6} token=none", *rng.pick(&["01", "0001", "8000"]), hex(&rng.bytes(20))))),
                        // the node answers its own query and, a moment later, a query the search sent to somebody
                        // else (the handler does not tie an id to the node it was sent to) with another token:
                        // the announce has to carry the latest one (round-3 seed C03)
                        14 | 15 if k > 0 => {
                            let j = k - 1 - rng.below((k as u64).min(3)) as usize;
                            events.push((at, good.clone()));
                            events.push((at + 1 + rng.below(200) as u128 * MS, format!("in #{j} {} r id={} values={vals} {jn} {jn6} token={}", addr_str(&nd.addr), hex(&nd.id), hex(&rng.bytes(7)))));
                            st.hit("net_hostile_two_answers_two_tokens");
                        }
                        // the outstanding id (or the refresh prefix) followed by further bytes: not an id of this node
                        12 => { let l = *rng.pick(&[1usize, 1, 4]); events.push((at, format!("in #{k}+{} {} r id={} values={forged_vals} {jn} {jn6} token={}", hex(&rng.bytes(l)), addr_str(&nd.addr), hex(&nd.id), hex(&rng.bytes(4))))) }
                        13 => events.push((at, format!("in R~fresh+{} {other_src} r id={} values={forged_vals} {jn} {jn6} token=none", hex(&rng.bytes(1)), hex(&rng.bytes(20))))),
                        0 => events.push((at, format!("in #{k}~fresh {} r id={} values={forged_vals} {jn} {jn6} token={}", addr_str(&nd.addr), hex(&nd.id), hex(&rng.bytes(4))))),
                        1 => events.push((at, format!("in x{} {} r id={} values={forged_vals} {jn} {jn6} token=none", hex(&rng.bytes(8)), addr_str(&nd.addr), hex(&nd.id)))),
                        2 => events.push((at, format!("in R~fresh {other_src} r id={} values={forged_vals} {jn} {jn6} token=none", hex(&rng.bytes(20))))),
                        3 => { events.push((at, good.clone())); events.push((at + rng.below(400) as u128 * MS, good.replace("values=-", &format!("values={forged_vals}")))); }
                        4 => events.push((at, format!("in #{k} {other_src} r id={} values={vals} {jn} {jn6} token={}", hex(&nd.id), hex(&rng.bytes(6))))),
                        5 => events.push((at, format!("in #{k} {} r id={} values={vals} {jn} {jn6} token={}", addr_str(&nd.addr), hex(&rng.bytes(20)), hex(&rng.bytes(6))))),
                        6 => events.push((t + 1600 * MS + rng.below(2000) as u128 * MS, good)),
                        7 => {}
                        8 => { events.push((at, good.clone())); events.push((at + 1, good.replace(&format!("token={}", hex_or_dash(&nd.token)), &format!("token={}", hex(&rng.bytes(5)))))); }
                        11 => { let tl = *rng.pick(&[256usize, 257, 1380]); events.push((at, format!("in #{k} {} r id={} values=- nodes=- nodes6=- token={}", addr_str(&nd.addr), hex(&nd.id), hex(&rng.bytes(tl))))); }
                        9 if k > 0 => events.push((at, format!("in #{} {} r id={} values={forged_vals} {jn} {jn6} token=none", rng.below(k as u64), addr_str(&nd.addr), hex(&nd.id)))),
                        _ => events.push((at, good)),
                    }
                }
            }
        }
        // next thing to happen: a delivery or a timer
        let c = ctx.as_mut().unwrap();
        let next_timer = c.h.timer_entries().first().map(|(d, _, _)| d.duration_since(c.clock.t0_std()).as_nanos());
        events.sort_by_key(|e| e.0);
        let next_ev = events.first().map(|e| e.0);
        let all_closed = looks_started == nlooks && c.looks.iter().all(|l| l.closed_at.is_some());
        if all_closed && (events.is_empty() || steps > 550) { break; }
        match (next_ev, next_timer) {
            (Some(e), Some(tm)) if e <= tm => { let (at, op) = events.remove(0); t = t.max(at); run!(format!("{op} @{t}")); }
            (Some(_), None) => { let (at, op) = events.remove(0); t = t.max(at); run!(format!("{op} @{t}")); }
            (_, Some(_)) => { run!("fire".to_string()); t = ctx.as_ref().unwrap().clock.now_ns(); }
            (None, None) => { if looks_started == nlooks { break; } }
        }
    }
    // C04: every search ends
    {
        let c = ctx.as_mut().unwrap();
        let pending = c.h.timer_entries().len();
        for (sid, li) in c.looks.iter().enumerate() {
            if li.closed_at.is_none() && pending == 0 {
                st.fail(case, out.len().saturating_sub(1), &format!("[C04] search {sid} never ends: its stream is open and no timeout is scheduled any more"));
            }
        }
    }
    // C02: on a truthful, answering network an announcing search ends having announced to exactly the 8 closest
    let c = ctx.as_mut().unwrap();
    if policy == "truthful" && !c.ro {
        let exp: HashSet<SocketAddr> = closest8(&nodes, &ih).iter().map(|i| nodes[*i].addr).collect();
        for (sid, li) in c.looks.iter().enumerate() {
            if li.closed_at.is_none() { continue }
            let got: HashSet<SocketAddr> = li.announces.iter().map(|(a, _)| *a).collect();
            if li.announce && (got != exp || li.announces.len() != exp.len()) {
                st.fail(case, out.len().saturating_sub(1), &format!("[C02] search {sid} announced to {} nodes, {} of them among the {} closest", li.announces.len(), got.intersection(&exp).count(), exp.len()));
            }
            for (a, tok) in &li.announces {
                if let Some(nd) = nodes.iter().find(|x| x.addr == *a) {
                    // the token of that node's latest answer to *this* search (several searches may run at once,
                    // and a node may hand out another token with every answer)
                    let latest = li.tokens.get(&(nd.id.clone(), nd.addr));
                    if !nd.history.contains(tok) || latest != Some(tok) { st.fail(case, out.len().saturating_sub(1), "[C02] announce_peer carries another token than the one that very node issued"); }
                }
            }
            let mut y: Vec<String> = li.yielded.iter().map(addr_str).collect();
            let mut v: Vec<String> = li.accepted_values.iter().map(addr_str).collect();
            y.sort(); v.sort();
            if y != v && !li.dropped { st.fail(case, out.len().saturating_sub(1), "[C02] the search stream did not deliver every peer of every answer once per occurrence"); }
            st.hit("c02_checked");
        }
    }
    let now = ctx.as_ref().unwrap().clock.now_ns();
    run!(format!("dump @{now}"));
}
