//! C07: the real `AnnounceStorage` under the virtual clock against the Lean `Storage` model, and
//! against this file's own map-based oracle (distinct pairs, 24 h, 500-pair capacity).
use crate::{rng::Rng, util::*, Engine};
use btdht::verif::AnnounceStorage;
use btdht::InfoHash;
use std::collections::HashMap;
use std::net::SocketAddr;

#[derive(Default)]
pub struct StorageEngine;

const S: u128 = 1_000_000_000;
const DAY: u128 = 24 * 3600 * S;
const CAP: usize = 500;

fn mk_addr(rng: &mut Rng, pool: u64, v6: bool) -> String {
    let i = rng.below(pool);
    if v6 {
        let mut ip = vec![0x20u8, 0x01, 0x0d, 0xb8];
        ip.extend_from_slice(&[0u8; 8]);
        ip.extend_from_slice(&(i as u32).to_be_bytes());
        format!("v6:{}:{}", hex(&ip), 1000 + i % 7)
    } else {
        format!("v4:{}:{}", hex(&[10, (i >> 16) as u8, (i >> 8) as u8, i as u8]), 6881 + i % 5)
    }
}

impl Engine for StorageEngine {
    fn gen_case(&mut self, rng: &mut Rng, idx: usize, thorough: bool) -> Vec<String> {
        let mut ops = vec![];
        let mut t: u128 = rng.below(100) as u128 * S;
        let nih = *rng.pick(&[1usize, 2, 5, 40]);
        let ihs: Vec<String> = (0..nih).map(|_| hex(&rng.bytes(20))).collect();
        let capacity_case = idx % 3 == 2;
        let pool: u64 = if capacity_case { 700 } else { *rng.pick(&[3u64, 10, 60]) };
        let n = if capacity_case { if thorough { 6000 } else { 1500 } } else if thorough { 2000 } else { 250 };
        let mut recent: Vec<(String, String, u128)> = vec![]; // (ih, addr, time of add)
        for k in 0..n {
            // time step
            let filling = capacity_case && k < 1000;
            let g = if filling {
                rng.below(2 * S as u64) as u128
            } else if capacity_case {
                match rng.below(400) {
                    0 => DAY / 2,
                    1 => DAY - 1,
                    2 => rng.below(3600) as u128 * S,
                    _ => rng.below(2 * S as u64) as u128,
                }
            } else {
                match rng.below(24) {
                    0 => DAY,
                    1 => DAY - 1,
                    2 => DAY + 1,
                    3 => 3 * DAY,
                    4 | 5 => rng.below(12 * 3600) as u128 * S,
                    6 | 7 => 0,
                    _ => rng.below(1800 * S as u64) as u128,
                }
            };
            t += g;
            // aim exactly at the expiry boundary of an earlier add
            if !filling && !recent.is_empty() && rng.chance(1, if capacity_case { 60 } else { 6 }) {
                let (_, _, at) = &recent[rng.below(recent.len() as u64) as usize];
                let target = at + DAY - 1 + rng.below(3) as u128;
                if target >= t {
                    t = target;
                }
            }
            let ih = rng.pick(&ihs).clone();
            let v6 = rng.chance(1, 4);
            if rng.chance(if capacity_case { 1 } else { 2 }, 5) || k == n - 1 {
                ops.push(format!("find {ih} @{t}"));
            } else if !recent.is_empty() && rng.chance(1, 4) {
                // re-announce a known pair
                let (rih, ra, _) = recent[rng.below(recent.len() as u64) as usize].clone();
                ops.push(format!("add {rih} {ra} @{t}"));
                recent.push((rih, ra, t));
            } else {
                let a = mk_addr(rng, pool, v6);
                ops.push(format!("add {ih} {a} @{t}"));
                recent.push((ih, a, t));
            }
            if recent.len() > 64 {
                recent.remove(0);
            }
        }
        ops
    }

    fn run_case(&mut self, case: usize, reqs: &[String], out: &mut Vec<(String, String)>, st: &mut Stats) {
        with_rt(case as u64, async {
            let clock = VClock::start();
            let mut store = AnnounceStorage::new();
            // oracle: (ih, addr) -> time of the last successful announce
            let mut oracle: HashMap<(Vec<u8>, SocketAddr), u128> = HashMap::new();
            for (k, req) in reqs.iter().enumerate() {
                let w: Vec<&str> = req.split_whitespace().collect();
                match w.as_slice() {
                    ["add", ih, a, t] => {
                        let (ihb, addr, t) = (unhex(ih).unwrap(), parse_addr(a).unwrap(), parse_at(t).unwrap());
                        clock.advance_to(t).await;
                        let mut id = [0u8; 20];
                        id.copy_from_slice(&ihb);
                        let ok = store.add_item(InfoHash::from(id), addr);
                        oracle.retain(|_, at| t - *at < DAY);
                        let key = (ihb, addr);
                        let expect = if oracle.contains_key(&key) {
                            st.hit(if oracle.len() >= CAP { "add_renew_at_capacity" } else { "add_renew" });
                            true
                        } else if oracle.len() < CAP {
                            st.hit("add_new");
                            true
                        } else {
                            st.hit("add_refused_full");
                            false
                        };
                        if expect {
                            oracle.insert(key, t);
                        }
                        if ok != expect {
                            st.fail(case, k, &format!("add returned {ok}, the store specification says {expect} ({} live pairs)", oracle.len()));
                        }
                        out.push((req.clone(), ok.to_string()));
                    }
                    ["find", ih, t] => {
                        let (ihb, t) = (unhex(ih).unwrap(), parse_at(t).unwrap());
                        clock.advance_to(t).await;
                        let mut id = [0u8; 20];
                        id.copy_from_slice(&ihb);
                        let got: Vec<SocketAddr> = store.find_items(&InfoHash::from(id)).collect();
                        oracle.retain(|_, at| t - *at < DAY);
                        let mut exp: Vec<String> = oracle.keys().filter(|(i, _)| *i == ihb).map(|(_, a)| addr_str(a)).collect();
                        exp.sort();
                        let mut g: Vec<String> = got.iter().map(addr_str).collect();
                        g.sort();
                        if g != exp {
                            st.fail(case, k, &format!("find returned {} addresses, the store specification says {} (distinct pairs announced within 24 h)", g.len(), exp.len()));
                        }
                        st.hit(if got.is_empty() { "find_empty" } else { "find_nonempty" });
                        let strs: Vec<String> = got.iter().map(addr_str).collect();
                        out.push((req.clone(), format!("[{}]", strs.join(","))));
                    }
                    _ => out.push((req.clone(), "bad-op".into())),
                }
            }
        })
    }
}
