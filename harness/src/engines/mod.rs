pub mod bep42;
pub mod tid;

use crate::Engine;

pub fn make(name: &str) -> Option<Box<dyn Engine>> {
    match name {
        "bep42" => Some(Box::new(bep42::Bep42::default())),
        "tid" => Some(Box::new(tid::Tid::default())),
        _ => None,
    }
}
