pub mod bep42;
pub mod codec;
pub mod handler;
pub mod node;
pub mod node_sim;
pub mod storage;
pub mod table;
pub mod tid;
pub mod token;

use crate::Engine;

pub fn make(name: &str) -> Option<Box<dyn Engine>> {
    match name {
        "bep42" => Some(Box::new(bep42::Bep42::default())),
        "codec" => Some(Box::new(codec::CodecEngine::default())),
        "handler" => Some(Box::new(handler::HandlerEngine::default())),
        "node" => Some(Box::new(node::NodeEngine::default())),
        "storage" => Some(Box::new(storage::StorageEngine::default())),
        "table" => Some(Box::new(table::TableEngine::default())),
        "tid" => Some(Box::new(tid::Tid::default())),
        "token" => Some(Box::new(token::TokenEngine::default())),
        _ => None,
    }
}
