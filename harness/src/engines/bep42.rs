//! C20: `InfoHash::from_ip` against the Lean model `fromIp` (with the observed random draws as
//! oracle input), against this file's own BEP42 validator (spec oracle), and the `crc32c` crate
//! against the Lean CRC model.
use crate::{rng::Rng, util::*, Engine};
use btdht::InfoHash;
use std::net::{IpAddr, Ipv4Addr, Ipv6Addr};

#[derive(Default)]
pub struct Bep42;

/// Independent table-less CRC-32C (bit by bit, MSB-first formulation on the reflected register).
pub fn own_crc32c(data: &[u8]) -> u32 {
    let mut crc: u32 = !0;
    for &b in data {
        crc ^= b as u32;
        for _ in 0..8 {
            let lsb = crc & 1;
            crc >>= 1;
            if lsb != 0 {
                crc ^= 0x82F6_3B78;
            }
        }
    }
    !crc
}

/// BEP42 validation written from the BEP text on 32/64-bit integers (not on byte arrays as the
/// implementation does): crc32c((ip & mask) | (r << 29)) for v4, ((ip_hi64 & mask) | (r << 61)) for v6.
pub fn own_bep42_valid(octets: &[u8], id: &[u8]) -> bool {
    if id.len() != 20 {
        return false;
    }
    let r = (id[19] & 7) as u64;
    let crc = if octets.len() == 4 {
        let ip = u32::from_be_bytes([octets[0], octets[1], octets[2], octets[3]]);
        let x = (ip & 0x030f_3fff) | ((r as u32) << 29);
        own_crc32c(&x.to_be_bytes())
    } else {
        let mut hi = [0u8; 8];
        hi.copy_from_slice(&octets[..8]);
        let ip = u64::from_be_bytes(hi);
        let x = (ip & 0x0103_070f_1f3f_7fff) | (r << 61);
        own_crc32c(&x.to_be_bytes())
    };
    let idtop = ((id[0] as u32) << 16) | ((id[1] as u32) << 8) | (id[2] as u32);
    (idtop >> 3) == (crc >> 11)
}

impl Engine for Bep42 {
    fn gen_case(&mut self, rng: &mut Rng, idx: usize, thorough: bool) -> Vec<String> {
        let mut ops = vec![];
        let n = if thorough { 400 } else { 60 };
        for k in 0..n {
            match rng.below(10) {
                0..=4 => {
                    // v4: walk the 2^20 classes of mask-relevant bits systematically, random rest
                    let class = ((idx * n + k) as u64).wrapping_mul(0x9E37_79B1) & 0xF_FFFF;
                    let rel = [
                        (class >> 18) as u8 & 0x03,
                        (class >> 14) as u8 & 0x0f,
                        (class >> 8) as u8 & 0x3f,
                        class as u8,
                    ];
                    let noise = rng.bytes(4);
                    let o = [
                        rel[0] | (noise[0] & !0x03),
                        rel[1] | (noise[1] & !0x0f),
                        rel[2] | (noise[2] & !0x3f),
                        rel[3],
                    ];
                    ops.push(format!("fromip {}", hex(&o)));
                }
                5 => ops.push(format!("fromip {}", hex(&rng.bytes(16)))),
                6 => {
                    // structured IPv6 addresses: IPv4-mapped and IPv4-compatible ones, zero /64
                    // prefixes, loopback / unspecified, documentation and link-local prefixes
                    let low = rng.bytes(8);
                    let v4 = rng.bytes(4);
                    let mut o = vec![0u8; 16];
                    match rng.below(7) {
                        0 => { o[10] = 0xff; o[11] = 0xff; o[12..].copy_from_slice(&v4); }
                        1 => { o[12..].copy_from_slice(&v4); }
                        2 => { o[8..].copy_from_slice(&low); }
                        3 => { o[15] = rng.below(2) as u8; }
                        4 => { o[0] = 0x20; o[1] = 0x01; o[2] = 0x0d; o[3] = 0xb8; o[8..].copy_from_slice(&low); }
                        5 => { o[0] = 0xfe; o[1] = 0x80; o[8..].copy_from_slice(&low); }
                        _ => { o[0] = 0x00; o[1] = 0x64; o[2] = 0xff; o[3] = 0x9b; o[12..].copy_from_slice(&v4); }
                    }
                    ops.push(format!("fromip {}", hex(&o)));
                }
                7 => {
                    // validator cross-check on a fresh or damaged id
                    let o = if rng.chance(1, 2) { rng.bytes(4) } else { rng.bytes(16) };
                    let ip = to_ip(&o);
                    let mut id: Vec<u8> = InfoHash::from_ip(ip).as_ref().to_vec();
                    match rng.below(4) {
                        0 => {}
                        1 => { let p = rng.below(3) as usize; id[p] ^= 1 << rng.below(8); }
                        2 => { id[19] ^= 1 << rng.below(8); }
                        _ => { id = rng.bytes(20); }
                    }
                    ops.push(format!("valid {} {}", hex(&o), hex(&id)));
                }
                _ => {
                    let len = *rng.pick(&[0usize, 1, 4, 8, 9, 31, 64]);
                    ops.push(format!("crc {}", hex_or_dash(&rng.bytes(len))));
                }
            }
        }
        // runs of calls on related addresses (the same thread serves them all): the same address many times, then
        // an address that agrees with it in its first octets only; an IPv4 address, then the IPv6 address whose
        // first four octets are those (round-4 seed C20: a per-thread memo of the CRC keyed by four octets)
        for _ in 0..2 {
            let mut a = rng.bytes(16);
            if rng.chance(1, 2) { a[0] = 0x20; a[1] = 0x01; a[2] = 0x0d; a[3] = 0xb8; }
            for _ in 0..rng.range(8, 20) { ops.push(format!("fromip {}", hex(&a))); }
            let mut b = a.clone();
            let p = rng.range(4, 7) as usize;
            b[p] ^= 1 << rng.below(8);
            for _ in 0..rng.range(3, 10) { ops.push(format!("fromip {}", hex(&b))); }
            let v4 = rng.bytes(4);
            for _ in 0..rng.range(8, 16) { ops.push(format!("fromip {}", hex(&v4))); }
            let mut c = vec![0u8; 16];
            c[..4].copy_from_slice(&v4);
            c[4 + rng.below(4) as usize] = rng.range(1, 255) as u8;
            for _ in 0..rng.range(3, 10) { ops.push(format!("fromip {}", hex(&c))); }
        }
        if idx == 0 {
            ops.push("crc 313233343536373839".into());
            ops.push("fromip 00000000".into());
            ops.push("fromip ffffffff".into());
            ops.push(format!("fromip {}", hex(&[0u8; 16])));
            ops.push(format!("fromip {}", hex(&[0xffu8; 16])));
        }
        ops
    }

    fn run_case(&mut self, case: usize, reqs: &[String], out: &mut Vec<(String, String)>, st: &mut Stats) {
        for (k, req) in reqs.iter().enumerate() {
            let w: Vec<&str> = req.split_whitespace().collect();
            match w.as_slice() {
                ["fromip", o] => {
                    let o = unhex(o).unwrap();
                    let id: Vec<u8> = InfoHash::from_ip(to_ip(&o)).as_ref().to_vec();
                    st.hit(if o.len() == 4 { "fromip_v4" } else { "fromip_v6" });
                    if !own_bep42_valid(&o, &id) {
                        st.fail(case, k, &format!("from_ip({}) = {} fails the BEP42 check", hex(&o), hex(&id)));
                    }
                    let op = format!(
                        "fromip {} ~r={} ~r2={} ~rest={}",
                        hex(&o), id[19], id[2] & 7, hex(&id[3..19])
                    );
                    out.push((op, hex(&id)));
                }
                ["valid", o, id] => {
                    let (o, id) = (unhex(o).unwrap(), unhex(id).unwrap());
                    let v = own_bep42_valid(&o, &id);
                    st.hit(if v { "valid_true" } else { "valid_false" });
                    out.push((req.clone(), v.to_string()));
                }
                ["crc", h] => {
                    let b = unhex(h).unwrap();
                    let c = crc32c::crc32c_append(0, &b);
                    if c != own_crc32c(&b) {
                        st.fail(case, k, &format!("crc32c crate disagrees with bitwise CRC-32C on {}", hex(&b)));
                    }
                    st.hit("crc");
                    out.push((req.clone(), c.to_string()));
                }
                _ => out.push((req.clone(), "bad-op".into())),
            }
        }
    }
}

fn to_ip(o: &[u8]) -> IpAddr {
    if o.len() == 4 {
        IpAddr::V4(Ipv4Addr::new(o[0], o[1], o[2], o[3]))
    } else {
        let mut a = [0u8; 16];
        a.copy_from_slice(o);
        IpAddr::V6(Ipv6Addr::from(a))
    }
}
