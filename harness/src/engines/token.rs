//! C06: the real `TokenStore` under the virtual clock against the Lean `TokenStore` model.
//! Real secrets (read through the hook) are canonicalised to the order in which they were drawn;
//! real tokens are mapped to terms after checking, with this harness's own SHA-1, that
//! token == SHA1(ip octets ‖ secret_be32).
//! Spec oracle (independent of the model): accept within 600 s from the same IP; refuse at
//! >= 1800 s, from another IP, and junk.
use crate::{rng::Rng, sha1::sha1, util::*, Engine};
use btdht::verif::{Token, TokenStore};
use std::collections::HashMap;
use std::net::{IpAddr, Ipv4Addr, Ipv6Addr};

#[derive(Default)]
pub struct TokenEngine;

const S: u128 = 1_000_000_000;

fn to_ip(o: &[u8]) -> IpAddr {
    if o.len() == 4 {
        IpAddr::V4(Ipv4Addr::new(o[0], o[1], o[2], o[3]))
    } else {
        let mut a = [0u8; 16];
        a.copy_from_slice(o);
        IpAddr::V6(Ipv6Addr::from(a))
    }
}

fn gap(rng: &mut Rng) -> u128 {
    match rng.below(40) {
        0 => 0,
        1 => 1,
        2 => 600 * S - 1,
        3 => 600 * S,
        4 => 600 * S + 1,
        5 => 599 * S + rng.below(S as u64) as u128,
        6 => 1199 * S + rng.below(2 * S as u64) as u128,
        7 => 1200 * S,
        8 => 1800 * S,
        9 => rng.below(3 * 3600) as u128 * S,
        10 => rng.below(1200) as u128 * S + rng.below(S as u64) as u128,
        _ => rng.below(90) as u128 * S + rng.below(S as u64) as u128,
    }
}

impl Engine for TokenEngine {
    fn gen_case(&mut self, rng: &mut Rng, _idx: usize, thorough: bool) -> Vec<String> {
        let n = if thorough { 2000 } else { 150 };
        let mut ips: Vec<Vec<u8>> = vec![];
        for _ in 0..rng.range(1, 4) {
            ips.push(if rng.chance(1, 3) { rng.bytes(16) } else { rng.bytes(4) });
        }
        // IPv6 addresses that differ only in how they embed the same IPv4 bytes: different hosts
        if rng.chance(1, 2) {
            let low = [rng.byte(), rng.byte(), rng.byte(), rng.byte()];
            ips.push(structured_v6(0, low));
            ips.push(structured_v6(1, low));
            if rng.chance(1, 2) { ips.push(low.to_vec()); }
        }
        // two addresses differing in one bit
        let mut near = ips[0].clone();
        let l = near.len();
        near[l - 1] ^= 1;
        ips.push(near);
        let mut t: u128 = rng.below(1000) as u128 * S;
        let mut ops = vec![format!("new @{t}")];
        let mut issued: Vec<(usize, u128)> = vec![]; // (ip index, time)
        if _idx % 3 == 2 {
            // replay style (round-3 seed C06 "memo of the last accepted pair"): one token is accepted
            // once, then the node sees steady traffic that accepts nothing else (checkouts, junk, tokens
            // from wrong addresses), every gap short enough for single-step rotations, and the same
            // token is presented again and again until well after its 30 minutes
            let rounds = if thorough { 12 } else { 3 };
            for _ in 0..rounds {
                t += gap(rng);
                let vip = rng.below(ips.len() as u64) as usize;
                ops.push(format!("checkout {} @{t}", hex(&ips[vip])));
                let victim = issued.len();
                issued.push((vip, t));
                let t_issue = t;
                t += rng.below(500) as u128 * S + rng.below(S as u64) as u128;
                ops.push(format!("checkin {} #{victim} @{t}", hex(&ips[vip])));
                let until = t_issue + rng.range(1800, 4200) as u128 * S;
                let represent_early = rng.chance(1, 2);
                while t < until {
                    t += match rng.below(6) { 0 => 599 * S, 1 => 600 * S, 2 => rng.below(1100) as u128 * S, _ => rng.below(540) as u128 * S } + rng.below(S as u64) as u128;
                    let other = (vip + 1 + rng.below(ips.len() as u64 - 1) as usize) % ips.len();
                    match rng.below(6) {
                        0 => ops.push(format!("checkin {} raw:{} @{t}", hex(&ips[other]), hex(&rng.bytes(20)))),
                        1 => ops.push(format!("checkin {} #{victim} @{t}", hex(&ips[other]))),
                        2 if represent_early || t >= t_issue + 1800 * S => ops.push(format!("checkin {} #{victim} @{t}", hex(&ips[vip]))),
                        _ => { ops.push(format!("checkout {} @{t}", hex(&ips[other]))); issued.push((other, t)); }
                    }
                }
                for d in [0u128, 1, 600 * S, 1300 * S] {
                    let at = (t_issue + 1800 * S + d).max(t);
                    t = at;
                    ops.push(format!("checkin {} #{victim} @{t}", hex(&ips[vip])));
                }
            }
            return ops;
        }
        for _ in 0..n {
            t += gap(rng);
            let ipi = rng.below(ips.len() as u64) as usize;
            if issued.is_empty() || rng.chance(2, 5) {
                ops.push(format!("checkout {} @{t}", hex(&ips[ipi])));
                issued.push((ipi, t));
            } else if rng.chance(1, 12) {
                ops.push(format!("checkin {} raw:{} @{t}", hex(&ips[ipi]), hex(&rng.bytes(20))));
            } else {
                // mostly recent tokens; sometimes aim exactly at the boundaries of an old one
                let k = if rng.chance(3, 4) {
                    issued.len() - 1 - rng.below(issued.len().min(4) as u64) as usize
                } else {
                    rng.below(issued.len() as u64) as usize
                };
                let (kip, kt) = issued[k];
                if rng.chance(1, 3) {
                    let target = kt + *rng.pick(&[600 * S - 1, 600 * S, 600 * S + 1, 1200 * S, 1800 * S - 1, 1800 * S]);
                    if target >= t {
                        t = target;
                    }
                }
                let from = if rng.chance(4, 5) { kip } else { ipi };
                ops.push(format!("checkin {} #{k} @{t}", hex(&ips[from])));
            }
        }
        ops
    }

    fn run_case(&mut self, case: usize, reqs: &[String], out: &mut Vec<(String, String)>, st: &mut Stats) {
        with_rt(case as u64, async {
            let clock = VClock::start();
            let mut store: Option<TokenStore> = None;
            let mut idx: HashMap<u32, usize> = HashMap::new(); // secret -> draw order
            let mut tokens: Vec<(Vec<u8>, [u8; 20], u128)> = vec![]; // (ip, token bytes, issue time)
            let mut collided = false;
            let fmt = |s: &TokenStore, idx: &HashMap<u32, usize>, clock: &VClock| {
                let (c, l, lr) = s.verif_state();
                let lr_ns = lr.duration_since(clock.t0_std()).as_nanos();
                format!("c={} l={} lr={}", idx[&c], idx[&l], lr_ns)
            };
            for (k, req) in reqs.iter().enumerate() {
                if collided {
                    break;
                }
                let w: Vec<&str> = req.split_whitespace().collect();
                // register freshly drawn secrets in draw order: on rotation `last` may be drawn first
                let register = |s: &TokenStore, idx: &mut HashMap<u32, usize>, curr_first: bool, collided: &mut bool| {
                    let (c, l, _) = s.verif_state();
                    let order = if curr_first { [c, l] } else { [l, c] };
                    let fresh: Vec<u32> = order.iter().copied().filter(|x| !idx.contains_key(x)).collect();
                    if c == l {
                        *collided = true;
                    }
                    for x in fresh {
                        let n = idx.len();
                        idx.insert(x, n);
                    }
                };
                match w.as_slice() {
                    ["new", t] => {
                        clock.advance_to(parse_at(t).unwrap()).await;
                        let s = TokenStore::new();
                        idx.clear();
                        tokens.clear();
                        register(&s, &mut idx, true, &mut collided);
                        out.push((req.clone(), format!("ok | {}", fmt(&s, &idx, &clock))));
                        store = Some(s);
                        st.hit("new");
                    }
                    ["checkout", ip, t] => {
                        let ipb = unhex(ip).unwrap();
                        let t = parse_at(t).unwrap();
                        clock.advance_to(t).await;
                        let Some(s) = store.as_mut() else { out.push((req.clone(), "no-store".into())); continue };
                        let before = s.verif_state();
                        let n_before = idx.len();
                        let tok = s.checkout(to_ip(&ipb));
                        register(s, &mut idx, false, &mut collided);
                        if idx.len() - n_before != match (s.verif_state().0 != before.0, s.verif_state().1 != before.1 && s.verif_state().1 != before.0) { (true, true) => 2, (true, false) => 1, _ => 0 } {
                            collided = true; // a fresh secret equals an old one (2^-32): skip the rest
                        }
                        let (c, _, _) = s.verif_state();
                        let mut buf = ipb.clone();
                        buf.extend_from_slice(&c.to_be_bytes());
                        let tb: [u8; 20] = tok.into();
                        let res = if sha1(&buf) == tb {
                            format!("tok {} {}", hex(&ipb), idx[&c])
                        } else {
                            st.fail(case, k, "token is not SHA1(ip ‖ current secret)");
                            format!("raw {}", hex(&tb))
                        };
                        tokens.push((ipb, tb, t));
                        match (s.verif_state().0 != before.0, s.verif_state().1 == before.0) {
                            (false, _) => st.hit("checkout_no_rotation"),
                            (true, true) => st.hit("checkout_rotate_one"),
                            (true, false) => st.hit("checkout_rotate_both"),
                        }
                        out.push((req.clone(), format!("{res} | {}", fmt(s, &idx, &clock))));
                    }
                    ["checkin", ip, tokref, t] => {
                        let ipb = unhex(ip).unwrap();
                        let t = parse_at(t).unwrap();
                        clock.advance_to(t).await;
                        let Some(s) = store.as_mut() else { out.push((req.clone(), "no-store".into())); continue };
                        let before = s.verif_state();
                        let (tb, meta): ([u8; 20], Option<(Vec<u8>, u128)>) = if let Some(k) = tokref.strip_prefix('#') {
                            let k: usize = k.parse().unwrap();
                            match tokens.get(k) {
                                Some((tip, tb, tt)) => (*tb, Some((tip.clone(), *tt))),
                                None => ([0u8; 20], None),
                            }
                        } else {
                            let raw = unhex(tokref.strip_prefix("raw:").unwrap()).unwrap();
                            let mut b = [0u8; 20];
                            b.copy_from_slice(&raw);
                            (b, None)
                        };
                        let ok = s.checkin(to_ip(&ipb), Token::from(tb));
                        register(s, &mut idx, false, &mut collided);
                        // the property's own oracle
                        match &meta {
                            Some((tip, tt)) => {
                                let age = t - tt;
                                if *tip == ipb && age <= 600 * S && !ok {
                                    st.fail(case, k, &format!("token refused from its own IP after {age} ns (<= 10 min)"));
                                }
                                if ok && age >= 1800 * S {
                                    st.fail(case, k, &format!("token accepted after {age} ns (>= 30 min)"));
                                }
                                if ok && *tip != ipb {
                                    st.fail(case, k, "token accepted from a different IP");
                                }
                                st.hit(if ok { "checkin_accept" } else if *tip != ipb { "checkin_refuse_other_ip" } else { "checkin_refuse_old" });
                                if *tip == ipb {
                                    st.hit(&format!("age_bucket_{}", (age / (300 * S)).min(7)));
                                }
                            }
                            None => {
                                if ok {
                                    st.fail(case, k, "a token that was never issued was accepted");
                                }
                                st.hit("checkin_junk");
                            }
                        }
                        if s.verif_state().0 != before.0 {
                            st.hit("checkin_rotates");
                        }
                        out.push((req.clone(), format!("{ok} | {}", fmt(s, &idx, &clock))));
                    }
                    _ => out.push((req.clone(), "bad-op".into())),
                }
            }
            if collided {
                st.hit("secret_collision_case_truncated");
            }
        })
    }
}
