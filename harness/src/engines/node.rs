//! C01 C11 C15 C16 C18 (and the node-level clauses of C05 C14 C17 C19): real `MainlineDht`
//! instances — handler task, bootstrap task, socket layer, API — on an in-memory network under a
//! virtual clock. One operation is one external input (a datagram, an API call, letting time pass);
//! its result line is everything the nodes did in reaction, in order, taken from the `vtrace!`
//! event trace of the real code. The Lean node model (`Btdht.Model.Dht`) replays the same inputs.
use crate::memnet::MemSocket;
use crate::msgtext::*;
use crate::rng::Rng;
use crate::util::*;
use crate::Engine;
use btdht::message::*;
use btdht::{InfoHash, MainlineDht};
use futures_util::{FutureExt, StreamExt};
use std::collections::{BTreeMap, HashMap, HashSet};
use std::net::SocketAddr;
use std::sync::Arc;
use tokio::sync::Notify;

const S: u128 = 1_000_000_000;
const MS: u128 = 1_000_000;

fn id_of(b: &[u8]) -> InfoHash {
    let mut a = [0u8; 20];
    a.copy_from_slice(b);
    InfoHash::from(a)
}

#[derive(Default)]
pub struct NodeEngine;

struct RealNode {
    dht: MainlineDht,
    sock: MemSocket,
    id: Vec<u8>,
    ro: bool,
    waiters: usize,
    streams: usize,
}

/// one event of the trace, canonical
#[derive(Clone, Debug)]
pub struct Ev {
    pub t: u128,
    pub node: usize,
    pub text: String,
    /// for `W` events: destination, raw datagram
    pub sent: Option<(SocketAddr, Vec<u8>, bool)>,
}

pub struct World {
    clock: VClock,
    notify: Arc<Notify>,
    nodes: BTreeMap<usize, RealNode>,
    by_addr: HashMap<SocketAddr, usize>,
    /// transaction ids of queries sent by real nodes, `#k` by first appearance
    /// (owner node, id bytes): two nodes may draw the same 8 bytes
    names: Vec<(usize, Vec<u8>)>,
    name_idx: HashMap<(usize, Vec<u8>), usize>,
    known: HashSet<(usize, Vec<u8>)>,
    /// tokens seen in replies of real nodes, `K<n>` by first appearance
    toks: Vec<Vec<u8>>,
    tok_known: HashSet<Vec<u8>>,
    pub last: Vec<Ev>,
    /// for a racing / combo op: (node, instant, the order in which its inputs, the worker's polls,
    /// the handler's timer entries and its looks at the worker's state occurred at that instant)
    last_sched: Option<(usize, u128, String)>,
    /// a node with a slow socket was started: its task interleavings are not modelled, every further
    /// line is excluded from the lockstep comparison (the oracles still apply)
    force_unmodelled: bool,
}

/// an API call, carried out now or from a task that wakes at the op's instant
enum ApiCall { Bootstrapped(usize), Search(usize, Vec<u8>, bool), State, Contacts, Addr }

thread_local! {
    /// the tasks waiting in `bootstrapped()`: (node address, waiter number, handle, cancelled)
    static WAITERS: std::cell::RefCell<Vec<(SocketAddr, usize, tokio::task::AbortHandle, bool)>> = std::cell::RefCell::new(vec![]);
}

/// `api <k> cancel`: the caller of the oldest `bootstrapped()` call of the node that is still pending
/// gives up (its future is dropped, as under a time-out); nothing tells the handler
fn cancel_oldest_waiter(me: SocketAddr) -> Option<usize> {
    WAITERS.with(|w| {
        let mut w = w.borrow_mut();
        let mut best: Option<usize> = None;
        for (idx, e) in w.iter().enumerate() {
            if e.0 == me && !e.3 && !e.2.is_finished() && best.map(|b| e.1 < w[b].1).unwrap_or(true) { best = Some(idx) }
        }
        let idx = best?;
        w[idx].2.abort();
        w[idx].3 = true;
        Some(w[idx].1)
    })
}

fn do_api(dht: MainlineDht, me: SocketAddr, call: ApiCall) {
    match call {
        ApiCall::Bootstrapped(i) => {
            let h = tokio::spawn(async move {
                let r = dht.bootstrapped().await;
                btdht::verif::trace(|| format!("{me} X resolved {i} {r}"));
            });
            WAITERS.with(|w| w.borrow_mut().push((me, i, h.abort_handle(), false)));
        }
        ApiCall::Search(sid, ih, ann) => {
            let mut stream = dht.search(id_of(&ih), ann);
            tokio::spawn(async move {
                while let Some(a) = stream.next().await {
                    btdht::verif::trace(|| format!("{me} X yield {sid} {}", addr_str(&a)));
                }
                btdht::verif::trace(|| format!("{me} X closed {sid}"));
            });
        }
        ApiCall::State => {
            tokio::spawn(async move {
                let s = dht.get_state().await;
                btdht::verif::trace(|| match s {
                    Some(s) => format!("{me} X state run={} boot={} good={} quest={} buckets={}", s.is_running, s.bootstrapped, s.good_node_count, s.questionable_node_count, s.bucket_count),
                    None => format!("{me} X state dead"),
                });
            });
        }
        ApiCall::Contacts => {
            tokio::spawn(async move {
                let s = dht.load_contacts().await;
                btdht::verif::trace(|| match s {
                    Ok((g, q)) => {
                        let mut g: Vec<String> = g.iter().map(addr_str).collect();
                        let mut q: Vec<String> = q.iter().map(addr_str).collect();
                        g.sort();
                        q.sort();
                        format!("{me} X contacts good=[{}] quest=[{}]", g.join(","), q.join(","))
                    }
                    Err(_) => format!("{me} X contacts dead"),
                });
            });
        }
        ApiCall::Addr => {
            tokio::spawn(async move {
                let s = dht.local_addr().await;
                btdht::verif::trace(|| match s { Ok(a) => format!("{me} X addr {}", addr_str(&a)), Err(_) => format!("{me} X addr dead") });
            });
        }
    }
}

fn ns_of(t: std::time::Instant, t0: std::time::Instant) -> u128 {
    t.duration_since(t0).as_nanos()
}

impl World {
    fn new() -> World {
        let notify = Arc::new(Notify::new());
        btdht::verif::trace_enable(Some(notify.clone()));
        World { clock: VClock::start(), notify, nodes: BTreeMap::new(), by_addr: HashMap::new(), names: vec![], name_idx: HashMap::new(), known: HashSet::new(), toks: vec![], tok_known: HashSet::new(), last: vec![], last_sched: None, force_unmodelled: false }
    }
    pub fn now(&self) -> u128 { self.clock.now_ns() }

    /// let every runnable task run until nothing happens any more (no clock movement)
    async fn settle(&mut self, raw: &mut Vec<(std::time::Instant, String)>) {
        let m = tokio::runtime::Handle::current().metrics();
        let mut quiet = 0;
        while quiet < 3 {
            tokio::task::yield_now().await;
            let new = btdht::verif::trace_take();
            let busy_blocking = m.num_blocking_threads() - m.num_idle_blocking_threads() + m.blocking_queue_depth();
            let queued = m.worker_local_queue_depth(0) + m.global_queue_depth();
            if new.is_empty() && busy_blocking == 0 && queued == 0 { quiet += 1 } else { quiet = 0; raw.extend(new) }
            if busy_blocking > 0 && queued == 0 {
                // a blocking helper thread (name resolution) is still at work: wait for it in real time
                std::thread::sleep(std::time::Duration::from_micros(200));
            }
        }
    }

    /// move the clock to `t`; timers fire in deadline order on the way
    async fn sleep_to(&mut self, t: u128, raw: &mut Vec<(std::time::Instant, String)>) {
        if t > self.now() {
            let d = t - self.now();
            tokio::time::sleep(std::time::Duration::new((d / S) as u64, (d % S) as u32)).await;
        }
        self.settle(raw).await;
    }

    /// sleep towards `limit`, but come back as soon as a node did something; returns the time
    async fn sleep_until_activity(&mut self, limit: u128, raw: &mut Vec<(std::time::Instant, String)>) -> u128 {
        let _ = self.notify.notified().now_or_never();
        if limit > self.now() {
            let d = limit - self.now();
            tokio::select! {
                biased;
                _ = self.notify.notified() => {}
                _ = tokio::time::sleep(std::time::Duration::new((d / S) as u64, (d % S) as u32)) => {}
            }
        }
        self.settle(raw).await;
        self.now()
    }

    /// `{owner:hex}` for an id the real node `owner` drew (named `#k` when the line is rendered),
    /// `x<hex>` otherwise; `own`: node `owner` is using it as its own id right now
    fn tid_str(&mut self, owner: usize, tid: &[u8], own: bool) -> String {
        if own { self.known.insert((owner, tid.to_vec())); }
        if self.known.contains(&(owner, tid.to_vec())) { format!("{{{owner}:{}}}", hex(tid)) } else { format!("x{}", hex_or_dash(tid)) }
    }
    /// the id echoed in a reply of node `k` to `dst`: the destination's own id if it is a real node's, else `k`'s
    fn echo_str(&mut self, k: usize, dst: &SocketAddr, tid: &[u8]) -> String {
        if let Some(d) = self.by_addr.get(dst).copied() {
            if self.known.contains(&(d, tid.to_vec())) { return self.tid_str(d, tid, false) }
        }
        self.tid_str(k, tid, false)
    }
    /// `<hex>` placeholder of a token issued by a real node (named `K<n>` at rendering)
    fn tok_str(&mut self, tok: &[u8]) -> String {
        if !self.tok_known.contains(tok) { self.tok_known.insert(tok.to_vec()); }
        format!("<{}>", hex(tok))
    }
    /// names by first appearance in the canonical line
    fn rename(&mut self, line: &str) -> String {
        let mut res = String::with_capacity(line.len());
        let mut rest = line;
        loop {
            let i = match (rest.find('{'), rest.find('<')) { (Some(a), Some(b)) => a.min(b), (Some(a), None) => a, (None, Some(b)) => b, (None, None) => break };
            res.push_str(&rest[..i]);
            let open = rest.as_bytes()[i];
            let close = if open == b'{' { '}' } else { '>' };
            let j = rest[i..].find(close).map(|j| i + j).unwrap_or(rest.len() - 1);
            if open == b'{' {
                let (o, h) = rest[i + 1..j].split_once(':').unwrap_or(("0", ""));
                let key = (o.parse::<usize>().unwrap_or(0), unhex(h).unwrap_or_default());
                let k = match self.name_idx.get(&key) { Some(k) => *k, None => { self.names.push(key.clone()); self.name_idx.insert(key, self.names.len() - 1); self.names.len() - 1 } };
                res.push_str(&format!("#{k}"));
            } else {
                let bytes = unhex(&rest[i + 1..j]).unwrap_or_default();
                let k = match self.toks.iter().position(|n| *n == bytes) { Some(k) => k, None => { self.toks.push(bytes); self.toks.len() - 1 } };
                res.push_str(&format!("K{k}"));
            }
            rest = &rest[j + 1..];
        }
        res.push_str(rest);
        res
    }
    /// message text without the `t=` word; tokens of real nodes' replies named `K<n>`
    fn body_text(&mut self, m: &Message, from_real_reply: bool) -> String {
        let full = msg_to_text(m);
        let mut words: Vec<String> = full.split_whitespace().filter(|w| !w.starts_with("t=")).map(|s| s.to_string()).collect();
        for w in words.iter_mut() {
            if let Some(t) = w.strip_prefix("token=") {
                if t != "none" && t != "-" {
                    let b = unhex(t).unwrap();
                    if from_real_reply || self.tok_known.contains(&b) {
                        *w = format!("token={}", self.tok_str(&b));
                    }
                }
            }
        }
        words.join(" ")
    }

    /// raw trace lines -> canonical events
    fn canon(&mut self, raw: Vec<(std::time::Instant, String)>) -> Vec<Ev> {
        let t0 = self.clock.t0_std();
        let mut out = vec![];
        for (t, line) in raw {
            let (addr, rest) = line.split_once(' ').unwrap_or((&line, ""));
            let node = addr.parse::<SocketAddr>().ok().and_then(|a| self.by_addr.get(&a).copied()).unwrap_or(usize::MAX);
            let w: Vec<&str> = rest.split_whitespace().collect();
            let mut sent = None;
            let text = match (w.first().copied(), w.get(1).copied()) {
                (Some("W"), Some("send")) => {
                    let dst: SocketAddr = w[2].parse().unwrap();
                    let ok = w[3] == "ok";
                    let bytes = unhex(w[4]).unwrap_or_default();
                    let s = match Message::decode(&bytes) {
                        Ok(m) => {
                            let is_q = matches!(m.body, MessageBody::Request(_));
                            let is_reply = matches!(m.body, MessageBody::Response(_));
                            let t = if is_q { self.tid_str(node, &m.transaction_id, true) } else { self.echo_str(node, &dst, &m.transaction_id) };
                            format!("W {}/{}/t={t} {}", addr_str(&dst), w[3], self.body_text(&m, is_reply))
                        }
                        Err(_) => format!("W {}/{}/undecodable:{}", addr_str(&dst), w[3], bytes.len()),
                    };
                    sent = Some((dst, bytes, ok));
                    s
                }
                (Some("H"), Some("timer")) => match w[2] {
                    "refresh" => "H timer refresh".to_string(),
                    "lookup_timeout" => format!("H timer timeout:{}", self.tid_str(node, &unhex(w[3]).unwrap(), true)),
                    _ => format!("H timer endgame:{}", self.tid_str(node, &unhex(w[3]).unwrap(), true)),
                },
                (Some("H"), Some("msg")) | (Some("S"), Some("routed")) | (Some("S"), Some("undecodable")) | (Some("B"), Some("handled")) | (Some("B"), Some("ignored")) => {
                    let a: SocketAddr = w[2].parse().unwrap();
                    format!("{} {} {}", w[0], w[1], addr_str(&a))
                }
                _ => rest.to_string(),
            };
            out.push(Ev { t: ns_of(t, t0), node, text, sent });
        }
        out
    }

    /// canonical result line: events grouped by instant, then by node (per-node order kept); in
    /// each group the API-side events (`X ...`, logged by other tasks) come last, resolutions
    /// first among them and ordered by waiter; `H bstate false` (a no-op) is dropped
    fn render(&mut self, evs: &[Ev]) -> String {
        let mut evs: Vec<Ev> = evs.iter().filter(|e| e.text != "H bstate false").cloned().collect();
        evs.sort_by_key(|e| (e.t, e.node)); // stable
        let mut out: Vec<Ev> = vec![];
        let mut i = 0;
        while i < evs.len() {
            let mut j = i;
            while j < evs.len() && evs[j].t == evs[i].t && evs[j].node == evs[i].node { j += 1 }
            let g = &evs[i..j];
            out.extend(g.iter().filter(|e| !e.text.starts_with("X ")).cloned());
            let mut res: Vec<Ev> = g.iter().filter(|e| e.text.starts_with("X resolved")).cloned().collect();
            res.sort_by_key(|e| e.text.split_whitespace().nth(2).and_then(|x| x.parse::<usize>().ok()).unwrap_or(0));
            out.extend(res);
            out.extend(g.iter().filter(|e| e.text.starts_with("X ") && !e.text.starts_with("X resolved")).cloned());
            i = j;
        }
        let mut parts = vec![];
        let mut last_t = None;
        for e in &out {
            let p = if last_t != Some(e.t) { last_t = Some(e.t); format!("@{} n{} {}", e.t, e.node, e.text) } else { format!("n{} {}", e.node, e.text) };
            parts.push(p);
        }
        let line = parts.join(" ; ");
        // the events keep the rendered names too (the simulator and the oracles read them)
        self.rename(&line)
    }

    /// oracle annotations of an op, derived from what the real nodes did: the order in which the
    /// first-round contacts (a hash set) were visited; a worker step that preceded a timer step of
    /// the handler at the same instant
    pub fn hints(&self) -> String {
        let mut fr = vec![];
        let mut bfirst: Vec<usize> = vec![];
        let mut ambiguous = false;
        for (i, e) in self.last.iter().enumerate() {
            if e.text.starts_with("W ") && e.text.contains(" q find_node ") {
                let w: Vec<&str> = e.text.split_whitespace().collect();
                if let (Some(id), Some(tg)) = (kv(&w, "id"), kv(&w, "target")) {
                    if id == tg { fr.push(format!("{}/{}", e.node, w[1].split('/').next().unwrap_or(""))); }
                }
            }
            // at the instant of a racing op the order is spelt out in `~sched`
            if self.last_sched.as_ref().map(|(k, t, _)| *k == e.node && *t == e.t).unwrap_or(false) { continue }
            if e.text.starts_with("H timer") {
                let before: Vec<&Ev> = self.last[..i].iter().filter(|p| p.t == e.t && p.node == e.node).collect();
                if before.iter().any(|p| p.text.starts_with("B ")) {
                    if !bfirst.contains(&e.node) { bfirst.push(e.node) }
                    // the handler then had its timer and the worker's new state ready at once and
                    // picks one at random: not modelled when the new state is Bootstrapped, nor
                    // when handler steps surround the worker's
                    if before.iter().any(|p| p.text == "B state Bootstrapped" || p.text.starts_with("H timer")) { ambiguous = true }
                    // the worker's step was cut in two by tokio's cooperative budget and the handler ran in between
                    if self.last[i + 1..].iter().any(|p| p.t == e.t && p.node == e.node && p.text.starts_with("B ")) { ambiguous = true }
                }
            }
        }
        let mut s = String::new();
        if !fr.is_empty() { s.push_str(&format!(" ~fr={}", fr.join(","))); }
        if !bfirst.is_empty() { s.push_str(&format!(" ~bfirst={}", bfirst.iter().map(|k| k.to_string()).collect::<Vec<_>>().join(","))); }
        if let Some((_, _, sch)) = &self.last_sched {
            s.push_str(&format!(" ~hold ~sched={}", sch.trim_end_matches(",CUT")));
            if sch.ends_with("CUT") { ambiguous = true; }
        }
        if ambiguous || self.force_unmodelled { s.push_str(" ~unmodelled"); }
        s
    }

    pub fn has_node(&self, k: usize) -> bool { self.nodes.contains_key(&k) }
    /// the name of the id `tid` as used by node `owner`
    pub fn names_pos(&self, owner: usize, tid: &[u8]) -> Option<usize> { self.name_idx.get(&(owner, tid.to_vec())).copied() }
    /// text of a message that is delivered as an input (tokens issued by real nodes by name)
    pub fn body_text_in(&mut self, m: &Message) -> String { let t = self.body_text(m, false); self.rename(&t) }
    pub async fn sleep_until_activity_pub(&mut self, limit: u128, raw: &mut Vec<(std::time::Instant, String)>) -> u128 {
        self.sleep_until_activity(limit, raw).await
    }
    /// result of an `adv` op whose events were already collected
    pub fn finish_adv(&mut self, raw: Vec<(std::time::Instant, String)>) -> String {
        self.last_sched = None;
        let evs = self.canon(raw);
        let line = self.render(&evs);
        self.last = evs;
        if line.is_empty() { "-".into() } else { line }
    }

    pub fn tid_bytes(&self, spec: &str) -> Option<Vec<u8>> { self.resolve_tid(spec) }
    fn resolve_tid(&self, spec: &str) -> Option<Vec<u8>> {
        if let Some(h) = spec.strip_prefix('x') { return unhex(h); }
        let k: usize = spec.strip_prefix('#')?.parse().ok()?;
        self.names.get(k).map(|n| n.1.clone())
    }
    fn resolve_tokens(&self, words: &[&str]) -> Option<Vec<String>> {
        let mut ws: Vec<String> = words.iter().map(|s| s.to_string()).collect();
        for w in ws.iter_mut() {
            if let Some(t) = w.strip_prefix("token=") {
                if let Some(k) = t.strip_prefix('K') {
                    let k: usize = k.parse().ok()?;
                    // a name that was never issued: some junk of token length
                    let b = self.toks.get(k).cloned().unwrap_or_else(|| vec![0xEE; 20]);
                    *w = format!("token={}", hex_or_dash(&b));
                }
            }
        }
        Some(ws)
    }
    fn build_msg(&self, tid: Vec<u8>, words: &[&str]) -> Option<Message> {
        let ws = self.resolve_tokens(words)?;
        let mut all: Vec<String> = vec![ws[0].clone()];
        if ws[0] == "q" { all.push(ws[1].clone()); }
        all.push(format!("t={}", hex_or_dash(&tid)));
        all.extend(ws.iter().skip(if ws[0] == "q" { 2 } else { 1 }).cloned());
        let refs: Vec<&str> = all.iter().map(|s| s.as_str()).collect();
        text_to_msg(&refs)
    }

    /// `dg <tid> <src> <body...>` / `dgraw <hex> <src>` (no node index, no instant) -> bytes, source
    fn datagram_of(&self, item: &[&str]) -> Option<(Vec<u8>, SocketAddr)> {
        match item.first().copied() {
            Some("dg") if item.len() >= 4 => {
                let tid = self.resolve_tid(item[1])?;
                let src = parse_addr(item[2])?;
                let msg = self.build_msg(tid, &item[3..])?;
                Some((msg.encode().ok()?, src))
            }
            Some("dgraw") if item.len() == 3 => Some((unhex(item[1]).unwrap_or_default(), parse_addr(item[2])?)),
            _ => None,
        }
    }

    /// the API call of an `api <k> <what> ...` op; allocates the waiter / stream number
    fn api_call(&mut self, k: usize, w: &[&str]) -> Option<ApiCall> {
        let n = self.nodes.get_mut(&k)?;
        match w.get(2).copied() {
            Some("bootstrapped") => { let i = n.waiters; n.waiters += 1; Some(ApiCall::Bootstrapped(i)) }
            Some("search") => {
                let ih = w.get(3).and_then(|x| unhex(x)).filter(|x| x.len() == 20)?;
                let ann = *w.get(4)? == "1";
                let sid = n.streams;
                n.streams += 1;
                Some(ApiCall::Search(sid, ih, ann))
            }
            Some("state") => Some(ApiCall::State),
            Some("contacts") => Some(ApiCall::Contacts),
            Some("addr") => Some(ApiCall::Addr),
            _ => None,
        }
    }

    fn combo_api_ok(item: &[&str]) -> bool {
        item.first() == Some(&"api") && match item.get(1).copied() {
            Some("bootstrapped") | Some("state") | Some("contacts") | Some("addr") => item.len() == 2,
            Some("search") => item.len() == 4 && unhex(item[2]).map(|x| x.len() == 20).unwrap_or(false),
            _ => false,
        }
    }

    /// the order in which things happened at node `k` at instant `t`, from the trace: `W` the
    /// worker's task ran, `T` the handler took a due timer entry, `O` it looked at the worker's
    /// published state, `I` it took the next input of the op (the API call is input `api_idx`, the
    /// datagrams are the inputs from `dg0` on; the model takes them in the order of the letters)
    fn derive_sched(k: usize, t: u128, evs: &[Ev], dg0: usize, _n: usize) -> String {
        let mut out: Vec<String> = vec![];
        let mut next_dg = dg0;
        // what the current block belongs to: 'W' worker, 'H' handler
        let mut cur = ' ';
        // has the worker been given a reason to run since its last block (a due timer at the
        // beginning of the instant, an answer routed to it)? a block without one is the
        // continuation of a poll that tokio's cooperative budget cut in two: not modelled
        let mut reason = true;
        let mut cut = false;
        for e in evs.iter().filter(|e| e.node == k && e.t == t && !e.text.starts_with("X ")) {
            let x = e.text.as_str();
            if x.starts_with("S routed") || x == "H cmd start_bootstrap" { reason = true; }
            if x.starts_with("B ") {
                if cur != 'W' { out.push("W".into()); cur = 'W'; if !reason { cut = true; } reason = false; }
            } else if x.starts_with("H timer") {
                out.push("T".into()); cur = 'H';
            } else if x.starts_with("H cmd") {
                // the API call is the first item of a combo, the only one of a racing call
                out.push("I0".into()); cur = 'H';
            } else if x.starts_with("S routed") || x.starts_with("H msg") || x.starts_with("S undecodable") {
                out.push(format!("I{next_dg}")); next_dg += 1; cur = 'H';
            } else if x == "H bstate false" {
                // a look at a state other than Bootstrapped does nothing; the worker's poll that a
                // cooperative-budget pause cut in two around it is one poll
            } else if x.starts_with("H bstate") {
                out.push("O".into()); cur = 'H';
            } else if x.starts_with("W ") && x.contains(" q find_node ") && cur == ' ' {
                // a poll of the worker that only sends (after the throttle pause of the first round)
                out.push("W".into()); cur = 'W';
            }
        }
        if cut { out.push("CUT".into()); }
        if out.is_empty() { "-".into() } else { out.join(",") }
    }

    /// execute one op on the real nodes; the events it caused are left in `self.last`
    pub async fn exec(&mut self, req: &str, st: &mut Stats) -> String {
        let mut w: Vec<&str> = req.split_whitespace().collect();
        let mut raw = vec![];
        self.last_sched = None;
        if w.first() == Some(&"note") { self.last.clear(); return "-".into() }
        // `racing api ...`: the call is made by a task that wakes at the op's instant, together
        // with whatever is due at that instant
        let racing = w.first() == Some(&"racing");
        if racing { w.remove(0); }
        if racing && w.first() != Some(&"api") { return "bad-op".into() }
        let Some(t) = w.last().and_then(|x| parse_at(x)) else { return "bad-op".into() };
        if t < self.now() { return "bad-op".into() }
        // an op that cannot be carried out has no effect at all (as in the model): check first
        let node_of = |i: usize| w.get(i).and_then(|x| x.parse::<usize>().ok());
        let valid = match w[0] {
            "adv" => w.len() == 2,
            "nnew" => match (node_of(1), w.get(2).and_then(|x| unhex(x)), kv(&w, "addr").and_then(parse_addr)) {
                (Some(k), Some(id), Some(addr)) => id.len() == 20 && !self.nodes.contains_key(&k) && !self.by_addr.contains_key(&addr)
                    && kv(&w, "routers").unwrap_or("-").split(',').filter(|x| *x != "-" && !x.is_empty()).all(|r| r.starts_with('!') || parse_addr(r).is_some())
                    && kv(&w, "nodes").unwrap_or("-").split(',').filter(|x| *x != "-" && !x.is_empty()).all(|r| parse_addr(r).is_some()),
                _ => false,
            },
            "dg" => node_of(1).map(|k| self.nodes.contains_key(&k)).unwrap_or(false) && w.len() >= 6
                && match (self.resolve_tid(w[2]), parse_addr(w[3])) {
                    (Some(tid), Some(_)) => self.build_msg(tid, &w[4..w.len() - 1]).map(|m| m.encode().is_ok()).unwrap_or(false),
                    _ => false,
                },
            "dgraw" => node_of(1).map(|k| self.nodes.contains_key(&k)).unwrap_or(false) && w.len() == 5 && parse_addr(w[3]).is_some(),
            "combo" => node_of(1).map(|k| self.nodes.contains_key(&k)).unwrap_or(false) && w.len() >= 7
                && (w[2] == "on=boot" || w[2].strip_prefix("yields=").and_then(|x| x.parse::<usize>().ok()).is_some())
                && { let items: Vec<&[&str]> = w[3..w.len() - 1].split(|x| *x == "||").collect();
                     items.len() >= 2 && Self::combo_api_ok(items[0]) && items[1..].iter().all(|it| self.datagram_of(it).is_some()) },
            "multi" => node_of(1).map(|k| self.nodes.contains_key(&k)).unwrap_or(false) && w.len() >= 5
                && w[2..w.len() - 1].split(|x| *x == "||").all(|item| self.datagram_of(item).is_some()),
            "api" => node_of(1).map(|k| self.nodes.contains_key(&k)).unwrap_or(false) && match w.get(2).copied() {
                Some("bootstrapped") | Some("state") | Some("contacts") | Some("addr") | Some("cancel") => w.len() == 4,
                Some("search") => w.len() == 6 && w.get(3).and_then(|x| unhex(x)).map(|x| x.len() == 20).unwrap_or(false),
                _ => false,
            },
            _ => false,
        };
        if !valid { return "bad-op".into() }
        if racing {
            let Some(k) = node_of(1) else { return "bad-op".into() };
            let Some(call) = self.api_call(k, &w) else { return "bad-op".into() };
            let n = &self.nodes[&k];
            let (dht, me) = (n.dht.clone(), n.sock.local);
            let d = t - self.now();
            tokio::spawn(async move {
                tokio::time::sleep(std::time::Duration::new((d / S) as u64, (d % S) as u32)).await;
                do_api(dht, me, call);
            });
            // let the caller's task register its timer before the clock moves
            tokio::task::yield_now().await;
            tokio::task::yield_now().await;
            self.sleep_to(t, &mut raw).await;
            self.settle(&mut raw).await;
            let evs = self.canon(raw);
            self.last_sched = Some((k, t, Self::derive_sched(k, t, &evs, 0, 1)));
            let line = self.render(&evs);
            self.last = evs;
            st.hit("racing_api");
            return if line.is_empty() { "-".into() } else { line };
        }
        if w[0] == "combo" {
            // datagrams and an API call that reach the handler at about the same moment
            let Some(k) = node_of(1) else { return "bad-op".into() };
            let yields: usize = w[2].strip_prefix("yields=").and_then(|x| x.parse().ok()).unwrap_or(0);
            let items: Vec<Vec<&str>> = w[3..w.len() - 1].split(|x| *x == "||").map(|x| x.to_vec()).collect();
            let mut apiw: Vec<&str> = vec!["api", w[1]];
            apiw.extend(items[0][1..].iter().copied());
            apiw.push(w[w.len() - 1]);
            let dgs: Vec<(Vec<u8>, SocketAddr)> = items[1..].iter().filter_map(|it| self.datagram_of(it)).collect();
            self.sleep_to(t, &mut raw).await;
            let Some(call) = self.api_call(k, &apiw) else { return "bad-op".into() };
            let n = &self.nodes[&k];
            let (dht, me) = (n.dht.clone(), n.sock.local);
            let ndg = dgs.len();
            if w[2] == "on=boot" {
                // the call is made at the very moment the worker reports Bootstrapped (if it does so
                // while these datagrams are taken in; otherwise right after them): the handler then has
                // the command and the worker's new state to look at together
                btdht::verif::trace_trigger_set(format!("{me} B state Bootstrapped"), Box::new(move || do_api(dht, me, call)));
                for (bytes, src) in dgs { n.sock.deliver(bytes, src); }
                self.settle(&mut raw).await;
                if let Some(action) = btdht::verif::trace_trigger_clear() {
                    action();
                    self.settle(&mut raw).await;
                }
            } else {
                // the caller is a task of its own that yields `yields` times before the call
                tokio::spawn(async move {
                    for _ in 0..yields { tokio::task::yield_now().await; }
                    do_api(dht, me, call);
                });
                for (bytes, src) in dgs { n.sock.deliver(bytes, src); }
                self.settle(&mut raw).await;
            }
            let evs = self.canon(raw);
            self.last_sched = Some((k, t, Self::derive_sched(k, t, &evs, 1, ndg)));
            let line = self.render(&evs);
            self.last = evs;
            st.hit(&format!("combo_{}", w[2].replace('=', "_")));
            return if line.is_empty() { "-".into() } else { line };
        }
        // everything due up to `t` happens first
        self.sleep_to(t, &mut raw).await;
        match w[0] {
            "adv" => {}
            "multi" => {
                let Some(k) = node_of(1) else { return "bad-op".into() };
                let items: Vec<(Vec<u8>, SocketAddr)> = w[2..w.len() - 1].split(|x| *x == "||").filter_map(|item| self.datagram_of(item)).collect();
                st.hit(&format!("multi_{}", items.len()));
                for (bytes, src) in items { self.nodes[&k].sock.deliver(bytes, src); }
            }
            "nnew" => {
                let Some(k) = w.get(1).and_then(|x| x.parse::<usize>().ok()) else { return "bad-op".into() };
                let (Some(id), Some(addr)) = (w.get(2).and_then(|x| unhex(x)), kv(&w, "addr").and_then(parse_addr)) else { return "bad-op".into() };
                if id.len() != 20 || self.nodes.contains_key(&k) || self.by_addr.contains_key(&addr) { return "bad-op".into() }
                let ro = kv(&w, "ro") == Some("1");
                let mut b = MainlineDht::builder().set_node_id(id_of(&id)).set_read_only(ro);
                if let Some(p) = kv(&w, "port").and_then(|p| p.parse::<u16>().ok()) { b = b.set_announce_port(p); }
                for r in kv(&w, "routers").unwrap_or("-").split(',').filter(|x| *x != "-" && !x.is_empty()) {
                    b = match r.strip_prefix('!') {
                        Some(name) => b.add_router(name.to_string()),
                        None => match parse_addr(r) { Some(a) => b.add_router(a.to_string()), None => return "bad-op".into() },
                    };
                }
                for n in kv(&w, "nodes").unwrap_or("-").split(',').filter(|x| *x != "-" && !x.is_empty()) {
                    b = match parse_addr(n) { Some(a) => b.add_node(a), None => return "bad-op".into() };
                }
                let sock = MemSocket::new(addr);
                *sock.trace_sends.lock().unwrap() = true;
                if let Some(f) = kv(&w, "fail") { if f != "-" { for a in f.split(',') { if let Some(a) = parse_addr(a) { sock.fail.lock().unwrap().insert(a); } } } }
                if let Some(ms) = kv(&w, "slow").and_then(|x| x.parse::<u64>().ok()) { *sock.send_delay_ms.lock().unwrap() = ms; self.force_unmodelled = true; }
                let dht = b.start(sock.clone()).unwrap();
                self.by_addr.insert(addr, k);
                self.nodes.insert(k, RealNode { dht, sock, id, ro, waiters: 0, streams: 0 });
                st.hit("nnew");
            }
            "dg" | "dgraw" => {
                let Some(k) = w.get(1).and_then(|x| x.parse::<usize>().ok()) else { return "bad-op".into() };
                if !self.nodes.contains_key(&k) { return "bad-op".into() }
                let (bytes, src) = if w[0] == "dg" {
                    let Some(tid) = self.resolve_tid(w[2]) else { return "bad-op".into() };
                    let Some(src) = parse_addr(w[3]) else { return "bad-op".into() };
                    let Some(msg) = self.build_msg(tid, &w[4..w.len() - 1]) else { return "bad-op".into() };
                    let Ok(bytes) = msg.encode() else { return "bad-op".into() };
                    st.hit(&format!("dg_{}", w[4]));
                    (bytes, src)
                } else {
                    let Some(src) = parse_addr(w[3]) else { return "bad-op".into() };
                    st.hit("dgraw");
                    (unhex(w[2]).unwrap_or_default(), src)
                };
                self.nodes[&k].sock.deliver(bytes, src);
            }
            "api" => {
                let Some(k) = w.get(1).and_then(|x| x.parse::<usize>().ok()) else { return "bad-op".into() };
                if !self.nodes.contains_key(&k) { return "bad-op".into() }
                st.hit(&format!("api_{}", w.get(2).copied().unwrap_or("")));
                if w.get(2) == Some(&"cancel") {
                    if cancel_oldest_waiter(self.nodes[&k].sock.local).is_some() { st.hit("api_cancel_effective"); }
                    for _ in 0..3 { tokio::task::yield_now().await; }
                    self.settle(&mut raw).await;
                    let evs = self.canon(raw);
                    let line = self.render(&evs);
                    self.last = evs;
                    return if line.is_empty() { "-".into() } else { line };
                }
                let Some(call) = self.api_call(k, &w) else { return "bad-op".into() };
                let n = &self.nodes[&k];
                do_api(n.dht.clone(), n.sock.local, call);
            }
            _ => return "bad-op".into(),
        }
        self.settle(&mut raw).await;
        let evs = self.canon(raw);
        let line = self.render(&evs);
        self.last = evs;
        if line.is_empty() { "-".into() } else { line }
    }
}

impl Drop for World {
    fn drop(&mut self) { btdht::verif::trace_disable(); WAITERS.with(|w| w.borrow_mut().clear()); }
}

impl Engine for NodeEngine {
    fn gen_case(&mut self, rng: &mut Rng, idx: usize, thorough: bool) -> Vec<String> {
        crate::engines::node_sim::gen_scenario(rng, idx, thorough)
    }

    fn run_case(&mut self, case: usize, reqs: &[String], out: &mut Vec<(String, String)>, st: &mut Stats) {
        with_rt(case as u64, async {
            let mut world = World::new();
            for req in reqs {
                if req.starts_with("scenario ") {
                    crate::engines::node_sim::run_scenario(&mut world, req, case, out, st).await;
                    continue;
                }
                let r = world.exec(req, st).await;
                crate::engines::node_sim::check_events(&world, req, case, out.len(), st);
                out.push((format!("{req}{}", world.hints()), r));
            }
        })
    }
}
