//! Scenarios for the node engine: a simulated network (scripted peers with policies, latencies,
//! outages) reacts online to what the real nodes send; the reactions and the scheduled API calls
//! become the concrete, replayable ops. Also the property oracles on the event trace.
use crate::engines::node::{Ev, World};
use crate::msgtext::*;
use crate::rng::Rng;
use crate::util::*;
use btdht::message::*;
use btdht::verif::NodeHandle;
use btdht::InfoHash;
use std::cmp::Reverse;
use std::collections::{BinaryHeap, HashMap, HashSet};
use std::net::SocketAddr;

const S: u128 = 1_000_000_000;
const MS: u128 = 1_000_000;

fn id_of(b: &[u8]) -> InfoHash {
    let mut a = [0u8; 20];
    a.copy_from_slice(b);
    InfoHash::from(a)
}

fn xor_dist(a: &[u8], b: &[u8]) -> Vec<u8> { a.iter().zip(b).map(|(x, y)| x ^ y).collect() }

pub fn gen_scenario(rng: &mut Rng, idx: usize, thorough: bool) -> Vec<String> {
    let kinds = ["boot", "boot", "early", "refresh", "fresh", "e2e", "probe"];
    // thorough tier: every 14th case is a two-day network run (announce, re-announce, search
    // shortly before and shortly after the 24 h mark)
    let kind = if thorough && idx % 14 == 13 { "e2e24" } else { kinds[idx % kinds.len()] };
    vec![format!("scenario node seed={} kind={kind} thorough={}", rng.next() % 1_000_000_007, if thorough { 1 } else { 0 })]
}

#[derive(Clone, Debug, PartialEq)]
enum Policy {
    Good,
    Silent,
    /// answers every query with error 201
    Error,
    /// answers with undecodable bytes
    Garbage,
    /// silent before the instant, good from then on
    GoodFrom(u128),
    /// good until the instant, completely silent afterwards
    GoodUntil(u128),
    /// alternates: reachable for `up` ns, unreachable for `down` ns
    Flap(u128, u128),
}

struct SimPeer {
    id: Vec<u8>,
    addr: SocketAddr,
    policy: Policy,
    store: HashMap<Vec<u8>, Vec<SocketAddr>>,
    token: Vec<u8>,
    last_answer: Option<u128>,
}

impl SimPeer {
    fn answers_at(&self, t: u128) -> bool {
        match &self.policy {
            Policy::Good | Policy::Error | Policy::Garbage => true,
            Policy::Silent => false,
            Policy::GoodFrom(t0) => t >= *t0,
            Policy::GoodUntil(t1) => t < *t1,
            Policy::Flap(up, down) => t % (up + down) < *up,
        }
    }
}

#[derive(PartialEq, Eq, PartialOrd, Ord)]
struct Flight { at: u128, seq: u64, op: String }

pub struct Sim {
    rng: Rng,
    v6: bool,
    peers: Vec<SimPeer>,
    /// real node index -> (id, addr)
    reals: Vec<(usize, Vec<u8>, SocketAddr)>,
    flights: BinaryHeap<Reverse<Flight>>,
    seq: u64,
    lat_ms: (u64, u64),
    end: u128,
    now_hint: u128,
    /// duplication of the scripted peers' answers: every answer is delivered a second time with
    /// probability 1/dup (0 = never); drawn from a generator of its own
    dup: u64,
    dup_rng: Rng,
    /// API calls issued concurrently with what is due at an instant at which the bootstrap worker
    /// is expected to wake (a round's timeout, the periodic check): one in `race` candidates (0 = never)
    race: u64,
    races_left: usize,
    race_ih: Option<Vec<u8>>,
    /// answers may name a second id at a peer's address (only where contacts are not followed by address)
    ghosts: bool,
}

fn sim_addr(v6: bool, i: usize, port: u16) -> SocketAddr {
    if v6 {
        format!("[2001:db8::2:{:x}]:{port}", i + 1).parse().unwrap()
    } else {
        format!("10.2.{}.{}:{port}", i / 200, i % 200 + 1).parse().unwrap()
    }
}
fn real_addr(v6: bool, k: usize) -> SocketAddr {
    if v6 { format!("[2001:db8::1:{:x}]:{}", k + 1, 7000 + k).parse().unwrap() } else { format!("10.1.0.{}:{}", k + 1, 7000 + k).parse().unwrap() }
}

impl Sim {
    fn schedule(&mut self, at: u128, op: String) {
        self.seq += 1;
        self.flights.push(Reverse(Flight { at, seq: self.seq, op }));
    }
    /// an answer of a scripted peer: the network may deliver it twice (same instant, a moment
    /// later, or seconds later)
    fn schedule_answer(&mut self, at: u128, op: String) {
        self.schedule(at, op.clone());
        if self.dup > 0 && self.dup_rng.chance(1, self.dup) {
            let d = match self.dup_rng.below(4) { 0 => 0, 1 => MS, 2 => self.dup_rng.range(2, 400) as u128 * MS, _ => self.dup_rng.range(1, 30) as u128 * S };
            self.schedule(at + d, op);
        }
    }
    fn latency(&mut self) -> u128 { self.rng.range(self.lat_ms.0, self.lat_ms.1) as u128 * MS }

    /// the (id, addr) of everybody, for find_node answers
    fn directory(&self) -> Vec<(Vec<u8>, SocketAddr)> {
        let mut d: Vec<(Vec<u8>, SocketAddr)> = self.peers.iter().map(|p| (p.id.clone(), p.addr)).collect();
        d.extend(self.reals.iter().map(|(_, id, a)| (id.clone(), *a)));
        d
    }
    fn closest(&self, target: &[u8], exclude: &SocketAddr) -> Vec<NodeHandle> {
        let mut d = self.directory();
        d.retain(|(_, a)| a != exclude);
        // a node that has gone silent for good drops out of what the others tell
        let gone: Vec<SocketAddr> = self.peers.iter().filter(|p| matches!(p.policy, Policy::GoodUntil(t) if self.now_hint >= t)).map(|p| p.addr).collect();
        d.retain(|(_, a)| !gone.contains(a));
        d.sort_by_key(|(id, _)| xor_dist(id, target));
        d.into_iter().take(8).map(|(id, a)| NodeHandle::new(id_of(&id), a)).collect()
    }

    /// a real node (index `from`) sent `bytes` to `dst`
    fn on_send(&mut self, world: &mut World, from: usize, dst: SocketAddr, bytes: &[u8], now: u128) {
        self.now_hint = now;
        let from_addr = self.reals.iter().find(|r| r.0 == from).map(|r| r.2).unwrap();
        // to another real node: the network carries it
        if let Some((k, _, _)) = self.reals.iter().find(|r| r.2 == dst).cloned() {
            let at = now + self.latency();
            // nobody listens at the address of a node that has not started yet
            if !world.has_node(k) { return }
            let op = match Message::decode(bytes) {
                Ok(m) => {
                    // a query carries the sender's id, a reply echoes the receiver's
                    let owner = if matches!(m.body, MessageBody::Request(_)) { from } else { k };
                    let spec = world.tid_spec(owner, &m.transaction_id);
                    format!("dg {k} {spec} {} {}", addr_str(&from_addr), world.body_text_in(&m))
                }
                Err(_) => format!("dgraw {k} {} {}", hex_or_dash(bytes), addr_str(&from_addr)),
            };
            self.schedule(at, op);
            return;
        }
        let Some(pi) = self.peers.iter().position(|p| p.addr == dst) else { return };
        let Ok(m) = Message::decode(bytes) else { return };
        let MessageBody::Request(req) = &m.body else { return };
        if !self.peers[pi].answers_at(now) { return }
        let at = now + self.latency();
        // an outage may begin while the answer is on its way back: it is then lost
        if !self.peers[pi].answers_at(at) { return }
        let spec = world.tid_spec(from, &m.transaction_id);
        let src = addr_str(&dst);
        let k = from;
        let pid = hex(&self.peers[pi].id);
        match self.peers[pi].policy {
            Policy::Error => { self.schedule_answer(at, format!("dg {k} {spec} {src} e code=201 msg={}", hex(b"no"))); return }
            Policy::Garbage => { let g = self.rng.bytes_below(30); self.schedule(at, format!("dgraw {k} {} {src}", hex_or_dash(&g))); return }
            _ => {}
        }
        self.peers[pi].last_answer = Some(at);
        let nodes_txt = |ns: Vec<NodeHandle>| if ns.is_empty() { "-".to_string() } else { ns.iter().map(|n| format!("{}@{}", hex(n.id.as_ref()), addr_str(&n.addr))).collect::<Vec<_>>().join(";") };
        // now and then an answer also names a second node id at the address of one of the peers (a node that
        // restarted under a new id): two contacts at one address (round-4 seed C14: bucket rounds shared one id)
        let ghost: Option<String> = if self.ghosts && !self.peers.is_empty() && self.dup_rng.chance(1, 12) {
            let q = &self.peers[self.dup_rng.below(self.peers.len() as u64) as usize];
            Some(format!("{}@{}", hex(&self.dup_rng.bytes(20)), addr_str(&q.addr)))
        } else { None };
        let (n4, n6) = |t: &[u8]| -> (String, String) {
            let mut ns = nodes_txt(self.closest(t, &from_addr));
            if let Some(g) = &ghost { if ns == "-" { ns = g.clone() } else { ns = format!("{ns};{g}") } }
            if self.v6 { ("-".into(), ns) } else { (ns, "-".into()) }
        }(match req {
            Request::FindNode(f) => f.target.as_ref(),
            Request::GetPeers(g) => g.info_hash.as_ref(),
            _ => &[0u8; 20],
        });
        let op = match req {
            Request::Ping(_) => format!("dg {k} {spec} {src} r id={pid} values=- nodes=- nodes6=- token=none"),
            Request::FindNode(_) => format!("dg {k} {spec} {src} r id={pid} values=- nodes={n4} nodes6={n6} token=none"),
            Request::GetPeers(g) => {
                let vals = self.peers[pi].store.get(g.info_hash.as_ref()).cloned().unwrap_or_default();
                let vals = if vals.is_empty() { "-".to_string() } else { vals.iter().map(addr_str).collect::<Vec<_>>().join(";") };
                format!("dg {k} {spec} {src} r id={pid} values={vals} nodes={n4} nodes6={n6} token={}", hex(&self.peers[pi].token))
            }
            Request::AnnouncePeer(a) => {
                if a.token == self.peers[pi].token {
                    let mut c = from_addr;
                    if let Some(p) = a.port { c.set_port(p) }
                    let e = self.peers[pi].store.entry(a.info_hash.as_ref().to_vec()).or_default();
                    if !e.contains(&c) { e.push(c) }
                    format!("dg {k} {spec} {src} r id={pid} values=- nodes=- nodes6=- token=none")
                } else {
                    format!("dg {k} {spec} {src} e code=203 msg={}", hex(b"bad token"))
                }
            }
        };
        self.schedule_answer(at, op);
    }
}

impl World {
    /// `#k` for ids of queries real nodes sent, `x<hex>` otherwise
    /// `owner`: the real node that sent the query carrying `tid`
    pub fn tid_spec(&self, owner: usize, tid: &[u8]) -> String {
        match self.names_pos(owner, tid) { Some(k) => format!("#{k}"), None => format!("x{}", hex_or_dash(tid)) }
    }
}

/// Expand `scenario node seed=<s> kind=<k> thorough=<0|1>` online into concrete ops.
pub async fn run_scenario(world: &mut World, req: &str, case: usize, out: &mut Vec<(String, String)>, st: &mut Stats) {
    let w: Vec<&str> = req.split_whitespace().collect();
    let seed: u64 = kv(&w, "seed").and_then(|s| s.parse().ok()).unwrap_or(1);
    let kind = kv(&w, "kind").unwrap_or("boot").to_string();
    let thorough = kv(&w, "thorough") == Some("1");
    let mut rng = Rng::new(seed);
    st.hit(&format!("scenario_{kind}"));
    // the scenario line itself is the replayable unit for the scenario-level oracles
    out.push((format!("note {req}"), "-".to_string()));
    let v6 = rng.chance(1, 4);
    let mut sim = Sim { rng: rng.fork(), v6, peers: vec![], reals: vec![], flights: BinaryHeap::new(), seq: 0, lat_ms: (5, 300), end: 0, now_hint: 0, dup: 0, dup_rng: Rng::new(seed ^ 0xd0b1_e5), race: 0, races_left: 0, race_ih: None, ghosts: kind == "boot" || kind == "probe" || kind == "early" };
    if kind != "e2e" && kind != "e2e24" && kind != "fresh" && kind != "slowsend" && sim.dup_rng.chance(1, 2) {
        sim.race = *sim.dup_rng.pick(&[2u64, 4, 8]);
        sim.races_left = 12;
        st.hit("scenario_with_racing_api_calls");
    }
    if kind != "e2e" && kind != "e2e24" && kind != "slowsend" && sim.dup_rng.chance(1, 3) {
        sim.dup = *sim.dup_rng.pick(&[2u64, 4, 10]);
        st.hit("scenario_with_duplicated_answers");
    }
    let t0: u128 = 1000 * S;
    let mut ck = Checker::new(&kind);

    // ---- population and schedule per kind
    match kind.as_str() {
        "boot" | "probe" => {
            let n = [0usize, 1, 2, 3, 5, 9, 12, 20][rng.below(8) as usize];
            let outage = match rng.below(4) { 0 => 0, 1 => rng.range(1, 20) as u128 * S, 2 => rng.range(20, 600) as u128 * S, _ => rng.range(600, 7200) as u128 * S };
            for i in 0..n {
                let policy = match rng.below(10) {
                    0 => Policy::Silent,
                    1 => Policy::Error,
                    2 => Policy::Garbage,
                    3 => Policy::Flap(rng.range(2, 40) as u128 * S, rng.range(2, 40) as u128 * S),
                    _ => if outage > 0 { Policy::GoodFrom(t0 + outage) } else { Policy::Good },
                };
                sim.peers.push(SimPeer { id: rng.bytes(20), addr: sim_addr(v6, i, 6881), policy, store: HashMap::new(), token: vec![b't', i as u8], last_answer: None });
            }
            // which of them the node is configured with, as router, node or both
            let mut routers = vec![];
            let mut nodes = vec![];
            let with_routers = rng.chance(1, 3);
            for p in sim.peers.iter().take(rng.range(0, n.min(14) as u64) as usize) {
                match if with_routers { rng.below(4) } else { 1 } {
                    0 => routers.push(addr_str(&p.addr)),
                    3 => { routers.push(addr_str(&p.addr)); nodes.push(addr_str(&p.addr)) }
                    _ => nodes.push(addr_str(&p.addr)),
                }
            }
            // an unresolvable router name; with no other contact at all the worker idles for
            // NO_NETWORK_TIMEOUT and tries again (coverage: bootstrap.rs "no network" branch)
            if rng.chance(1, 8) || (n == 0 && rng.chance(1, 2)) { routers.push("!nowhere".into()) }
            let me = rng.bytes(20);
            let a = real_addr(v6, 0);
            sim.reals.push((0, me.clone(), a));
            let dur = if outage > 600 * S { outage + 1300 * S } else { outage + rng.range(30, 900) as u128 * S };
            sim.end = t0 + dur;
            let dash = |v: &Vec<String>| if v.is_empty() { "-".to_string() } else { v.join(",") };
            // some contacts are unreachable at the socket level (send_to fails)
            let mut fail: Vec<String> = vec![];
            if rng.chance(1, 4) {
                for c in routers.iter().chain(nodes.iter()) {
                    if !c.starts_with('!') && rng.chance(1, 3) && !fail.contains(c) { fail.push(c.clone()) }
                }
            }
            sim.schedule(t0, format!("nnew 0 {} addr={} ro={} port={} routers={} nodes={} fail={}", hex(&me), addr_str(&a), rng.below(2), if rng.chance(1, 2) { "none".to_string() } else { rng.range(1, 65535).to_string() }, dash(&routers), dash(&nodes), dash(&fail)));
            for _ in 0..rng.below(6) {
                let at = t0 + if rng.chance(1, 3) { 0 } else { rng.below((dur / MS) as u64) as u128 * MS };
                sim.schedule(at, "api 0 bootstrapped".into());
            }
            for _ in 0..rng.range(1, 4) {
                let at = t0 + rng.below((dur / MS) as u64) as u128 * MS;
                sim.schedule(at, format!("api 0 {}", ["state", "contacts", "addr"][rng.below(3) as usize]));
            }
            // callers that give up waiting (a time-out around bootstrapped()), followed by further calls
            if rng.chance(1, 2) {
                for _ in 0..rng.range(1, 3) {
                    let at = t0 + rng.below((dur.min(120 * S) / MS) as u64) as u128 * MS;
                    sim.schedule(at, "api 0 cancel".into());
                    sim.schedule(at + rng.below(3000) as u128 * MS, "api 0 bootstrapped".into());
                }
            }
            sim.schedule(sim.end, "api 0 state".into());
            if kind == "probe" {
                // queries, garbage and replayed ids from the contacts while the node is busy
                for _ in 0..rng.range(3, 12) {
                    let at = t0 + rng.below((dur.min(60 * S) / MS) as u64) as u128 * MS;
                    ck.probes.push(at);
                }
            }
        }
        _ => {
            // further kinds are added below
            build_other(&kind, &mut rng, &mut sim, &mut ck, v6, t0, thorough);
        }
    }

    // ---- the online loop
    let mut steps = 0usize;
    let max_steps = if thorough { 600_000 } else { 40_000 };
    let mut raw = vec![];
    let wall = std::time::Instant::now();
    loop {
        steps += 1;
        if steps > max_steps { st.hit("scenario_step_limit"); break }
        // a scenario takes a second or two of CPU; minutes mean that the node's work grows without bound (C18:
        // maintenance work must stay bounded — e.g. refresh chains that multiply, as before the F18 repair)
        if wall.elapsed().as_secs() > if thorough { 900 } else { 120 } {
            st.fail(case, out.len(), &format!("[C18] the scenario was stopped after {} s of CPU at virtual time {} ms: the node's background work grows without bound", wall.elapsed().as_secs(), world.now() / MS));
            break;
        }
        // a racing call is issued without letting its instant pass first
        let next_racing = sim.flights.peek().map(|f| f.0.op.starts_with("racing ") && f.0.at <= sim.end).unwrap_or(false);
        let next_ext = sim.flights.peek().map(|f| if next_racing { f.0.at - 1 } else { f.0.at }).unwrap_or(u128::MAX).min(sim.end);
        let now = world.now();
        let op = if now < next_ext {
            // let time pass until a node does something on its own or the next input is due
            let reached = world.sleep_until_activity_pub(next_ext, &mut raw).await;
            if raw.is_empty() && reached >= next_ext { None } else { Some(format!("adv @{reached}")) }
        } else { None };
        let (op, is_adv) = match op {
            Some(o) => (o, true),
            None => {
                if world.now() >= sim.end && sim.flights.peek().map(|f| f.0.at > sim.end).unwrap_or(true) { break }
                let Some(Reverse(f)) = sim.flights.pop() else { break };
                if f.at > sim.end { break }
                // datagrams for one node that arrive at the same instant are in its socket together
                let mut text = f.op.clone();
                if f.op.starts_with("dg ") || f.op.starts_with("dgraw ") {
                    let k = f.op.split_whitespace().nth(1).unwrap_or("").to_string();
                    let item = |op: &str| { let w: Vec<&str> = op.split_whitespace().collect(); format!("{} {}", w[0], w[2..].join(" ")) };
                    let mut items = vec![item(&f.op)];
                    while items.len() < 4 {
                        let same = sim.flights.peek().map(|g| g.0.at == f.at && (g.0.op.starts_with("dg ") || g.0.op.starts_with("dgraw ")) && g.0.op.split_whitespace().nth(1) == Some(k.as_str())).unwrap_or(false);
                        if !same { break }
                        let Some(Reverse(g)) = sim.flights.pop() else { break };
                        items.push(item(&g.op));
                    }
                    if items.len() > 1 { text = format!("multi {k} {}", items.join(" || ")); }
                    // now and then an API call is made while the datagram is being taken in
                    // (until the first bootstrap completion of an `early` scenario: a search with every datagram,
                    // so that one of them is handled right when the worker reports Bootstrapped)
                    // (boot / probe scenarios: a state query or another bootstrapped() call at that very moment —
                    // round-5 seed C15: such a call marked the worker's state change as seen)
                    let api_hunt = sim.race > 0 && sim.race_ih.is_none() && !ck.completed_once && (ck.kind == "boot" || ck.kind == "probe");
                    let first_completion_hunt = (sim.race > 0 && sim.race_ih.is_some() && !ck.completed_once) || api_hunt;
                    if sim.race > 0 && f.at + 20 * S < sim.end && (first_completion_hunt || (sim.races_left > 0 && sim.dup_rng.chance(1, 3 * sim.race))) {
                        let what = match (if api_hunt { sim.dup_rng.below(2) } else if first_completion_hunt { 2 } else { sim.dup_rng.below(4) }, &sim.race_ih) {
                            (0, _) => "bootstrapped".to_string(),
                            (1, _) => "state".to_string(),
                            (_, Some(ih)) => format!("search {} {}", hex(ih), sim.dup_rng.below(2)),
                            (_, None) => format!("search {} 0", hex(&sim.dup_rng.bytes(20))),
                        };
                        if !first_completion_hunt { sim.races_left -= 1; }
                        let how = if first_completion_hunt { "on=boot".to_string() } else { format!("yields={}", sim.dup_rng.below(3)) };
                        text = format!("combo {k} {how} api {what} || {}", items.join(" || "));
                    }
                }
                (format!("{} @{}", text, f.at.max(world.now())), false)
            }
        };
        let res = if is_adv {
            world.finish_adv(std::mem::take(&mut raw))
        } else {
            world.exec(&op, st).await
        };
        let line = out.len();
        check_events_ck(world, &op, case, line, st, &mut ck, &sim);
        // react to what the real nodes sent
        let evs: Vec<Ev> = world.last.clone();
        for e in &evs {
            if let Some((dst, bytes, ok)) = &e.sent {
                if *ok { sim.on_send(world, e.node, *dst, bytes, e.t); }
            }
        }
        // racing API calls at the instants at which the bootstrap worker is expected to wake
        if sim.race > 0 && sim.races_left > 0 {
            for e in &evs {
                let d = if e.text.starts_with("B round ") { 500 * MS } else if e.text == "B check" || e.text == "B state Bootstrapped" { 5 * S } else if e.text.starts_with("B attempt ") { 2500 * MS } else { continue };
                if sim.races_left == 0 || !sim.dup_rng.chance(1, sim.race) { continue }
                let at = e.t + d;
                // a search needs some seconds to end: none is started shortly before the scenario ends
                if at + 20 * S >= sim.end { continue }
                let what = match (sim.dup_rng.below(4), &sim.race_ih) {
                    (0, _) => "bootstrapped".to_string(),
                    (1, _) => "state".to_string(),
                    (_, Some(ih)) => format!("search {} {}", hex(ih), sim.dup_rng.below(2)),
                    (_, None) => format!("search {} 0", hex(&sim.dup_rng.bytes(20))),
                };
                sim.races_left -= 1;
                sim.schedule(at, format!("racing api {} {what}", e.node));
            }
        }
        // probes wait for a moment at which a bootstrap exchange is pending
        ck.maybe_probe(world, &mut sim, &evs);
        out.push((format!("{op}{}", world.hints()), res));
    }
    ck.finish(world, case, out.len(), st, &sim);
}


/// population and schedule of the scenario kinds other than boot/probe
fn build_other(kind: &str, rng: &mut Rng, sim: &mut Sim, ck: &mut Checker, v6: bool, t0: u128, thorough: bool) {
    let dash = |v: &Vec<String>| if v.is_empty() { "-".to_string() } else { v.join(",") };
    match kind {
        // C16: truthful static network in which every node holds a peer for the hash; searches are
        // issued before, during and after the initial bootstrap
        "early" => {
            let n = rng.range(1, 14) as usize;
            let ih = rng.bytes(20);
            let peer: SocketAddr = if v6 { "[2001:db8::9:9]:9999".parse().unwrap() } else { "10.9.9.9:9999".parse().unwrap() };
            // a network that answers slowly makes the bootstrap last longer
            sim.lat_ms = if rng.chance(1, 2) { (5, 60) } else { (200, 450) };
            // ... and a network that only comes up after 20..70 s makes the first attempts fail: the searches
            // issued meanwhile wait that long in the queue (round-4 seed C16: a search's time budget ran from the
            // moment it was requested)
            let late = if rng.chance(1, 3) { Some(t0 + rng.range(20, 70) as u128 * S) } else { None };
            for i in 0..n {
                let mut store = HashMap::new();
                store.insert(ih.clone(), vec![peer]);
                let policy = match late { Some(t) => Policy::GoodFrom(t), None => Policy::Good };
                sim.peers.push(SimPeer { id: rng.bytes(20), addr: sim_addr(v6, i, 6881), policy, store, token: vec![b't', i as u8], last_answer: None });
            }
            let me = rng.bytes(20);
            let a = real_addr(v6, 0);
            sim.reals.push((0, me.clone(), a));
            let nodes: Vec<String> = sim.peers.iter().take(rng.range(1, n.min(10) as u64) as usize).map(|p| addr_str(&p.addr)).collect();
            sim.end = t0 + if late.is_some() { 230 * S } else { 60 * S };
            sim.schedule(t0, format!("nnew 0 {} addr={} ro={} port={} routers=- nodes={}", hex(&me), addr_str(&a), rng.below(2), if rng.chance(1, 2) { "none".to_string() } else { rng.range(1, 65535).to_string() }, dash(&nodes)));
            let nsearch = rng.range(1, 5);
            for j in 0..nsearch {
                let at = t0 + match (j + rng.below(4)) % 4 { 0 => 0, 1 => rng.range(1, 2400) as u128 * MS, 2 => rng.range(2400, 6000) as u128 * MS, _ => rng.range(6000, 30000) as u128 * MS };
                sim.schedule(at, format!("api 0 search {} {}", hex(&ih), rng.below(2)));
            }
            sim.schedule(t0 + rng.below(3000) as u128 * MS, "api 0 bootstrapped".into());
            sim.race_ih = Some(ih.clone());
            ck.expect_peer = Some((ih, peer));
        }
        // C18: a small network (the node re-bootstraps every 5 s) or a larger one, minutes to hours
        "refresh" => {
            let n = [1usize, 2, 4, 8, 12, 16][rng.below(6) as usize];
            for i in 0..n {
                let policy = if rng.chance(1, 6) { Policy::Flap(rng.range(20, 200) as u128 * S, rng.range(5, 100) as u128 * S) } else { Policy::Good };
                sim.peers.push(SimPeer { id: rng.bytes(20), addr: sim_addr(v6, i, 6881), policy, store: HashMap::new(), token: vec![b't', i as u8], last_answer: None });
            }
            let me = rng.bytes(20);
            let a = real_addr(v6, 0);
            sim.reals.push((0, me.clone(), a));
            let nodes: Vec<String> = sim.peers.iter().take(rng.range(1, n.min(8) as u64) as usize).map(|p| addr_str(&p.addr)).collect();
            let dur = if thorough { rng.range(1800, 6 * 3600) } else { rng.range(120, 1500) } as u128 * S;
            sim.end = t0 + dur;
            sim.schedule(t0, format!("nnew 0 {} addr={} ro={} port=none routers=- nodes={}", hex(&me), addr_str(&a), rng.below(2), dash(&nodes)));
            sim.schedule(sim.end, "api 0 state".into());
            // searches at arbitrary moments of the run — also while the node, bootstrapped once, is in the
            // middle of a re-bootstrap against contacts that are down ([C04]: every one of them must end)
            if dur > 150 * S {
                for _ in 0..rng.range(2, 5) {
                    let at = t0 + 20 * S + rng.below(((dur - 100 * S) / MS) as u64) as u128 * MS;
                    sim.schedule(at, format!("api 0 search {} {}", hex(&rng.bytes(20)), rng.below(2)));
                }
            }
        }
        // C11: always-answering contacts and contacts that go silent for good, hours of idling
        "fresh" => {
            // 1..8 known nodes as the property's quantifier says; one case in three goes beyond
            // (12..14 nodes spread over the id space so that still no bucket is full: the statement
            // itself only presupposes that)
            let big = rng.chance(1, 2);
            let n = if big { rng.range(12, 14) } else { rng.range(1, 8) } as usize;
            let dur = if thorough { rng.range(3600, 5 * 3600) } else { rng.range(1500, 3000) } as u128 * S;
            let me = rng.bytes(20);
            for i in 0..n {
                // beyond 10 nodes at most one goes silent, so that the node stays well connected
                // (>= 10 good nodes: no periodic re-bootstrap comes to the refresh's help)
                let silent_ok = i > 0 && (!big || i == 1);
                let policy = if silent_ok && rng.chance(1, 3) { Policy::GoodUntil(t0 + rng.below((dur / S) as u64 / 2) as u128 * S) } else { Policy::Good };
                let mut id = rng.bytes(20);
                if n > 8 {
                    // shared-prefix class i % 4 with the local id: at most 3 nodes per bucket
                    let c = i % 4;
                    for b in 0..c { let m = 0x80u8 >> b; id[0] = (id[0] & !m) | (me[0] & m); }
                    let m = 0x80u8 >> c; id[0] = (id[0] & !m) | (!me[0] & m);
                }
                sim.peers.push(SimPeer { id, addr: sim_addr(v6, i, 6881), policy, store: HashMap::new(), token: vec![b't', i as u8], last_answer: None });
            }
            let a = real_addr(v6, 0);
            sim.reals.push((0, me.clone(), a));
            // single-contact regime (periodic re-bootstrap) or well-connected
            let k = if !big && rng.chance(1, 3) { 1 } else { n };
            // the only bootstrap contact goes silent for good after a while: the node can never report
            // bootstrapped again (every later attempt fails), the contacts it learnt must still be kept fresh by
            // the refresh alone (round-4 seed C11: the refresh sat out while the node was not bootstrapped)
            if k == 1 && n >= 3 && rng.chance(1, 2) {
                sim.peers[0].policy = Policy::GoodUntil(t0 + rng.range(30, 300) as u128 * S);
            }
            let nodes: Vec<String> = sim.peers.iter().take(k).map(|p| addr_str(&p.addr)).collect();
            sim.end = t0 + dur;
            sim.lat_ms = (5, 250);
            sim.schedule(t0, format!("nnew 0 {} addr={} ro=0 port=none routers=- nodes={}", hex(&me), addr_str(&a), dash(&nodes)));
            let step = 5 * S;
            let mut t = t0 + 3 * S + 1 * MS;
            while t < sim.end { sim.schedule(t, "api 0 contacts".into()); t += step; }
            if rng.chance(1, 2) {
                for _ in 0..rng.range(1, 6) {
                    sim.schedule(t0 + rng.below((dur / S) as u64) as u128 * S + 7 * MS, format!("api 0 search {} 0", hex(&rng.bytes(20))));
                }
            }
            ck.sample_contacts = true;
        }
        // C15 on a socket whose `send_to` completes 20 ms after it handed the datagram over, on a network that
        // answers within 1..8 ms: the answer is back before the sending task resumes (round-4 seed C15: the
        // exchange was registered only after the send had returned). Task interleavings of this kind are not
        // modelled: no lockstep for these cases, the [C15]/[C05] oracles decide
        "slowsend" => {
            let n = rng.range(1, 6) as usize;
            for i in 0..n {
                sim.peers.push(SimPeer { id: rng.bytes(20), addr: sim_addr(v6, i, 6881), policy: Policy::Good, store: HashMap::new(), token: vec![b't', i as u8], last_answer: None });
            }
            let me = rng.bytes(20);
            let a = real_addr(v6, 0);
            sim.reals.push((0, me.clone(), a));
            let nodes: Vec<String> = sim.peers.iter().map(|p| addr_str(&p.addr)).collect();
            sim.lat_ms = (1, 8);
            sim.end = t0 + 700 * S;
            sim.schedule(t0, format!("nnew 0 {} addr={} ro=0 port=none routers=- nodes={} slow=20", hex(&me), addr_str(&a), dash(&nodes)));
            sim.schedule(t0, "api 0 bootstrapped".into());
            sim.schedule(t0 + 3 * S, "api 0 bootstrapped".into());
            sim.schedule(t0 + 30 * S, "api 0 state".into());
            sim.schedule(sim.end, "api 0 state".into());
        }
        // C11, crowded table: 30..40 always-answering contacts, at most 7 per bucket, of which 12 keep
        // themselves good by querying the node every few minutes (so no periodic re-bootstrap helps
        // the refresh); the others turn questionable almost together 15 minutes after the bootstrap
        "crowd" => {
            let per = if rng.chance(1, 2) { 7 } else { rng.range(5, 7) as usize };
            let classes = 6usize;
            let n = per * classes;
            let dur = rng.range(1100, 1500) as u128 * S;
            let me = rng.bytes(20);
            for i in 0..n {
                let mut id = rng.bytes(20);
                let c = i % classes;
                for b in 0..c { let m = 0x80u8 >> b; id[0] = (id[0] & !m) | (me[0] & m); }
                let m = 0x80u8 >> c; id[0] = (id[0] & !m) | (!me[0] & m);
                sim.peers.push(SimPeer { id, addr: sim_addr(v6, i, 6881), policy: Policy::Good, store: HashMap::new(), token: vec![b't', i as u8], last_answer: None });
            }
            let a = real_addr(v6, 0);
            sim.reals.push((0, me.clone(), a));
            let nodes: Vec<String> = sim.peers.iter().take(8).map(|p| addr_str(&p.addr)).collect();
            sim.end = t0 + dur;
            sim.lat_ms = (5, 120);
            sim.schedule(t0, format!("nnew 0 {} addr={} ro=0 port=none routers=- nodes={}", hex(&me), addr_str(&a), dash(&nodes)));
            // the talkers: a ping every 4 minutes from 12 of the contacts
            for (j, p) in sim.peers.iter().enumerate().filter(|(j, _)| j % 3 == 0).take(12).map(|(j, p)| (j, (p.id.clone(), p.addr))).collect::<Vec<_>>() {
                let mut t = t0 + 60 * S + j as u128 * 977 * MS;
                while t < sim.end {
                    let tid = rng.bytes(2);
                    sim.schedule(t, format!("dg 0 x{} {} q ping id={}", hex(&tid), addr_str(&p.1), hex(&p.0)));
                    t += 240 * S;
                }
            }
            // one search: its end-game queries every node it heard of, so that all of them answer — and
            // 15 minutes later turn questionable — within a second or two
            if rng.chance(5, 6) { sim.schedule(t0 + rng.range(60, 200) as u128 * S, format!("api 0 search {} 0", hex(&rng.bytes(20)))); }
            let mut t = t0 + 3 * S + 1 * MS;
            while t < sim.end { sim.schedule(t, "api 0 contacts".into()); t += 5 * S; }
            ck.sample_contacts = true;
        }
        // C01: 2..9 serving nodes that all know each other; announce, then search from elsewhere
        "e2e" => {
            let r = if thorough { rng.range(2, 9) } else { rng.range(2, 5) } as usize;
            sim.lat_ms = (1, 900);
            let ih = rng.bytes(20);
            let addrs: Vec<SocketAddr> = (0..r).map(|k| real_addr(v6, k)).collect();
            let offset = match rng.below(5) {
                0 => rng.range(5, 60) as u128 * S,
                1 => rng.range(60, 3600) as u128 * S,
                2 => if thorough { rng.range(3600, 86_000) as u128 * S } else { rng.range(600, 4000) as u128 * S },
                3 => if thorough { rng.range(86_600, 90_000) as u128 * S } else { rng.range(30, 300) as u128 * S },
                _ => rng.range(20, 200) as u128 * S,
            };
            let mut ports = vec![];
            for k in 0..r {
                let id = rng.bytes(20);
                sim.reals.push((k, id.clone(), addrs[k]));
                let others: Vec<String> = addrs.iter().enumerate().filter(|(j, _)| *j != k).map(|(_, a)| addr_str(a)).collect();
                let port = if rng.chance(1, 2) { None } else { Some(rng.range(1, 65535) as u16) };
                ports.push(port);
                sim.schedule(t0 + rng.below(2000) as u128 * MS, format!("nnew {k} {} addr={} ro=0 port={} routers=- nodes={}", hex(&id), addr_str(&addrs[k]), port.map(|p| p.to_string()).unwrap_or("none".into()), dash(&others)));
            }
            let t_boot = t0 + 20 * S;
            let nann = rng.range(1, (r as u64 - 1).min(3)) as usize;
            let mut announcers = vec![];
            for j in 0..nann {
                let k = (j * 2 + rng.below(2) as usize) % r;
                if announcers.contains(&k) { continue }
                announcers.push(k);
                sim.schedule(t_boot + rng.below(5000) as u128 * MS, format!("api {k} search {} 1", hex(&ih)));
            }
            let t_search = t_boot + 30 * S + offset;
            let mut searchers = vec![];
            for k in 0..r {
                if !announcers.contains(&k) && (searchers.is_empty() || rng.chance(1, 2)) {
                    searchers.push(k);
                    sim.schedule(t_search + rng.below(3000) as u128 * MS, format!("api {k} search {} 0", hex(&ih)));
                }
            }
            sim.end = t_search + 40 * S;
            ck.e2e = Some(E2e { ih, announcers: announcers.iter().map(|k| { let mut a = addrs[*k]; if let Some(p) = ports[*k] { a.set_port(p) } (*k, a) }).collect(), searchers, t_search, last_ack: HashMap::new(), pending: HashSet::new(), asked: HashMap::new(), late: vec![] });
        }
        // C01, the 24 h clause end to end: announce, optionally re-announce hours later, search
        // 23.5 h after the last announce (must find) and 24 h 10 min after it (must not)
        "e2e24" => {
            let r = rng.range(2, 3) as usize;
            sim.lat_ms = (1, 900);
            let ih = rng.bytes(20);
            let addrs: Vec<SocketAddr> = (0..r).map(|k| real_addr(v6, k)).collect();
            let mut ports = vec![];
            for k in 0..r {
                let id = rng.bytes(20);
                sim.reals.push((k, id.clone(), addrs[k]));
                let others: Vec<String> = addrs.iter().enumerate().filter(|(j, _)| *j != k).map(|(_, a)| addr_str(a)).collect();
                let port = if rng.chance(1, 2) { None } else { Some(rng.range(1, 65535) as u16) };
                ports.push(port);
                sim.schedule(t0, format!("nnew {k} {} addr={} ro=0 port={} routers=- nodes={}", hex(&id), addr_str(&addrs[k]), port.map(|p| p.to_string()).unwrap_or("none".into()), dash(&others)));
            }
            let t_ann = t0 + 20 * S;
            sim.schedule(t_ann, format!("api 0 search {} 1", hex(&ih)));
            let t_last = if rng.chance(2, 3) {
                let again = t_ann + rng.range(3600, 6 * 3600) as u128 * S;
                sim.schedule(again, format!("api 0 search {} 1", hex(&ih)));
                again
            } else { t_ann };
            let searcher = r - 1;
            sim.schedule(t_last + 23 * 3600 * S + 1800 * S, format!("api {searcher} search {} 0", hex(&ih)));
            sim.schedule(t_last + 24 * 3600 * S + 600 * S, format!("api {searcher} search {} 0", hex(&ih)));
            sim.end = t_last + 24 * 3600 * S + 700 * S;
            let mut a = addrs[0];
            if let Some(p) = ports[0] { a.set_port(p) }
            ck.e2e = Some(E2e { ih, announcers: vec![(0, a)], searchers: vec![searcher], t_search: t_last, last_ack: HashMap::new(), pending: HashSet::new(), asked: HashMap::new(), late: vec![] });
        }
        _ => {}
    }
}

// =========================================================================== oracles

struct E2e {
    ih: Vec<u8>,
    /// (node, the contact it announces)
    announcers: Vec<(usize, SocketAddr)>,
    searchers: Vec<usize>,
    t_search: u128,
    /// announcer node -> time of the last acknowledged announce_peer
    last_ack: HashMap<usize, u128>,
    /// announce_peer queries on their way: (announcer node, transaction id)
    pending: HashSet<(usize, Vec<u8>)>,
    /// get_peers queries for the info-hash: (node, transaction id) -> time sent
    asked: HashMap<(usize, Vec<u8>), u128>,
    /// (node, time the query was sent) of answers that came back after the 1.5 s query timeout
    late: Vec<(usize, u128)>,
}

#[derive(Default)]
struct NodeTrack {
    routers: Vec<String>,
    nodes: Vec<SocketAddr>,
    fail: Vec<SocketAddr>,
    ro: bool,
    started: u128,
    handled: usize,
    /// waiter -> (registered at, resolved at)
    waiters: Vec<(u128, Option<u128>)>,
    /// waiters whose caller gave up (`api <k> cancel`)
    cancelled: HashSet<usize>,
    rounds: Vec<u128>,
    completions: Vec<u128>,
    /// search stream -> (issued at, announce, yields, closed at)
    searches: Vec<(u128, bool, Vec<SocketAddr>, Option<u128>)>,
    sends: usize,
    // C11 bookkeeping: contact -> (first seen, last seen in a sample, since when questionable)
    seen: HashMap<SocketAddr, (u128, u128, Option<u128>)>,
    pending_probe: Vec<(SocketAddr, String, String)>,
}

pub struct Checker {
    /// C19: (node, transaction id) -> destinations it was sent to (and whether as a first-round query)
    sent_ids: HashMap<(usize, Vec<u8>), Vec<(SocketAddr, bool)>>,
    kind: String,
    /// some node published Bootstrapped already
    pub completed_once: bool,
    pub probes: Vec<u128>,
    expect_peer: Option<(Vec<u8>, SocketAddr)>,
    sample_contacts: bool,
    e2e: Option<E2e>,
    track: HashMap<usize, NodeTrack>,
    /// tid name -> (node, destination) of bootstrap first-round queries still worth probing
    probe_done: usize,
    expect_reply: Vec<(usize, usize, SocketAddr, String, String)>, // (line, node, to, tid name, what)
}

impl Checker {
    fn new(kind: &str) -> Checker {
        Checker { sent_ids: HashMap::new(), kind: kind.to_string(), completed_once: false, probes: vec![], expect_peer: None, sample_contacts: false, e2e: None, track: HashMap::new(), probe_done: 0, expect_reply: vec![] }
    }

    /// C05 (F5) / C14: while a bootstrap exchange with a contact is pending, that contact sends a
    /// ping *query* reusing the pending transaction id; some garbage; then an ordinary ping
    fn maybe_probe(&mut self, world: &mut World, sim: &mut Sim, evs: &[Ev]) {
        if self.kind != "probe" || self.probe_done >= self.probes.len() { return }
        for e in evs {
            let Some((dst, bytes, true)) = &e.sent else { continue };
            let Ok(m) = Message::decode(bytes) else { continue };
            let MessageBody::Request(Request::FindNode(f)) = &m.body else { continue };
            if f.id != f.target { continue } // the first-round query of a bootstrap attempt
            let Some(p) = sim.peers.iter().find(|p| p.addr == *dst) else { continue };
            if self.probe_done >= self.probes.len() { break }
            self.probe_done += 1;
            let spec = world.tid_spec(e.node, &m.transaction_id);
            let pid = hex(&p.id);
            let src = addr_str(dst);
            let k = e.node;
            match sim.rng.below(3) {
                0 => sim.schedule(e.t + 1 * MS, format!("dg {k} {spec} {src} q ping id={pid}")),
                1 => {
                    let g: Vec<u8> = match sim.rng.below(3) { 0 => b"d1:t99999999999:".to_vec(), 1 => vec![b'l'; 1400], _ => sim.rng.bytes_below(60) };
                    sim.schedule(e.t + 1 * MS, format!("dgraw {k} {} {src}", hex_or_dash(&g)));
                    let t2 = sim.rng.bytes(2);
                    sim.schedule(e.t + 2 * MS, format!("dg {k} x{} {src} q ping id={pid}", hex(&t2)));
                }
                _ => {
                    let (t4, tg) = (sim.rng.bytes(4), sim.rng.bytes(20));
                    sim.schedule(e.t + 1 * MS, format!("dg {k} x{} {src} q find_node id={pid} target={} want=none", hex(&t4), hex(&tg)))
                }
            }
        }
    }

    fn on_op(&mut self, world: &World, op: &str, case: usize, line: usize, st: &mut Stats, sim: &Sim) {
        // C19 on the wire: every query carries an 8-byte id; an id goes to one address once; the only id
        // used towards several addresses is that of a bootstrap first round (find_node for the own id)
        for e in &world.last {
            let Some((dst, bytes, _)) = &e.sent else { continue };
            let Ok(m) = Message::decode(bytes) else { continue };
            let MessageBody::Request(rq) = &m.body else { continue };
            st.hit("c19_queries_checked");
            if m.transaction_id.len() != 8 {
                st.fail(case, line, &format!("[C19] node {} sent a query with a {}-byte transaction id", e.node, m.transaction_id.len()));
            }
            let first_round = matches!(rq, Request::FindNode(f) if f.id == f.target);
            let seen = self.sent_ids.entry((e.node, m.transaction_id.clone())).or_default();
            if seen.iter().any(|(a, _)| a == dst) {
                st.fail(case, line, &format!("[C19] node {} sent transaction id {} to {} twice", e.node, hex(&m.transaction_id), addr_str(dst)));
            } else if !seen.is_empty() && !(first_round && seen.iter().all(|(_, fr)| *fr)) {
                st.fail(case, line, &format!("[C19] node {} used transaction id {} towards {} and {}", e.node, hex(&m.transaction_id), addr_str(&seen[0].0), addr_str(dst)));
            }
            seen.push((*dst, first_round));
        }
        let mut w: Vec<&str> = op.split_whitespace().collect();
        if w[0] == "racing" { w.remove(0); }
        if w[0] == "combo" {
            // the API call of a combo: `combo <k> yields=<n> api <what...> || ...`
            let end = w.iter().position(|x| *x == "||").unwrap_or(w.len());
            let mut v = vec!["api", w[1]];
            v.extend(w[4..end].iter().copied());
            v.push(w[w.len() - 1]);
            w = v;
        }
        let now = world.now();
        if w[0] == "nnew" {
            let k: usize = w[1].parse().unwrap();
            let t = self.track.entry(k).or_default();
            t.routers = kv(&w, "routers").unwrap_or("-").split(',').filter(|x| *x != "-").map(|x| x.to_string()).collect();
            t.nodes = kv(&w, "nodes").unwrap_or("-").split(',').filter_map(parse_addr).collect();
            t.fail = kv(&w, "fail").unwrap_or("-").split(',').filter_map(parse_addr).collect();
            t.ro = kv(&w, "ro") == Some("1");
            t.started = now;
        }
        if w[0] == "api" {
            let k: usize = w[1].parse().unwrap();
            let t = self.track.entry(k).or_default();
            match w[2] {
                "bootstrapped" => t.waiters.push((now, None)),
                // the oldest call still pending is given up
                "cancel" => { if let Some(i) = (0..t.waiters.len()).find(|i| t.waiters[*i].1.is_none() && !t.cancelled.contains(i)) { t.cancelled.insert(i); } }
                "search" => t.searches.push((now, w[4] == "1", vec![], None)),
                _ => {}
            }
            // C15: the node answers its API whatever its contacts do
            // (on a slow socket the handler may be inside a `send_to` for some milliseconds: the answer then comes
            // with a later op)
            if matches!(w[2], "state" | "contacts" | "addr") && self.kind != "slowsend" {
                let tag = format!("X {}", w[2]);
                let answered = world.last.iter().any(|e| e.node == k && e.text.starts_with(&tag) && !e.text.ends_with("dead"));
                if !answered {
                    st.fail(case, line, &format!("[C15] node {k} did not answer the `{}` API call (handler gone?)", w[2]));
                }
            }
        }
        // a query delivered to a serving node must be answered in the same step (C05, also after garbage: C14)
        if w[0] == "dg" && w.get(4) == Some(&"q") {
            let k: usize = w[1].parse().unwrap();
            let ro = self.track.get(&k).map(|t| t.ro).unwrap_or(false);
            let src = w[3];
            let replies = world.last.iter().filter(|e| e.node == k && e.text.starts_with(&format!("W {src}/")) && (e.text.contains(" r id=") || e.text.contains(" e code="))).count();
            if !ro && replies != 1 {
                st.fail(case, line, &format!("[C05] a well-formed {} query from {src} with transaction id {} caused {replies} replies", w[5], w[2]));
            }
            if ro && replies != 0 {
                st.fail(case, line, "[C05] a read-only node answered a query");
            }
            st.hit(if w[2].starts_with('#') { "query_with_pending_id" } else { "query_plain" });
        }
        for e in &world.last {
            let k = e.node;
            let t = self.track.entry(k).or_default();
            let ws: Vec<&str> = e.text.split_whitespace().collect();
            match (ws[0], ws.get(1).copied().unwrap_or("")) {
                ("B", "handled") => t.handled += 1,
                ("W", _) => t.sends += 1,
                ("R", "round") => {
                    t.rounds.push(e.t);
                    // C18: rounds in any window <= window/6s + 1 + completions in the window
                    let n = t.rounds.len();
                    for back in [2usize, 3, 5, 10, 30, 100, 1000] {
                        if n > back {
                            let a = t.rounds[n - 1 - back];
                            let rounds = back + 1;
                            let completions = t.completions.iter().filter(|c| **c >= a && **c <= e.t).count();
                            let allowed = ((e.t - a) / (6 * S)) as usize + 1 + completions;
                            if rounds > allowed {
                                st.fail(case, line, &format!("[C18] node {k}: {rounds} refresh rounds within {} ms (allowed {allowed}: one per 6 s, plus one, plus {completions} bootstrap completions)", (e.t - a) / MS));
                                break;
                            }
                        }
                    }
                }
                ("H", "bstate") if ws[2] == "true" => t.completions.push(e.t),
                ("B", "state") if ws[2] == "Bootstrapped" => {
                    self.completed_once = true;
                    // C15: not before a contact answered (unless there are no contacts at all)
                    if t.handled == 0 && !(t.routers.is_empty() && t.nodes.is_empty()) {
                        st.fail(case, line, &format!("[C15] node {k} reports bootstrapped although no contact has answered"));
                    }
                }
                ("X", "resolved") => {
                    let i: usize = ws[2].parse().unwrap();
                    if let Some(wt) = t.waiters.get_mut(i) { wt.1 = Some(e.t) }
                    if ws[3] != "true" {
                        st.fail(case, line, &format!("[C15] node {k}: bootstrapped() resolved false (the handler is gone)"));
                    }
                    if t.handled == 0 && !(t.routers.is_empty() && t.nodes.is_empty()) {
                        st.fail(case, line, &format!("[C15] node {k}: bootstrapped() resolved although no contact has answered"));
                    }
                }
                ("X", "yield") => {
                    let sid: usize = ws[2].parse().unwrap();
                    if let (Some(s), Some(a)) = (t.searches.get_mut(sid), parse_addr(ws[3])) { s.2.push(a) }
                }
                ("X", "closed") => {
                    let sid: usize = ws[2].parse().unwrap();
                    if let Some(s) = t.searches.get_mut(sid) { s.3 = Some(e.t) }
                }
                ("X", "contacts") if self.sample_contacts && ws[2] != "dead" => {
                    let parse = |s: &str| -> Vec<SocketAddr> { s.split_once('[').map(|x| x.1.trim_end_matches(']')).unwrap_or("").split(',').filter_map(parse_addr).collect() };
                    let good = parse(ws[2]);
                    let quest = parse(ws[3]);
                    // C11
                    for p in &sim.peers {
                        let listed_g = good.contains(&p.addr);
                        let listed_q = quest.contains(&p.addr);
                        let ent = t.seen.get(&p.addr).cloned();
                        match p.policy {
                            Policy::Good => {
                                if listed_g || listed_q {
                                    let first = ent.map(|x| x.0).unwrap_or(e.t);
                                    let since_q = if listed_q { Some(ent.and_then(|x| x.2).unwrap_or(e.t)) } else { None };
                                    if let Some(q0) = since_q {
                                        if e.t - q0 > 30 * S + 5 * S {
                                            st.fail(case, line, &format!("[C11] node {k}: the always-answering contact {} has been questionable for {} s", addr_str(&p.addr), (e.t - q0) / S));
                                        }
                                    }
                                    t.seen.insert(p.addr, (first, e.t, since_q));
                                } else if ent.is_some() {
                                    st.fail(case, line, &format!("[C11] node {k}: the always-answering contact {} was admitted and is now lost", addr_str(&p.addr)));
                                    t.seen.remove(&p.addr);
                                }
                            }
                            Policy::GoodUntil(_) => {
                                if listed_g || listed_q {
                                    if let Some(la) = p.last_answer {
                                        // the simulated network stops naming a node once it is silent
                                        if e.t > la + 20 * 60 * S + 10 * S && e.t > sim_silent_since(p) + 5 * 60 * S + 10 * S {
                                            st.fail(case, line, &format!("[C11] node {k}: contact {} is still listed {} s after its last answer", addr_str(&p.addr), (e.t - la) / S));
                                        }
                                    }
                                }
                            }
                            _ => {}
                        }
                    }
                }
                _ => {}
            }
        }
        // C15: every waiter registered before a resolution is resolved by it
        for (k, t) in self.track.iter() {
            if let Some(latest) = t.waiters.iter().filter_map(|w| w.1).max() {
                for (i, wt) in t.waiters.iter().enumerate() {
                    if t.cancelled.contains(&i) { continue }
                    if wt.0 < latest && wt.1.is_none() && now > latest {
                        st.fail(case, line, &format!("[C15] node {k}: waiter {i} registered at {} is still waiting although bootstrapped() resolved for others at {latest}", wt.0));
                    }
                }
            }
        }
        // C01 bookkeeping: acknowledged announces
        if let Some(e2e) = self.e2e.as_mut() {
            if w[0] == "dg" && w.get(4) == Some(&"r") {
                let k: usize = w[1].parse().unwrap();
                if let Some(tid) = world.tid_bytes(w[2]) {
                    if e2e.pending.remove(&(k, tid.clone())) { e2e.last_ack.insert(k, now); st.hit("e2e_announce_acked"); }
                    if let Some(sent) = e2e.asked.remove(&(k, tid)) {
                        if now > sent + 1500 * MS { e2e.late.push((k, sent)); st.hit("e2e_answer_after_query_timeout"); }
                    }
                }
            }
            for e in &world.last {
                if let Some((_, bytes, true)) = &e.sent {
                    if let Ok(m) = Message::decode(bytes) {
                        if matches!(m.body, MessageBody::Request(Request::AnnouncePeer(_))) { e2e.pending.insert((e.node, m.transaction_id.clone())); }
                        if let MessageBody::Request(Request::GetPeers(g)) = &m.body {
                            if g.info_hash.as_ref() == &e2e.ih[..] { e2e.asked.insert((e.node, m.transaction_id.clone()), e.t); }
                        }
                    }
                }
            }
        }
    }

    fn finish(&mut self, world: &World, case: usize, line: usize, st: &mut Stats, sim: &Sim) {
        let now = world.now();
        for (k, t) in self.track.iter() {
            // C15: no contacts -> bootstrapped at once and silent
            if t.routers.is_empty() && t.nodes.is_empty() {
                for (i, wt) in t.waiters.iter().enumerate() {
                    if wt.1 != Some(wt.0) { st.fail(case, line, &format!("[C15] node {k} has no contacts but waiter {i} (registered {}) was resolved at {:?}", wt.0, wt.1)); }
                }
            }
            // C15: plain nodes, one of them responsive since t_r: resolved within 11 minutes
            if t.routers.is_empty() {
                let responsive_since = sim.peers.iter().filter(|p| t.nodes.contains(&p.addr) && !t.fail.contains(&p.addr)).filter_map(|p| match p.policy { Policy::Good => Some(t.started), Policy::GoodFrom(x) => Some(x.max(t.started)), _ => None }).min();
                if let Some(tr) = responsive_since {
                    for (i, wt) in t.waiters.iter().enumerate() {
                        if t.cancelled.contains(&i) { continue }
                        let deadline = tr.max(wt.0) + 660 * S;
                        let late = match wt.1 { Some(r) => r > deadline, None => now > deadline };
                        if late {
                            st.fail(case, line, &format!("[C15] node {k}: waiter {i} (registered {}) resolved {:?}, a contact has been responsive since {tr} (11 min bound {deadline})", wt.0, wt.1));
                        }
                    }
                    st.hit("c15_bound_checked");
                }
            }
            // C04: every search ends — no later than 1.5 s per node of the network plus 3 s after it was
            // started (a search issued before the first bootstrap completion is started at that completion)
            {
                let bound = 1500 * MS * (sim.peers.len() + sim.reals.len()) as u128 + 3 * S + 2 * S;
                for (sid, s) in t.searches.iter().enumerate() {
                    let started = match t.completions.first() { Some(c) => s.0.max(*c), None => continue };
                    match s.3 {
                        Some(end) if end > started + bound => st.fail(case, line, &format!("[C04] node {k}: search {sid} issued at {} ended at {end}, later than 1.5 s per node + 3 s after its start at {started}", s.0)),
                        None if now > started + bound => st.fail(case, line, &format!("[C04] node {k}: search {sid} issued at {} (started {started}) has not ended by {now}: every search must end within 1.5 s per node it was told about plus 3 s", s.0)),
                        _ => {}
                    }
                    st.hit("c04_search_end_checked");
                }
            }
            // C16: every search of the truthful static network yields the stored peer and ends
            if let Some((_, peer)) = &self.expect_peer {
                for (sid, s) in t.searches.iter().enumerate() {
                    st.hit(if t.completions.first().map(|c| s.0 < *c).unwrap_or(true) { "search_before_bootstrap" } else { "search_after_bootstrap" });
                    if !s.2.contains(peer) {
                        st.fail(case, line, &format!("[C16] node {k}: search {sid} issued at {} (first bootstrap completion {:?}) yielded {:?}, not the peer {} every node of the network holds", s.0, t.completions.first(), s.2.iter().map(addr_str).collect::<Vec<_>>(), addr_str(peer)));
                    }
                    if s.3.is_none() {
                        st.fail(case, line, &format!("[C16] node {k}: search {sid} issued at {} never ended", s.0));
                    }
                }
            }
        }
        // C01
        if let Some(e2e) = &self.e2e {
            for sk in &e2e.searchers {
                let Some(t) = self.track.get(sk) else { continue };
                for s in t.searches.iter() {
                    for (ak, contact) in &e2e.announcers {
                        let Some(ack) = e2e.last_ack.get(ak) else { continue };
                        let end = s.3.unwrap_or(now);
                        let found = s.2.contains(contact);
                        if end < ack + 24 * 3600 * S && s.0 > *ack && !found {
                            // was an answer to one of this search's queries lost to the 1.5 s query timeout?
                            let late = e2e.late.iter().any(|(k, sent)| k == sk && *sent >= s.0 && *sent <= end);
                            let why = if late { " late-answer: an answer to one of its get_peers queries took longer than the 1.5 s query timeout (round trip of two datagrams of less than 1 s each) and was discarded" } else { "" };
                            st.fail(case, line, &format!("[C01] node {sk} searched at {} ({} s after node {ak}'s last acknowledged announce) and did not find {}; it yielded {:?}{why}", s.0, (s.0 - ack) / S, addr_str(contact), s.2.iter().map(addr_str).collect::<Vec<_>>()));
                        }
                        if s.0 > ack + 24 * 3600 * S + 60 * S && found {
                            st.fail(case, line, &format!("[C01] node {sk} still finds {} {} s after the last announce", addr_str(contact), (s.0 - ack) / S));
                        }
                        st.hit(if s.0 > ack + 24 * 3600 * S { "e2e_search_after_expiry" } else { "e2e_search_within_24h" });
                    }
                }
            }
        }
    }
}

fn sim_silent_since(p: &SimPeer) -> u128 { match p.policy { Policy::GoodUntil(t) => t, _ => 0 } }

fn check_events_ck(world: &World, op: &str, case: usize, line: usize, st: &mut Stats, ck: &mut Checker, sim: &Sim) {
    check_events(world, op, case, line, st);
    ck.on_op(world, op, case, line, st, sim);
}

/// checks that need no scenario knowledge (also run on replayed ops)
pub fn check_events(world: &World, _op: &str, case: usize, line: usize, st: &mut Stats) {
    for e in &world.last {
        if let Some((dst, bytes, _)) = &e.sent {
            st.hit("datagram_sent");
            if bytes.len() > 1500 {
                st.fail(case, line, &format!("[C17] node {} emitted a {}-byte datagram to {}", e.node, bytes.len(), addr_str(dst)));
            }
        }
        let kind: String = e.text.split_whitespace().take(if e.text.starts_with('W') { 1 } else { 2 }).collect::<Vec<_>>().join("_");
        st.hit(&format!("ev_{kind}"));
    }
}
