//! C13 / C14 / C17 (codec part): the real `Message::encode` / `Message::decode` against the Lean
//! codec model, against BEP templates written in this harness (canonical form, round trip, key
//! reordering / unknown keys, rejections), and — for C14 — in a supervised child process that
//! reports crashes, stack overflows and the largest single allocation request per datagram.
use crate::msgtext::*;
use crate::{rng::Rng, util::*, Engine};
use btdht::message::*;
use std::io::{BufRead, BufReader, Write};
use std::process::{Child, ChildStdin, ChildStdout, Command, Stdio};

#[derive(Default)]
pub struct CodecEngine {
    child: Option<(Child, ChildStdin, BufReader<ChildStdout>)>,
}

/// one decode in the child: result text and the largest allocation request in bytes
pub fn child_main() {
    unsafe {
        let lim = libc::rlimit { rlim_cur: 3 << 30, rlim_max: 3 << 30 };
        libc::setrlimit(libc::RLIMIT_AS, &lim);
    }
    let stdin = std::io::stdin();
    let mut out = std::io::stdout();
    for line in stdin.lock().lines() {
        let line = line.unwrap();
        let bytes = unhex(line.trim()).unwrap_or_default();
        // decode on a thread with the stack size of a tokio worker (2 MiB)
        let h = std::thread::Builder::new().stack_size(2 << 20).spawn(move || {
            crate::alloc_reset();
            let r = std::panic::catch_unwind(|| Message::decode(&bytes));
            let a = crate::alloc_max();
            match r {
                Ok(Ok(m)) => (format!("ok {}", msg_to_text(&m)), a),
                Ok(Err(_)) => ("error".to_string(), a),
                Err(_) => ("PANIC".to_string(), a),
            }
        }).unwrap();
        let (res, a) = h.join().unwrap_or(("PANIC-thread".to_string(), 0));
        writeln!(out, "{res}\t{a}").unwrap();
        out.flush().unwrap();
    }
}

impl CodecEngine {
    fn decode_supervised(&mut self, bytes: &[u8]) -> (String, usize) {
        for _ in 0..2 {
            if self.child.is_none() {
                let mut c = Command::new(std::env::current_exe().unwrap())
                    .arg("codec-child").stdin(Stdio::piped()).stdout(Stdio::piped()).stderr(Stdio::null())
                    .spawn().expect("spawn child");
                let i = c.stdin.take().unwrap();
                let o = BufReader::new(c.stdout.take().unwrap());
                self.child = Some((c, i, o));
            }
            let (c, i, o) = self.child.as_mut().unwrap();
            if writeln!(i, "{}", hex_or_dash(bytes)).and_then(|_| i.flush()).is_err() {
                self.child = None;
                continue;
            }
            let mut line = String::new();
            match o.read_line(&mut line) {
                Ok(n) if n > 0 => {
                    let (r, a) = line.trim_end().split_once('\t').unwrap_or((line.trim_end(), "0"));
                    return (r.to_string(), a.parse().unwrap_or(0));
                }
                _ => {
                    let status = c.wait().ok();
                    self.child = None;
                    use std::os::unix::process::ExitStatusExt;
                    let sig = status.and_then(|s| s.signal());
                    return (format!("CRASH signal={}", sig.map(|s| s.to_string()).unwrap_or("?".into())), 0);
                }
            }
        }
        ("CRASH spawn".into(), 0)
    }
}

impl Drop for CodecEngine {
    fn drop(&mut self) {
        if let Some((mut c, i, _)) = self.child.take() {
            drop(i);
            let _ = c.wait();
        }
    }
}

// ------------------------------------------------------------------------------- generators

fn gen_id(rng: &mut Rng) -> Vec<u8> {
    match rng.below(8) {
        0 => vec![0u8; 20],
        1 => vec![0xff; 20],
        2 => b"abcdefghij0123456789".to_vec(),
        _ => rng.bytes(20),
    }
}

fn gen_addr(rng: &mut Rng, v6: bool) -> String {
    let port = match rng.below(6) { 0 => 0, 1 => 65535, 2 => 256, _ => rng.below(65536) };
    if v6 {
        // structured IPv6 addresses as well: IPv4-mapped / -compatible, unspecified, loopback, NAT64 —
        // they are IPv6 contacts and take 18 bytes on the wire (round-3 seed C13)
        let ip: Vec<u8> = match rng.below(9) {
            0 => { let mut a = vec![0u8; 10]; a.extend_from_slice(&[0xff, 0xff]); a.extend_from_slice(&rng.bytes(4)); a }
            1 => { let mut a = vec![0u8; 12]; a.extend_from_slice(&rng.bytes(4)); a }
            2 => match rng.below(3) { 0 => vec![0u8; 16], 1 => { let mut a = vec![0u8; 16]; a[15] = 1; a } _ => { let mut a = vec![0u8, 0x64, 0xff, 0x9b]; a.extend_from_slice(&[0u8; 8]); a.extend_from_slice(&rng.bytes(4)); a } },
            _ => rng.bytes(16),
        };
        format!("v6:{}:{port}", hex(&ip))
    } else { format!("v4:{}:{port}", hex(&rng.bytes(4))) }
}

fn gen_tid(rng: &mut Rng) -> Vec<u8> {
    let len = match rng.below(8) { 0 => 0, 1 => 1, 2 => 2, 3 => 32, 4 => 8, _ => rng.below(33) as usize };
    match rng.below(4) { 0 => vec![b'a'; len], 1 => (0..len).map(|i| b"e0:dli1"[i % 7]).collect(), _ => rng.bytes(len) }
}

pub fn gen_msg_text(rng: &mut Rng) -> String {
    let t = hex_or_dash(&gen_tid(rng));
    let id = hex(&gen_id(rng));
    let want = *rng.pick(&["none", "none", "n4", "n6", "both"]);
    match rng.below(10) {
        0 => format!("q ping t={t} id={id}"),
        1 => format!("q find_node t={t} id={id} target={} want={want}", hex(&gen_id(rng))),
        2 => format!("q get_peers t={t} id={id} info_hash={} want={want}", hex(&gen_id(rng))),
        3 | 4 => {
            let port = match rng.below(6) { 0 | 1 => "implied".to_string(), 2 => "0".into(), 3 => "65535".into(), _ => rng.below(65536).to_string() };
            let tl = match rng.below(6) { 0 => 0, 1 => 20, 2 => 64, _ => rng.below(40) as usize };
            format!("q announce_peer t={t} id={id} info_hash={} port={port} token={}", hex(&gen_id(rng)), hex_or_dash(&rng.bytes(tl)))
        }
        5..=7 => {
            let nv = match rng.below(5) { 0 => 0, 1 => 1, 2 => rng.below(200) as usize, _ => rng.below(6) as usize };
            let values: Vec<String> = (0..nv).map(|_| { let v6 = rng.chance(1, 3); gen_addr(rng, v6) }).collect();
            let n4 = match rng.below(4) { 0 => 0, 1 => 8, _ => rng.below(50) as usize };
            let n6 = match rng.below(4) { 0 | 1 => 0, 2 => 8, _ => rng.below(30) as usize };
            let nodes: Vec<String> = (0..n4).map(|_| format!("{}@{}", hex(&gen_id(rng)), gen_addr(rng, false))).collect();
            let nodes6: Vec<String> = (0..n6).map(|_| format!("{}@{}", hex(&gen_id(rng)), gen_addr(rng, true))).collect();
            let token = match rng.below(5) { 0 => "none".to_string(), 1 => "-".into(), 2 => hex(&rng.bytes(20)), _ => hex_or_dash(&rng.bytes_below(65)) };
            let j = |v: &Vec<String>| if v.is_empty() { "-".to_string() } else { v.join(";") };
            format!("r t={t} id={id} values={} nodes={} nodes6={} token={token}", j(&values), j(&nodes), j(&nodes6))
        }
        _ => {
            let code = match rng.below(5) { 0 => 201, 1 => 203, 2 => 0, 3 => 255, _ => rng.below(256) };
            let text: String = match rng.below(4) {
                0 => String::new(),
                1 => "A Generic Error Ocurred".into(),
                2 => "ünïcödé ✓ 漢字".into(),
                _ => (0..rng.below(40)).map(|_| (b' ' + rng.below(95) as u8) as char).collect(),
            };
            format!("e t={t} code={code} msg={}", hex_or_dash(text.as_bytes()))
        }
    }
}

fn junk_val(rng: &mut Rng, depth: usize) -> BVal {
    match rng.below(if depth > 3 { 3 } else { 6 }) {
        0 => BVal::Int(rng.next() as i64 as i128 >> rng.below(60)),
        1 => BVal::Bytes(rng.bytes_below(12)),
        2 => BVal::s(*rng.pick(&["", "v", "LT01", "n4"])),
        3 => BVal::List((0..rng.below(4)).map(|_| junk_val(rng, depth + 1)).collect()),
        4 => BVal::Dict((0..rng.below(3)).map(|_| (BVal::Bytes(rng.bytes_below(4)), junk_val(rng, depth + 1))).collect()),
        _ => BVal::Dict(vec![(BVal::Int(1), BVal::List(vec![]))]),
    }
}

const UNKNOWN_KEYS: &[&str] = &["v", "ip", "ro", "noseed", "scrape", "name", "zz", "A", "", "seed", "bs"];

/// same message, other spelling: permuted keys and unknown keys at every dict level
fn reorder_unknown(rng: &mut Rng, v: &BVal, top: bool) -> BVal {
    match v {
        BVal::Dict(d) => {
            let known: Vec<Vec<u8>> = d.iter().filter_map(|(k, _)| if let BVal::Bytes(b) = k { Some(b.clone()) } else { None }).collect();
            let mut out: Vec<(BVal, BVal)> = d.iter().map(|(k, x)| (k.clone(), reorder_unknown(rng, x, false))).collect();
            for _ in 0..rng.below(4) {
                let k = rng.pick(UNKNOWN_KEYS).as_bytes().to_vec();
                // not a field name of any KRPC dict level
                let reserved: &[&[u8]] = &[b"t", b"y", b"q", b"a", b"r", b"e", b"id", b"target", b"info_hash", b"want", b"port", b"implied_port", b"token", b"values", b"nodes", b"nodes6"];
                if known.contains(&k) || reserved.contains(&k.as_slice()) { continue; }
                let _ = top;
                out.push((BVal::Bytes(k), junk_val(rng, 0)));
            }
            // shuffle
            for i in (1..out.len()).rev() {
                let j = rng.below(i as u64 + 1) as usize;
                out.swap(i, j);
            }
            BVal::Dict(out)
        }
        other => other.clone(),
    }
}

fn weird_number(rng: &mut Rng) -> Vec<u8> {
    let opts: &[&str] = &["", "-", "+", "+5", "-0", "007", "1e3", " 1", "1 ", "0x10", "9223372036854775807", "9223372036854775808",
        "-9223372036854775808", "-9223372036854775809", "18446744073709551615", "18446744073709551616", "99999999999", "4294967296",
        "65535", "65536", "255", "256", "-1", "1.5", "٣", "340282366920938463463374607431768211456"];
    if rng.chance(1, 6) { rng.bytes_below(4) } else { rng.pick(opts).as_bytes().to_vec() }
}

/// damage a tree somewhere
fn mutate(rng: &mut Rng, v: &BVal, p: u64) -> BVal {
    if rng.below(100) < p {
        return match rng.below(12) {
            0 => BVal::RawInt(weird_number(rng)),
            1 => match v { BVal::Bytes(b) => BVal::RawLenBytes(weird_number(rng), b.clone()), _ => BVal::RawLenBytes(weird_number(rng), vec![]) },
            2 => junk_val(rng, 0),
            3 => match v { BVal::Bytes(b) => BVal::List(b.iter().map(|x| BVal::Int(*x as i128)).collect()), o => o.clone() },
            4 => match v { BVal::Bytes(b) => { let mut c = b.clone(); if rng.chance(1, 2) { c.push(0) } else { c.pop(); } BVal::Bytes(c) } o => o.clone() },
            5 => BVal::Int(*rng.pick(&[0i128, 1, -1, 255, 256, 65535, 65536, i64::MAX as i128, i64::MIN as i128])),
            6 => BVal::Bytes(vec![0xff, 0xfe, 0x80]),
            7 => BVal::List(vec![v.clone()]),
            8 => BVal::Dict(vec![(BVal::s("x"), v.clone())]),
            9 => BVal::Raw(rng.bytes_below(5)),
            10 => match v { BVal::Dict(d) if !d.is_empty() => { let mut d = d.clone(); let e = d[rng.below(d.len() as u64) as usize].clone(); d.push(e); BVal::Dict(d) } o => o.clone() },
            _ => match v { BVal::Dict(d) if !d.is_empty() => { let mut d = d.clone(); d.remove(rng.below(d.len() as u64) as usize); BVal::Dict(d) } BVal::List(l) if !l.is_empty() => { let mut l = l.clone(); l.remove(rng.below(l.len() as u64) as usize); BVal::List(l) } o => o.clone() },
        };
    }
    match v {
        BVal::Dict(d) => BVal::Dict(d.iter().map(|(k, x)| (if rng.below(100) < p / 3 { mutate(rng, k, 100) } else { k.clone() }, mutate(rng, x, p))).collect()),
        BVal::List(l) => BVal::List(l.iter().map(|x| mutate(rng, x, p)).collect()),
        o => o.clone(),
    }
}

impl Engine for CodecEngine {
    fn gen_case(&mut self, rng: &mut Rng, idx: usize, thorough: bool) -> Vec<String> {
        let n = if thorough { 400 } else { 120 };
        let mut ops = vec![];
        for k in 0..n {
            let text = gen_msg_text(rng);
            let w: Vec<&str> = text.split_whitespace().collect();
            let Some(msg) = text_to_msg(&w) else { continue };
            let tree = bep_tree(&msg);
            // other spellings of the `want` list (order, repeats, case, blanks, unknown entries): the decoder
            // must read the same set of families (coverage: message.rs want visitor, (V6, "n4") arm)
            if (w[1] == "find_node" || w[1] == "get_peers") && rng.chance(1, 3) {
                let fam = *rng.pick(&["none", "n4", "n6", "both"]);
                let sp: &[&[&str]] = match fam {
                    "none" => &[&[], &["xx"], &["", "n5"]],
                    "n4" => &[&["n4"], &["N4"], &["n4", "n4"], &[" n4 "], &["n4", "zz"], &["zz", "n4", "n4"]],
                    "n6" => &[&["n6"], &["N6"], &["n6", "n6"], &["n6 "], &["q", "n6"], &["n6", "n6", "n6"]],
                    _ => &[&["n6", "n4"], &["n4", "n6"], &["n6", "n6", "n4"], &["N6", "n4", "n4"], &["n4", "x", "n6"], &["n6", "n4", "n6"]],
                };
                let spelled: Vec<BVal> = rng.pick(sp).iter().map(|x| BVal::s(x)).collect();
                let mut t2 = tree.clone();
                if let BVal::Dict(top) = &mut t2 {
                    for (k2, v2) in top.iter_mut() {
                        if let (BVal::Bytes(kb), BVal::Dict(args)) = (&*k2, &mut *v2) {
                            if kb == b"a" {
                                args.retain(|(ak, _)| !matches!(ak, BVal::Bytes(b) if b == b"want"));
                                args.push((BVal::s("want"), BVal::List(spelled.clone())));
                            }
                        }
                    }
                }
                let exp: Vec<String> = w.iter().map(|x| if x.starts_with("want=") { format!("want={fam}") } else { x.to_string() }).collect();
                ops.push(format!("dec {} | expect ok {}", hex(&t2.to_bytes()), exp.join(" ")));
                continue;
            }
            // a node of the wrong address family in `nodes` / `nodes6`: the encoder must refuse
            if w[0] == "r" && rng.chance(1, 12) {
                let bad4 = format!("{}@{}", hex(&gen_id(rng)), gen_addr(rng, true));
                let bad6 = format!("{}@{}", hex(&gen_id(rng)), gen_addr(rng, false));
                let which = rng.chance(1, 2);
                let exp: Vec<String> = w.iter().map(|x| {
                    if which && x.starts_with("nodes=") { if *x == "nodes=-" { format!("nodes={bad4}") } else { format!("{x};{bad4}") } }
                    else if !which && x.starts_with("nodes6=") { if *x == "nodes6=-" { format!("nodes6={bad6}") } else { format!("{x};{bad6}") } }
                    else { x.to_string() }
                }).collect();
                ops.push(format!("enc {}", exp.join(" ")));
                continue;
            }
            match (idx + k) % 6 {
                0 => ops.push(format!("enc {text}")),
                1 => ops.push(format!("dec {} | expect ok {text}", hex(&tree.to_bytes()))),
                2 => {
                    // other spellings of the same message
                    let v = reorder_unknown(rng, &tree, true);
                    let mut b = v.to_bytes();
                    if rng.chance(1, 4) { b.extend_from_slice(&rng.bytes_below(6)); }
                    if b.len() <= 1500 { ops.push(format!("dec {} | expect ok {text}", hex(&b))); }
                }
                3 => {
                    // must be rejected
                    let mut t2 = tree.clone();
                    let kind = rng.below(6);
                    if let BVal::Dict(top) = &mut t2 {
                        for (k, v) in top.iter_mut() {
                            let BVal::Bytes(kb) = k else { continue };
                            match (kind, kb.as_slice(), &mut *v) {
                                (0, b"q", BVal::Bytes(q)) => { let alt: &[&[u8]] = &[b"ping", b"find_node", b"get_peers", b"announce_peer", b"vote"]; let mut c = rng.pick(alt).to_vec(); if &c == q { c = b"nope".to_vec(); } *q = c; }
                                (1..=2, b"a" | b"r", BVal::Dict(d)) => { for (k2, v2) in d.iter_mut() { if let (BVal::Bytes(k2b), BVal::Bytes(b)) = (&*k2, &mut *v2) { if [&b"id"[..], b"target", b"info_hash"].contains(&k2b.as_slice()) { if kind == 1 { b.push(7) } else { b.pop(); } break; } } } }
                                (3, b"r", BVal::Dict(d)) => { for (k2, v2) in d.iter_mut() { if let (BVal::Bytes(k2b), BVal::Bytes(b)) = (&*k2, &mut *v2) { if k2b.starts_with(b"nodes") { b.push(1); } } } }
                                (4, b"r", BVal::Dict(d)) => { for (k2, v2) in d.iter_mut() { if let (BVal::Bytes(k2b), BVal::List(l)) = (&*k2, &mut *v2) { if k2b == b"values" && !l.is_empty() { let bl = *rng.pick(&[0usize, 5, 7, 17, 19]); l[0] = BVal::Bytes(rng.bytes(bl)); } } } }
                                (5, b"e", BVal::List(l)) => { if rng.chance(1, 2) { l.push(BVal::Int(1)) } else { l.pop(); } }
                                _ => {}
                            }
                        }
                    }
                    let b = t2.to_bytes();
                    if b != tree.to_bytes() { ops.push(format!("dec {} | expect error", hex(&b))); } else { ops.push(format!("dec {}", hex(&b))); }
                }
                4 => {
                    let pm = *rng.pick(&[3u64, 8, 20]);
                    let v = mutate(rng, &tree, pm);
                    let mut b = v.to_bytes();
                    b.truncate(1500);
                    ops.push(format!("dec {}", hex_or_dash(&b)));
                }
                _ => {
                    let mut b = tree.to_bytes();
                    match rng.below(7) {
                        0 => { let l = rng.below(b.len() as u64 + 1) as usize; b.truncate(l); }
                        1 => { let i = rng.below(b.len() as u64) as usize; b[i] ^= 1 << rng.below(8); }
                        2 => { let i = rng.below(b.len() as u64) as usize; b[i] = *rng.pick(b"deil:0123456789-+e"); }
                        3 => { let d = rng.range(1, 1499) as usize; let mut nb = if rng.chance(1, 2) { vec![b'l'; d] } else { b"d1:x".repeat(d / 4 + 1) }; nb.extend_from_slice(&b); nb.truncate(1500); b = nb; }
                        4 => { b = rng.bytes_below(60); }
                        5 => { b = format!("d1:t{}:", rng.pick(&["99999999999", "18446744073709551615", "1500", "4294967295", "2000000000"])).into_bytes(); }
                        _ => { let d = rng.range(1, 740) as usize; b = vec![b'l'; d]; b.extend(vec![b'e'; rng.below(d as u64 + 1) as usize]); }
                    }
                    ops.push(format!("dec {}", hex_or_dash(&b)));
                }
            }
        }
        ops
    }

    fn run_case(&mut self, case: usize, reqs: &[String], out: &mut Vec<(String, String)>, st: &mut Stats) {
        for (k, req) in reqs.iter().enumerate() {
            let (main, expect) = match req.split_once(" | expect ") { Some((a, b)) => (a, Some(b.to_string())), None => (req.as_str(), None) };
            let w: Vec<&str> = main.split_whitespace().collect();
            match w.first().copied() {
                Some("enc") => {
                    let Some(msg) = text_to_msg(&w[1..]) else { out.push((req.clone(), "bad-op".into())); continue };
                    let res = msg.encode();
                    let families_ok = match &msg.body { MessageBody::Response(r) => r.nodes_v4.iter().all(|n| n.addr.is_ipv4()) && r.nodes_v6.iter().all(|n| n.addr.is_ipv6()), _ => true };
                    match res {
                        Ok(bytes) => {
                            st.hit("enc_ok");
                            st.hit(&format!("enc_kind_{}_{}", w[1], if w[1] == "q" { w[2] } else { "" }));
                            if !families_ok { st.fail(case, k, "[C13] encoder accepted a node of the wrong family in nodes/nodes6"); }
                            let tmpl = bep_tree(&msg).to_bytes();
                            if bytes != tmpl {
                                st.fail(case, k, &format!("[C13] encoding is not the canonical BEP form: got {} want {}", hex(&bytes), hex(&tmpl)));
                            }
                            match Message::decode(&bytes) {
                                Ok(m2) if m2 == msg => {}
                                Ok(m2) => st.fail(case, k, &format!("[C13] message does not round-trip: decoded `{}`", msg_to_text(&m2))),
                                Err(_) => st.fail(case, k, "[C13] the decoder rejects the encoder's own output"),
                            }
                            if bytes.len() > 1500 { st.hit("enc_over_1500"); }
                            out.push((req.clone(), hex(&bytes)));
                        }
                        Err(_) => {
                            st.hit("enc_error");
                            if families_ok { st.fail(case, k, "[C13] encoder failed on a well-formed message"); }
                            out.push((req.clone(), "error".into()));
                        }
                    }
                }
                Some("dec") => {
                    let bytes = unhex(w.get(1).copied().unwrap_or("-")).unwrap_or_default();
                    let (res, alloc) = self.decode_supervised(&bytes);
                    if res.starts_with("CRASH") || res.starts_with("PANIC") {
                        st.fail(case, k, &format!("[C14] decoding a {}-byte datagram: {res}", bytes.len()));
                    }
                    if alloc > 65536 {
                        st.fail(case, k, &format!("[C14] decoding a {}-byte datagram requested a single allocation of {alloc} bytes", bytes.len()));
                    }
                    st.hit(if res.starts_with("ok") { "dec_ok" } else if res == "error" { "dec_error" } else { "dec_crash" });
                    if let Some(e) = &expect {
                        st.hit(if e == "error" { "dec_expect_error" } else { "dec_expect_same_message" });
                        let ok = if e == "error" { res == "error" } else { res == *e };
                        if !ok {
                            st.fail(case, k, &format!("[C13] decoder returned `{}`, BEP5/BEP32 reading of the bytes says `{}`", &res[..res.len().min(200)], &e[..e.len().min(200)]));
                        }
                    }
                    out.push((req.clone(), res));
                }
                _ => out.push((req.clone(), "bad-op".into())),
            }
        }
    }
}
