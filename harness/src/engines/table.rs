//! C08 / C09 / C10: the real `Node`, `Bucket`, `RoutingTable`, `ClosestNodes` under the virtual
//! clock against the Lean `Table` model (every slot of every bucket is compared at dumps), and
//! against this file's own oracles:
//!   C08  shape of the live table + the trade rule of a single offer
//!   C09  closest-node enumeration = every live node exactly once, closer nodes first
//!   C10  BEP5 classification of a contact from its event history
use crate::{rng::Rng, util::*, Engine};
use btdht::verif::{leading_bit_count, Node, NodeHandle, NodeStatus, RoutingTable};
use btdht::InfoHash;
use std::collections::{HashMap, HashSet};
use std::net::SocketAddr;

#[derive(Default)]
pub struct TableEngine;

const S: u128 = 1_000_000_000;
const MIN15: u128 = 900 * S;

fn id_of(b: &[u8]) -> InfoHash {
    let mut a = [0u8; 20];
    a.copy_from_slice(b);
    InfoHash::from(a)
}

fn st_letter(s: NodeStatus) -> &'static str {
    match s {
        NodeStatus::Good => "G",
        NodeStatus::Questionable => "Q",
        NodeStatus::Bad => "B",
    }
}

fn opt_ns(t: Option<std::time::Instant>, t0: std::time::Instant) -> String {
    match t {
        None => "-".into(),
        Some(t) => {
            if t >= t0 {
                t.duration_since(t0).as_nanos().to_string()
            } else {
                format!("-{}", t0.duration_since(t).as_nanos())
            }
        }
    }
}

fn fmt_handle(h: &NodeHandle) -> String {
    format!("{}@{}", hex(h.id.as_ref()), addr_str(&h.addr))
}

fn fmt_node(n: &Node, t0: std::time::Instant) -> String {
    let (lq, lr, ll, rr) = n.verif_raw();
    let h = &NodeHandle::new(n.id(), n.addr());
    if lq.is_none() && lr.is_none() && ll.is_none() && rr == 0 && h.id.as_ref() == [0u8; 20] && addr_str(&h.addr) == "v4:7f000001:0" {
        return "_".into();
    }
    format!("{}/{},{},{},{}", fmt_handle(h), opt_ns(lq, t0), opt_ns(lr, t0), opt_ns(ll, t0), rr)
}

pub fn fmt_table(t: &RoutingTable, t0: std::time::Instant) -> String {
    let bs: Vec<String> = t
        .buckets()
        .map(|b| b.iter().map(|n| fmt_node(n, t0)).collect::<Vec<_>>().join(" "))
        .collect();
    format!("len={} | {}", bs.len(), bs.join(" | "))
}

/// id sharing exactly `d` leading bits with `me` (d = 160: `me` itself)
fn id_with_lcp(rng: &mut Rng, me: &[u8], d: usize, near: bool) -> Vec<u8> {
    let mut id = me.to_vec();
    if d >= 160 {
        return id;
    }
    id[d / 8] ^= 1 << (7 - d % 8);
    for bit in (d + 1)..160 {
        let flip = if near { rng.chance(1, 40) } else { rng.chance(1, 2) };
        if flip {
            id[bit / 8] ^= 1 << (7 - bit % 8);
        }
    }
    id
}

fn mk_addr(rng: &mut Rng, pool: u64) -> String {
    let i = rng.below(pool);
    if rng.chance(1, 6) {
        if rng.chance(1, 4) {
            let k = rng.below(3);
            return format!("v6:{}:{}", hex(&structured_v6(k, [10, 0, (i >> 8) as u8, i as u8])), 6881 + i % 3);
        }
        let mut ip = vec![0x20u8, 0x01, 0x0d, 0xb8];
        ip.extend_from_slice(&[0u8; 10]);
        ip.extend_from_slice(&(i as u16).to_be_bytes());
        format!("v6:{}:{}", hex(&ip), 2000 + i % 3)
    } else {
        format!("v4:{}:{}", hex(&[10, 0, (i >> 8) as u8, i as u8]), 6881 + i % 3)
    }
}

fn time_gap(rng: &mut Rng) -> u128 {
    match rng.below(20) {
        0 => MIN15,
        1 => MIN15 - 1,
        2 => MIN15 + 1,
        3 => 30 * S,
        4 => 30 * S - 1,
        5 => 2 * MIN15 + rng.below(60) as u128 * S,
        6 | 7 => rng.below(MIN15 as u64) as u128,
        8 | 9 => 0,
        _ => rng.below(120) as u128 * S + rng.below(S as u64) as u128,
    }
}

impl Engine for TableEngine {
    fn gen_case(&mut self, rng: &mut Rng, idx: usize, thorough: bool) -> Vec<String> {
        let mut ops = vec![];
        let mut t: u128 = 1000 * S + rng.below(5000) as u128 * S;
        let kind = idx % 5;
        if kind == 0 {
            // a single contact's history (C10)
            let n = if thorough { 400 } else { 80 };
            let id = hex(&rng.bytes(20));
            let a = mk_addr(rng, 5);
            ops.push(format!("n new {} {id} {a} @{t}", rng.pick(&["g", "q", "q", "b"])));
            let mut last_marks: Vec<u128> = vec![t];
            for _ in 0..n {
                t += time_gap(rng);
                if rng.chance(1, 5) {
                    // aim at the 15-minute boundary of an earlier event
                    let m = *rng.pick(&last_marks) + MIN15 - 1 + rng.below(3) as u128;
                    if m >= t {
                        t = m;
                    }
                }
                match rng.below(12) {
                    0..=2 => { ops.push(format!("n local @{t}")); last_marks.push(t) }
                    3..=4 => { ops.push(format!("n remote @{t}")); last_marks.push(t) }
                    5 => { ops.push(format!("n update g @{t}")); last_marks.push(t) }
                    6 => { ops.push(format!("n update q @{t}")); last_marks.push(t) }
                    7 => ops.push(format!("n recent @{t}")),
                    _ => ops.push(format!("n status @{t}")),
                }
                if last_marks.len() > 6 {
                    last_marks.remove(0);
                }
            }
            return ops;
        }
        let me = rng.bytes(20);
        let routers: Vec<String> = (0..rng.below(3)).map(|_| mk_addr(rng, 50)).collect();
        ops.push(format!("new {} routers={}", hex(&me), if routers.is_empty() { "-".to_string() } else { routers.join(",") }));
        // the empty table (no assorted nodes to hand out)
        ops.push(format!("closest {} @{t}", hex(&me)));
        ops.push(format!("closest {} @{t}", hex(&rng.bytes(20))));
        ops.push(format!("contacts @{t}"));
        let n = match kind { 1 => 120, 2 => 400, 3 => 250, _ => 200 } * if thorough { 6 } else { 1 };
        let pool = *rng.pick(&[20u64, 200, 2000]);
        let mut known: Vec<(String, String)> = vec![];
        // depth profile: shallow tables, deep tables (many splits), or concentrated in few classes
        let max_depth = match kind { 1 => 6, 2 => 159, 3 => 40, _ => 20 };
        if kind == 2 || idx % 10 == 8 {
            // a full-depth table (160 buckets; `precompute_assorted_nodes` returns None, the last bucket
            // is walked as a sorted one): nine or more live contacts sharing >= 150 bits with the local
            // id make the last bucket split all the way down (round-3 seed C09)
            for _ in 0..rng.range(9, 14) {
                t += rng.below(2 * S as u64) as u128;
                let d = match rng.below(4) { 0 | 1 => 159, 2 => 158, _ => rng.range(150, 159) as usize };
                let id = hex(&id_with_lcp(rng, &me, d, true));
                let a = mk_addr(rng, pool);
                ops.push(format!("offer {} {id} {a} @{t}", rng.pick(&["g", "g", "q"])));
                known.push((id, a));
            }
            for _ in 0..3 {
                let mut x = me.clone();
                let b = *rng.pick(&[159usize, 158, 0, 80]);
                x[b / 8] ^= 1 << (7 - b % 8);
                ops.push(format!("closest {} @{t}", hex(&x)));
            }
            ops.push(format!("closest {} @{t}", hex(&me)));
            ops.push(format!("contacts @{t}"));
            ops.push(format!("counts @{t}"));
        }
        for k in 0..n {
            t += if rng.chance(1, 6) { time_gap(rng) } else { rng.below(3 * S as u64) as u128 };
            let r = rng.below(100);
            if r < 55 || known.is_empty() {
                let d = match rng.below(10) {
                    0 => 160,
                    1 => 159,
                    2 | 3 => rng.below(max_depth as u64 + 1) as usize,
                    4 => max_depth,
                    _ => (rng.below(max_depth as u64 + 1) * rng.below(max_depth as u64 + 1) / (max_depth as u64 + 1)) as usize,
                };
                let (id, a) = if rng.chance(1, 5) && !known.is_empty() {
                    let (kid, ka) = rng.pick(&known).clone();
                    // same id at another address, or the same handle again
                    if rng.chance(1, 2) { (kid, mk_addr(rng, pool)) } else { (kid, ka) }
                } else {
                    let near = rng.chance(1, 3);
                    (hex(&id_with_lcp(rng, &me, d, near)), if !routers.is_empty() && rng.chance(1, 12) { rng.pick(&routers).clone() } else { mk_addr(rng, pool) })
                };
                let kindc = *rng.pick(&["g", "g", "q", "q", "q", "b"]);
                if rng.chance(1, 8) {
                    let mut named = vec![];
                    for _ in 0..rng.range(0, 9) {
                        let dd = rng.below(max_depth as u64 + 2) as usize;
                        let nid = if dd > max_depth { me.clone() } else { id_with_lcp(rng, &me, dd, false) };
                        named.push(format!("{}@{}", hex(&nid), mk_addr(rng, pool)));
                    }
                    ops.push(format!("addnodes {id} {a} named={} @{t}", if named.is_empty() { "-".to_string() } else { named.join(";") }));
                } else {
                    ops.push(format!("offer {kindc} {id} {a} @{t}"));
                }
                known.push((id, a));
                if known.len() > 40 {
                    known.remove(rng.below(20) as usize);
                }
            } else if r < 70 {
                let (id, a) = rng.pick(&known).clone();
                ops.push(format!("{} {id} {a} @{t}", if rng.chance(3, 5) { "local" } else { "remote" }));
            } else if r < 85 {
                let target = match rng.below(6) {
                    0 => me.clone(),
                    1 => { let mut x = me.clone(); let b = rng.below(160) as usize; x[b / 8] ^= 1 << (7 - b % 8); x }
                    2 if !known.is_empty() => unhex(&rng.pick(&known).0).unwrap(),
                    _ => rng.bytes(20),
                };
                ops.push(format!("closest {} @{t}", hex(&target)));
            } else if r < 90 {
                ops.push(format!("contacts @{t}"));
            } else if r < 95 {
                ops.push(format!("counts @{t}"));
            } else {
                ops.push(format!("dump @{t}"));
            }
            if k % 25 == 24 {
                ops.push(format!("dump @{t}"));
            }
        }
        if kind == 3 {
            // every single-bit flip of the own id plus the own id as closest targets
            ops.push(format!("closest {} @{t}", hex(&me)));
            for b in 0..160 {
                let mut x = me.clone();
                x[b / 8] ^= 1 << (7 - b % 8);
                ops.push(format!("closest {} @{t}", hex(&x)));
            }
        }
        ops.push(format!("dump @{t}"));
        ops
    }

    fn run_case(&mut self, case: usize, reqs: &[String], out: &mut Vec<(String, String)>, st: &mut Stats) {
        with_rt(case as u64, async {
            let clock = VClock::start();
            let t0 = clock.t0_std();
            let mut table: Option<RoutingTable> = None;
            let mut me: Vec<u8> = vec![];
            let mut node: Option<Node> = None;
            let mut spec: Option<SpecContact> = None;
            for (k, req) in reqs.iter().enumerate() {
                let w: Vec<&str> = req.split_whitespace().collect();
                if let Some(t) = w.last().and_then(|x| parse_at(x)) {
                    clock.advance_to(t).await;
                }
                let now = clock.now_ns();
                match w.as_slice() {
                    ["new", id, routers] => {
                        me = unhex(id).unwrap();
                        let mut t = RoutingTable::new(id_of(&me));
                        let r = routers.strip_prefix("routers=").unwrap();
                        if r != "-" {
                            for a in r.split(',') {
                                t.routers.insert(parse_addr(a).unwrap());
                            }
                        }
                        table = Some(t);
                        out.push((req.clone(), "ok".into()));
                    }
                    ["offer", kind, id, a, _] => {
                        let Some(t) = table.as_mut() else { out.push((req.clone(), "no-table".into())); continue };
                        let h = NodeHandle::new(id_of(&unhex(id).unwrap()), parse_addr(a).unwrap());
                        let n = match *kind {
                            "g" => Node::as_good(h.id, h.addr),
                            "q" => Node::as_questionable(h.id, h.addr),
                            _ => Node::as_bad(h.id, h.addr),
                        };
                        let offered = n.status();
                        let before = live_map(t);
                        let len_before = t.buckets().count();
                        t.add_node(n);
                        check_shape(t, &me, case, k, st);
                        check_trade(t, &me, &before, len_before, &h, offered, case, k, st);
                        st.hit(&format!("offer_{kind}"));
                        if t.buckets().count() > len_before {
                            st.hit("offer_splits");
                        }
                        out.push((req.clone(), format!("len={}", t.buckets().count())));
                    }
                    ["addnodes", id, a, named, _] => {
                        let Some(t) = table.as_mut() else { out.push((req.clone(), "no-table".into())); continue };
                        let nm = named.strip_prefix("named=").unwrap();
                        let hs: Vec<NodeHandle> = if nm == "-" { vec![] } else {
                            nm.split(';').map(|s| { let (i, a) = s.split_once('@').unwrap(); NodeHandle::new(id_of(&unhex(i).unwrap()), parse_addr(a).unwrap()) }).collect()
                        };
                        t.add_nodes(Node::as_good(id_of(&unhex(id).unwrap()), parse_addr(a).unwrap()), &hs);
                        check_shape(t, &me, case, k, st);
                        st.hit("addnodes");
                        out.push((req.clone(), format!("len={}", t.buckets().count())));
                    }
                    [op @ ("local" | "remote"), id, a, _] => {
                        let Some(t) = table.as_mut() else { out.push((req.clone(), "no-table".into())); continue };
                        let h = NodeHandle::new(id_of(&unhex(id).unwrap()), parse_addr(a).unwrap());
                        let r = match t.find_node_mut(&h) {
                            Some(n) => { if *op == "local" { n.local_request() } else { n.remote_request() }; "found" }
                            None => "absent",
                        };
                        check_shape(t, &me, case, k, st);
                        st.hit(&format!("{op}_{r}"));
                        out.push((req.clone(), r.into()));
                    }
                    ["closest", target, _] => {
                        let Some(t) = table.as_ref() else { out.push((req.clone(), "no-table".into())); continue };
                        let tg = unhex(target).unwrap();
                        let got: Vec<NodeHandle> = t.closest_nodes(id_of(&tg)).map(|n| NodeHandle::new(n.id(), n.addr())).collect();
                        check_closest(t, &me, &tg, &got, case, k, st);
                        st.hit("closest");
                        out.push((req.clone(), format!("[{}]", got.iter().map(fmt_handle).collect::<Vec<_>>().join(","))));
                    }
                    ["contacts", _] => {
                        let Some(t) = table.as_ref() else { out.push((req.clone(), "no-table".into())); continue };
                        let (g, q) = t.load_contacts();
                        let mut g: Vec<String> = g.iter().map(addr_str).collect();
                        let mut q: Vec<String> = q.iter().map(addr_str).collect();
                        g.sort();
                        q.sort();
                        out.push((req.clone(), format!("good=[{}] quest=[{}]", g.join(","), q.join(","))));
                    }
                    ["counts", _] => {
                        let Some(t) = table.as_ref() else { out.push((req.clone(), "no-table".into())); continue };
                        out.push((req.clone(), format!("good={} quest={} buckets={}", t.num_good_nodes(), t.num_questionable_nodes(), t.buckets().count())));
                    }
                    ["dump", _] => {
                        let Some(t) = table.as_ref() else { out.push((req.clone(), "no-table".into())); continue };
                        st.add("dump_buckets", t.buckets().count() as u64);
                        out.push((req.clone(), fmt_table(t, t0)));
                    }
                    ["n", "new", kind, id, a, _] => {
                        let h = NodeHandle::new(id_of(&unhex(id).unwrap()), parse_addr(a).unwrap());
                        let n = match *kind {
                            "g" => Node::as_good(h.id, h.addr),
                            "q" => Node::as_questionable(h.id, h.addr),
                            _ => Node::as_bad(h.id, h.addr),
                        };
                        spec = Some(SpecContact::new(kind, now));
                        out.push((req.clone(), fmt_node(&n, t0)));
                        node = Some(n);
                    }
                    ["n", "update", kind, _] => {
                        let Some(n) = node.as_mut() else { out.push((req.clone(), "no-node".into())); continue };
                        let other = match *kind {
                            "g" => Node::as_good(n.id(), n.addr()),
                            "q" => Node::as_questionable(n.id(), n.addr()),
                            _ => Node::as_bad(n.id(), n.addr()),
                        };
                        n.update(other);
                        let sp = spec.as_mut().unwrap();
                        match *kind { "g" => sp.answer(now), "q" => sp.hearsay(now), _ => {} }
                        check_contact(n, sp, now, case, k, st);
                        out.push((req.clone(), fmt_node(n, t0)));
                    }
                    ["n", op, _] => {
                        let Some(n) = node.as_mut() else { out.push((req.clone(), "no-node".into())); continue };
                        let sp = spec.as_mut().unwrap();
                        let res = match *op {
                            "local" => { n.local_request(); sp.query_sent(now); fmt_node(n, t0) }
                            "remote" => { n.remote_request(); sp.query_received(now); fmt_node(n, t0) }
                            "status" => st_letter(n.status()).to_string(),
                            "recent" => n.recently_requested_from().to_string(),
                            _ => "bad-op".into(),
                        };
                        check_contact(n, sp, now, case, k, st);
                        st.hit(&format!("n_{op}"));
                        st.hit(&format!("n_status_{}", st_letter(n.status())));
                        out.push((req.clone(), res));
                    }
                    _ => out.push((req.clone(), "bad-op".into())),
                }
            }
        })
    }
}

// ------------------------------------------------------------------------------------------ C10

/// The BEP5 classification written from the property text, from the contact's event history.
pub struct SpecContact {
    ever_listed: bool,          // answered or was named at least once
    last_answer: Option<u128>,  // a real answer, or the pseudo answer `t - 15 min` of a (re)naming
    last_query_rx: Option<u128>,
    strikes: u32,               // queries we sent while it was not good, since its last answer / naming
}

impl SpecContact {
    pub fn new(kind: &str, now: u128) -> Self {
        let mut s = SpecContact { ever_listed: false, last_answer: None, last_query_rx: None, strikes: 0 };
        match kind {
            "g" => s.answer(now),
            "q" => s.hearsay(now),
            _ => {}
        }
        s
    }
    pub fn status(&self, now: u128) -> NodeStatus {
        let Some(a) = self.last_answer else { return NodeStatus::Bad };
        if now < a + MIN15 {
            return NodeStatus::Good;
        }
        if self.strikes >= 2 {
            return NodeStatus::Bad;
        }
        if let Some(q) = self.last_query_rx {
            if now < q + MIN15 {
                return NodeStatus::Good;
            }
        }
        NodeStatus::Questionable
    }
    /// an accepted answer: good at once; forgets strikes. A contact that was not good is replaced
    /// by a fresh entry (its record of received queries goes with it).
    pub fn answer(&mut self, now: u128) {
        if self.status(now) != NodeStatus::Good {
            self.last_query_rx = None;
        }
        self.ever_listed = true;
        self.last_answer = Some(now);
        self.strikes = 0;
    }
    /// named by another node: only a contact in bad standing is re-listed (as questionable)
    pub fn hearsay(&mut self, now: u128) {
        if self.status(now) == NodeStatus::Bad {
            self.ever_listed = true;
            self.last_answer = Some(now - MIN15);
            self.last_query_rx = None;
            self.strikes = 0;
        }
    }
    pub fn query_received(&mut self, now: u128) {
        self.last_query_rx = Some(now);
    }
    pub fn query_sent(&mut self, now: u128) {
        if self.status(now) != NodeStatus::Good {
            self.strikes = self.strikes.saturating_add(1);
        }
    }
}

fn check_contact(n: &Node, sp: &SpecContact, now: u128, case: usize, k: usize, st: &mut Stats) {
    let got = n.status();
    let exp = sp.status(now);
    if got != exp {
        st.fail(case, k, &format!("[C10] contact reported {} but its history (answers, hearsay, queries received/sent, 15 min rule, two strikes) says {}", st_letter(got), st_letter(exp)));
    }
}

// ------------------------------------------------------------------------------------------ C08

fn live_map(t: &RoutingTable) -> HashMap<(Vec<u8>, SocketAddr), (NodeStatus, usize)> {
    let mut m = HashMap::new();
    for (i, b) in t.buckets().enumerate() {
        for n in b.iter() {
            let s = n.status();
            if s != NodeStatus::Bad {
                m.insert((n.id().as_ref().to_vec(), n.addr()), (s, i));
            }
        }
    }
    m
}

fn check_shape(t: &RoutingTable, me: &[u8], case: usize, k: usize, st: &mut Stats) {
    let len = t.buckets().count();
    if len < 1 || len > 160 {
        st.fail(case, k, &format!("[C08] routing table has {len} buckets"));
    }
    let mut seen: HashSet<(Vec<u8>, SocketAddr)> = HashSet::new();
    for (i, b) in t.buckets().enumerate() {
        if b.iter().count() != 8 {
            st.fail(case, k, &format!("[C08] bucket {i} has {} slots", b.iter().count()));
        }
        for n in b.iter() {
            if n.status() == NodeStatus::Bad {
                continue;
            }
            let id = n.id().as_ref().to_vec();
            if id == me {
                st.fail(case, k, "[C08] the node's own id is listed in its routing table");
            }
            if t.routers.contains(&n.addr()) {
                st.fail(case, k, "[C08] a router address is listed in the routing table");
            }
            let l = leading_bit_count(id_of(me), n.id());
            let ok = if i < len - 1 { l == i } else { l >= len - 1 };
            if !ok {
                st.fail(case, k, &format!("[C08] live node with {l} shared prefix bits sits in bucket {i} of {len}"));
            }
            if !seen.insert((id, n.addr())) {
                st.fail(case, k, "[C08] an (id, address) pair is listed twice");
            }
        }
    }
}

#[allow(clippy::too_many_arguments)]
fn check_trade(
    t: &RoutingTable,
    me: &[u8],
    before: &HashMap<(Vec<u8>, SocketAddr), (NodeStatus, usize)>,
    len_before: usize,
    offered: &NodeHandle,
    offered_status: NodeStatus,
    case: usize,
    k: usize,
    st: &mut Stats,
) {
    let after = live_map(t);
    let okey = (offered.id.as_ref().to_vec(), offered.addr);
    let removed: Vec<_> = before.iter().filter(|(h, _)| !after.contains_key(*h)).collect();
    if removed.len() > 1 {
        st.fail(case, k, &format!("[C08] one offer removed {} live nodes", removed.len()));
    }
    for (h, (s, _)) in &removed {
        st.hit("offer_evicts");
        if **h == okey {
            st.fail(case, k, "[C08] offering a listed node removed it");
        }
        if !(*s < offered_status) {
            st.fail(case, k, &format!("[C08] a {} node was evicted by a {} newcomer (not strictly better)", st_letter(*s), st_letter(offered_status)));
        }
        // the newcomer's bucket must not have had a free/bad slot left
        if let Some((_, bi)) = after.get(&okey) {
            let b = t.buckets().nth(*bi).unwrap();
            if b.iter().any(|n| n.status() == NodeStatus::Bad) {
                st.fail(case, k, "[C08] a live node was evicted although its bucket still has a free or bad slot");
            }
        }
    }
    let len = t.buckets().count();
    if len < len_before {
        st.fail(case, k, "[C08] the number of buckets shrank");
    }
    // admission
    let l = leading_bit_count(id_of(me), offered.id);
    let admissible = offered_status != NodeStatus::Bad && l != 160 && !t.routers.contains(&offered.addr);
    if !admissible {
        if offered_status == NodeStatus::Bad && !before.contains_key(&okey) && after.contains_key(&okey) {
            st.fail(case, k, "[C08] a node offered in bad standing was admitted");
        }
        return;
    }
    if !after.contains_key(&okey) {
        st.hit("offer_rejected");
        let bi = if l < len { l } else { len - 1 };
        let b = t.buckets().nth(bi).unwrap();
        let splittable = bi == len - 1 && bi != 159;
        let has_worse = b.iter().any(|n| n.status() < offered_status);
        if splittable || has_worse {
            st.fail(case, k, &format!("[C08] a {} newcomer was rejected although its bucket {} (splittable={splittable}) has room or a worse node", st_letter(offered_status), bi));
        }
    } else if !before.contains_key(&okey) {
        st.hit("offer_admitted");
    } else {
        st.hit("offer_known");
    }
}

// ------------------------------------------------------------------------------------------ C09

fn check_closest(t: &RoutingTable, me: &[u8], target: &[u8], got: &[NodeHandle], case: usize, k: usize, st: &mut Stats) {
    let live = live_map(t);
    let mut seen = HashSet::new();
    for h in got {
        let key = (h.id.as_ref().to_vec(), h.addr);
        if !live.contains_key(&key) {
            st.fail(case, k, "[C09] closest-node enumeration lists a node that is not live in the table");
        }
        if !seen.insert(key) {
            st.fail(case, k, "[C09] closest-node enumeration lists a node twice");
        }
    }
    if seen.len() != live.len() {
        st.fail(case, k, &format!("[C09] closest-node enumeration visited {} of {} live nodes", seen.len(), live.len()));
    }
    let l = leading_bit_count(id_of(me), id_of(target));
    let closer: Vec<bool> = got.iter().map(|h| leading_bit_count(h.id, id_of(target)) > l).collect();
    let n_closer = closer.iter().filter(|c| **c).count();
    if n_closer > 8 {
        st.fail(case, k, &format!("[C09] {n_closer} live nodes share a longer prefix with the target than the local id"));
    }
    if closer.iter().take(n_closer).any(|c| !*c) {
        st.fail(case, k, "[C09] a node closer to the target than the local id is listed after a farther one");
    }
    if n_closer > 0 {
        st.hit("closest_has_closer");
    }
    if l >= t.buckets().count() {
        st.hit("closest_target_beyond_last_bucket");
    }
}
