//! Correspondence harness: runs the real btdht code (in-process, hooks on) on generated or
//! replayed operation sequences and writes, per engine,
//!   ops.txt   one operation per line (request + observed oracle values `~k=v`), fed to the Lean model
//!   impl.txt  one canonical result line per operation, produced by the real code
//!   stats.txt histogram of what was exercised, spec-oracle failures of the implementation
#![allow(dead_code)]
mod engines;
mod memnet;
mod msgtext;
mod rng;
mod sha1;
mod util;

use rng::Rng;
use std::alloc::{GlobalAlloc, Layout, System};
use std::sync::atomic::{AtomicUsize, Ordering};

/// Counting allocator: remembers the largest single allocation request (C14's "memory out of
/// proportion to the input" is measured with it in the supervised decoder child).
struct Counting;
static MAX_REQ: AtomicUsize = AtomicUsize::new(0);
unsafe impl GlobalAlloc for Counting {
    unsafe fn alloc(&self, l: Layout) -> *mut u8 { MAX_REQ.fetch_max(l.size(), Ordering::Relaxed); System.alloc(l) }
    unsafe fn alloc_zeroed(&self, l: Layout) -> *mut u8 { MAX_REQ.fetch_max(l.size(), Ordering::Relaxed); System.alloc_zeroed(l) }
    unsafe fn dealloc(&self, p: *mut u8, l: Layout) { System.dealloc(p, l) }
    unsafe fn realloc(&self, p: *mut u8, l: Layout, n: usize) -> *mut u8 { MAX_REQ.fetch_max(n, Ordering::Relaxed); System.realloc(p, l, n) }
}
#[global_allocator]
static GLOBAL: Counting = Counting;
pub fn alloc_reset() { MAX_REQ.store(0, Ordering::Relaxed) }
pub fn alloc_max() -> usize { MAX_REQ.load(Ordering::Relaxed) }

use std::io::Write;
use std::panic::{catch_unwind, AssertUnwindSafe};
use util::Stats;

pub trait Engine {
    /// Requests of one case (no `case` header, no oracle annotations).
    fn gen_case(&mut self, rng: &mut Rng, idx: usize, thorough: bool) -> Vec<String>;
    /// Execute the requests on the real code. Pushes `(op line for the model, canonical result)`
    /// per request into `out` as it goes (so that a panic leaves the prefix visible).
    fn run_case(&mut self, case: usize, reqs: &[String], out: &mut Vec<(String, String)>, st: &mut Stats);
}

fn strip_oracle(line: &str) -> String {
    line.split_whitespace()
        .filter(|w| !w.starts_with('~'))
        .collect::<Vec<_>>()
        .join(" ")
}

fn read_cases(path: &str) -> Vec<Vec<String>> {
    let text = std::fs::read_to_string(path).unwrap_or_default();
    let mut cases: Vec<Vec<String>> = vec![];
    for l in text.lines() {
        let l = l.trim();
        if l.is_empty() || l.starts_with('#') {
            continue;
        }
        if l.starts_with("case ") || l == "case" {
            cases.push(vec![]);
            continue;
        }
        if cases.is_empty() {
            cases.push(vec![]);
        }
        cases.last_mut().unwrap().push(strip_oracle(l));
    }
    cases
}

thread_local! {
    static LAST_PANIC: std::cell::RefCell<String> = std::cell::RefCell::new(String::new());
}

fn main() {
    let args: Vec<String> = std::env::args().collect();
    if args.len() < 2 {
        eprintln!("usage: harness <engine> [--seed N] [--cases N] [--thorough] [--out DIR] [--corpus DIR] [--replay FILE]");
        std::process::exit(2);
    }
    if args[1] == "codec-child" {
        engines::codec::child_main();
        return;
    }
    let engine_name = args[1].clone();
    let mut seed: u64 = 1;
    let mut cases: usize = 100;
    let mut thorough = false;
    let mut out_dir = String::from(".");
    let mut corpus: Option<String> = None;
    let mut replay: Option<String> = None;
    let mut i = 2;
    while i < args.len() {
        match args[i].as_str() {
            "--seed" => { seed = args[i + 1].parse().unwrap(); i += 1 }
            "--cases" => { cases = args[i + 1].parse().unwrap(); i += 1 }
            "--thorough" => thorough = true,
            "--out" => { out_dir = args[i + 1].clone(); i += 1 }
            "--corpus" => { corpus = Some(args[i + 1].clone()); i += 1 }
            "--replay" => { replay = Some(args[i + 1].clone()); i += 1 }
            other => { eprintln!("unknown argument {other}"); std::process::exit(2) }
        }
        i += 1;
    }
    let mut engine = match engines::make(&engine_name) {
        Some(e) => e,
        None => { eprintln!("unknown engine {engine_name}"); std::process::exit(2) }
    };
    std::panic::set_hook(Box::new(|info| {
        let msg = format!("{info}").replace('\n', " ");
        LAST_PANIC.with(|p| *p.borrow_mut() = msg);
    }));

    std::fs::create_dir_all(&out_dir).unwrap();
    let mut ops_f = std::io::BufWriter::new(std::fs::File::create(format!("{out_dir}/ops.txt")).unwrap());
    let mut impl_f = std::io::BufWriter::new(std::fs::File::create(format!("{out_dir}/impl.txt")).unwrap());
    let mut st = Stats::default();
    let mut rng = Rng::new(seed);

    // the list of cases: replay file, or corpus first and then generated ones
    let mut all: Vec<(String, Vec<String>)> = vec![];
    if let Some(f) = &replay {
        for (k, c) in read_cases(f).into_iter().enumerate() {
            all.push((format!("replay:{k}"), c));
        }
    } else {
        if let Some(dir) = &corpus {
            let mut files: Vec<_> = std::fs::read_dir(dir)
                .map(|rd| rd.filter_map(|e| e.ok()).map(|e| e.path()).collect())
                .unwrap_or_default();
            files.sort();
            for f in files {
                if f.extension().map(|e| e == "ops").unwrap_or(false) {
                    for (k, c) in read_cases(f.to_str().unwrap()).into_iter().enumerate() {
                        all.push((format!("corpus:{}:{k}", f.file_name().unwrap().to_string_lossy()), c));
                    }
                }
            }
        }
        for idx in 0..cases {
            let mut crng = rng.fork();
            let c = engine.gen_case(&mut crng, idx, thorough);
            all.push((format!("gen:{idx}"), c));
        }
    }

    let mut panics = 0u64;
    for (n, (origin, reqs)) in all.iter().enumerate() {
        writeln!(ops_f, "case {n} {origin}").unwrap();
        writeln!(impl_f, "case {n}").unwrap();
        let mut out: Vec<(String, String)> = Vec::with_capacity(reqs.len());
        let r = catch_unwind(AssertUnwindSafe(|| engine.run_case(n, reqs, &mut out, &mut st)));
        if r.is_err() {
            panics += 1;
            let msg = LAST_PANIC.with(|p| p.borrow().clone());
            st.fail(n, out.len(), &format!("PANIC in implementation: {msg}"));
            // recreate the engine: its state may be poisoned
            engine = engines::make(&engine_name).unwrap();
            while out.len() < reqs.len() {
                let k = out.len();
                out.push((reqs[k].clone(), "PANIC".to_string()));
            }
        }
        for (op, res) in &out {
            writeln!(ops_f, "{op}").unwrap();
            writeln!(impl_f, "{res}").unwrap();
        }
        st.add("ops", out.len() as u64);
    }
    st.add("cases", all.len() as u64);
    st.add("panics", panics);
    ops_f.flush().unwrap();
    impl_f.flush().unwrap();
    let mut s = String::new();
    for (k, v) in &st.hist {
        s.push_str(&format!("hist {k} {v}\n"));
    }
    for f in &st.fails {
        s.push_str(&format!("oracle-fail {f}\n"));
    }
    for n in &st.notes {
        s.push_str(&format!("note {n}\n"));
    }
    std::fs::write(format!("{out_dir}/stats.txt"), s).unwrap();
}
