//! Independent SHA-1 (FIPS 180-4), used only as an oracle.
pub fn sha1(data: &[u8]) -> [u8; 20] {
    let mut h: [u32; 5] = [0x67452301, 0xEFCDAB89, 0x98BADCFE, 0x10325476, 0xC3D2E1F0];
    let mut msg = data.to_vec();
    let bitlen = (data.len() as u64) * 8;
    msg.push(0x80);
    while msg.len() % 64 != 56 {
        msg.push(0);
    }
    msg.extend_from_slice(&bitlen.to_be_bytes());
    for chunk in msg.chunks(64) {
        let mut w = [0u32; 80];
        for i in 0..16 {
            w[i] = u32::from_be_bytes([chunk[4 * i], chunk[4 * i + 1], chunk[4 * i + 2], chunk[4 * i + 3]]);
        }
        for i in 16..80 {
            w[i] = (w[i - 3] ^ w[i - 8] ^ w[i - 14] ^ w[i - 16]).rotate_left(1);
        }
        let (mut a, mut b, mut c, mut d, mut e) = (h[0], h[1], h[2], h[3], h[4]);
        for i in 0..80 {
            let (f, k) = match i {
                0..=19 => ((b & c) | (!b & d), 0x5A827999),
                20..=39 => (b ^ c ^ d, 0x6ED9EBA1),
                40..=59 => ((b & c) | (b & d) | (c & d), 0x8F1BBCDC),
                _ => (b ^ c ^ d, 0xCA62C1D6u32),
            };
            let t = a.rotate_left(5).wrapping_add(f).wrapping_add(e).wrapping_add(k).wrapping_add(w[i]);
            e = d;
            d = c;
            c = b.rotate_left(30);
            b = a;
            a = t;
        }
        h[0] = h[0].wrapping_add(a);
        h[1] = h[1].wrapping_add(b);
        h[2] = h[2].wrapping_add(c);
        h[3] = h[3].wrapping_add(d);
        h[4] = h[4].wrapping_add(e);
    }
    let mut out = [0u8; 20];
    for i in 0..5 {
        out[4 * i..4 * i + 4].copy_from_slice(&h[i].to_be_bytes());
    }
    out
}
