//! In-memory `SocketTrait`: datagrams the node sends are recorded, datagrams for the node are
//! queued by the harness. Sends to addresses in `fail` return an I/O error.
use async_trait::async_trait;
use btdht::SocketTrait;
use std::collections::{HashSet, VecDeque};
use std::io;
use std::net::SocketAddr;
use std::sync::{Arc, Mutex};
use tokio::sync::Notify;

#[derive(Clone)]
pub struct MemSocket {
    pub local: SocketAddr,
    pub inbox: Arc<Mutex<VecDeque<(Vec<u8>, SocketAddr)>>>,
    pub notify: Arc<Notify>,
    /// (destination, datagram, went out?)
    pub outbox: Arc<Mutex<Vec<(SocketAddr, Vec<u8>, bool)>>>,
    pub fail: Arc<Mutex<HashSet<SocketAddr>>>,
    /// also record every send in the event trace of the node (node engine)
    pub trace_sends: Arc<Mutex<bool>>,
    /// `send_to` hands the datagram over at once and completes this many (virtual) milliseconds later —
    /// a proxied, rate-limited or completion-based socket
    pub send_delay_ms: Arc<Mutex<u64>>,
}

impl MemSocket {
    pub fn new(local: SocketAddr) -> Self {
        MemSocket {
            local,
            inbox: Default::default(),
            notify: Arc::new(Notify::new()),
            outbox: Default::default(),
            fail: Default::default(),
            trace_sends: Default::default(),
            send_delay_ms: Default::default(),
        }
    }
    pub fn deliver(&self, bytes: Vec<u8>, from: SocketAddr) {
        self.inbox.lock().unwrap().push_back((bytes, from));
        self.notify.notify_one();
    }
    pub fn take_sent(&self) -> Vec<(SocketAddr, Vec<u8>, bool)> {
        std::mem::take(&mut *self.outbox.lock().unwrap())
    }
}

#[async_trait]
impl SocketTrait for MemSocket {
    async fn send_to(&self, buf: &[u8], target: &SocketAddr) -> io::Result<()> {
        let ok = !self.fail.lock().unwrap().contains(target);
        if *self.trace_sends.lock().unwrap() {
            let local = self.local;
            btdht::verif::trace(|| format!("{local} W send {target} {} {}", if ok { "ok" } else { "fail" }, crate::util::hex(buf)));
        } else {
            self.outbox.lock().unwrap().push((*target, buf.to_vec(), ok));
        }
        let delay = *self.send_delay_ms.lock().unwrap();
        if delay > 0 {
            tokio::time::sleep(std::time::Duration::from_millis(delay)).await;
        }
        if ok {
            Ok(())
        } else {
            Err(io::Error::new(io::ErrorKind::NetworkUnreachable, "memnet: unreachable"))
        }
    }
    async fn recv_from(&self, buf: &mut [u8]) -> io::Result<(usize, SocketAddr)> {
        loop {
            if let Some((bytes, from)) = self.inbox.lock().unwrap().pop_front() {
                let n = bytes.len().min(buf.len());
                buf[..n].copy_from_slice(&bytes[..n]);
                return Ok((n, from));
            }
            self.notify.notified().await;
        }
    }
    fn local_addr(&self) -> io::Result<SocketAddr> {
        Ok(self.local)
    }
}
