use std::collections::BTreeMap;
use std::future::Future;
use std::net::{IpAddr, Ipv4Addr, Ipv6Addr, SocketAddr};

pub fn hex(bytes: &[u8]) -> String {
    let mut s = String::with_capacity(bytes.len() * 2);
    for b in bytes {
        s.push_str(&format!("{b:02x}"));
    }
    s
}

pub fn hex_or_dash(bytes: &[u8]) -> String {
    if bytes.is_empty() {
        "-".to_string()
    } else {
        hex(bytes)
    }
}

pub fn unhex(s: &str) -> Option<Vec<u8>> {
    if s == "-" {
        return Some(vec![]);
    }
    if s.len() % 2 != 0 {
        return None;
    }
    (0..s.len() / 2)
        .map(|i| u8::from_str_radix(&s[2 * i..2 * i + 2], 16).ok())
        .collect()
}

/// canonical text form of a socket address: `v4:0a000001:6881` / `v6:<32 hex>:6881`
pub fn addr_str(a: &SocketAddr) -> String {
    match a {
        SocketAddr::V4(a) => format!("v4:{}:{}", hex(&a.ip().octets()), a.port()),
        SocketAddr::V6(a) => format!("v6:{}:{}", hex(&a.ip().octets()), a.port()),
    }
}

/// an address inside a message body: what a decoder produces never carries a scope
pub fn parse_addr_plain(s: &str) -> Option<SocketAddr> {
    let a = parse_addr(s)?;
    Some(SocketAddr::new(a.ip(), a.port()))
}

/// an address of the line protocol as a socket would report it (link-local ones with their scope)
pub fn parse_addr(s: &str) -> Option<SocketAddr> {
    let mut it = s.split(':');
    let fam = it.next()?;
    let ip = unhex(it.next()?)?;
    let port: u16 = it.next()?.parse().ok()?;
    match (fam, ip.len()) {
        ("v4", 4) => Some(SocketAddr::new(
            IpAddr::V4(Ipv4Addr::new(ip[0], ip[1], ip[2], ip[3])),
            port,
        )),
        ("v6", 16) => {
            let mut o = [0u8; 16];
            o.copy_from_slice(&ip);
            // a link-local address comes with the scope of the interface it was received on: every fe80::/10
            // address of the harness carries scope id 2 (never printed: the model's addresses have no scope, and
            // because the scope is a function of the IP, equality of addresses is the same on both sides)
            if o[0] == 0xfe && o[1] & 0xc0 == 0x80 {
                return Some(SocketAddr::V6(std::net::SocketAddrV6::new(Ipv6Addr::from(o), port, 0, 2)));
            }
            Some(SocketAddr::new(IpAddr::V6(Ipv6Addr::from(o)), port))
        }
        _ => None,
    }
}

pub fn ip_octets(ip: &IpAddr) -> Vec<u8> {
    match ip {
        IpAddr::V4(a) => a.octets().to_vec(),
        IpAddr::V6(a) => a.octets().to_vec(),
    }
}

/// Per-run statistics that end up in the evidence file.
#[derive(Default)]
pub struct Stats {
    pub hist: BTreeMap<String, u64>,
    pub fails: Vec<String>,
    pub notes: Vec<String>,
    pub fail_counts: BTreeMap<String, u64>,
}

impl Stats {
    pub fn hit(&mut self, key: &str) {
        *self.hist.entry(key.to_string()).or_insert(0) += 1;
    }
    pub fn add(&mut self, key: &str, n: u64) {
        *self.hist.entry(key.to_string()).or_insert(0) += n;
    }
    /// The implementation failed the property's own oracle (not a model disagreement).
    pub fn fail(&mut self, case: usize, line: usize, msg: &str) {
        // at most 5 reports per case and oracle (the first words of the message), the rest is counted
        let key = format!("{case} {}", msg.split_whitespace().take(4).collect::<Vec<_>>().join(" "));
        let n = self.fail_counts.entry(key).or_insert(0);
        *n += 1;
        if *n > 5 {
            *self.hist.entry("oracle_fails_not_listed".to_string()).or_insert(0) += 1;
            return;
        }
        self.fails
            .push(format!("case={case} line={line} {}", msg.replace('\n', " ")));
    }
}

/// Run a future on a fresh current-thread runtime with a paused (virtual) clock.
pub fn with_rt<F: Future>(seed: u64, fut: F) -> F::Output {
    let rt = tokio::runtime::Builder::new_current_thread()
        .enable_time()
        .start_paused(true)
        .rng_seed(tokio::runtime::RngSeed::from_bytes(&seed.to_le_bytes()))
        .build()
        .unwrap();
    rt.block_on(fut)
}

/// Virtual clock of a case: nanoseconds since the case started.
pub struct VClock {
    t0: tokio::time::Instant,
}

impl VClock {
    pub fn start() -> Self {
        VClock {
            t0: tokio::time::Instant::now(),
        }
    }
    pub fn now_ns(&self) -> u128 {
        (tokio::time::Instant::now() - self.t0).as_nanos()
    }
    pub fn t0_std(&self) -> std::time::Instant {
        self.t0.into_std()
    }
    /// Move the clock forward to `ns` (never backwards).
    pub async fn advance_to(&self, ns: u128) {
        let now = self.now_ns();
        if ns > now {
            let d = ns - now;
            tokio::time::advance(std::time::Duration::new(
                (d / 1_000_000_000) as u64,
                (d % 1_000_000_000) as u32,
            ))
            .await;
        }
    }
}

/// `@123` time suffix
pub fn parse_at(s: &str) -> Option<u128> {
    s.strip_prefix('@')?.parse().ok()
}

pub fn kv<'a>(words: &'a [&'a str], key: &str) -> Option<&'a str> {
    let p = format!("{key}=");
    words.iter().find_map(|w| w.strip_prefix(p.as_str()))
}

/// an IPv6 address with structure in it, built around 4 given low bytes: IPv4-mapped (`::ffff:a.b.c.d`),
/// IPv4-compatible (`::a.b.c.d`) or NAT64 (`64:ff9b::a.b.c.d`) — all of them are IPv6 contacts as far as
/// the DHT is concerned, and two of them with the same low bytes are different hosts
pub fn structured_v6(kind: u64, low: [u8; 4]) -> Vec<u8> {
    let mut a = match kind % 3 {
        0 => { let mut a = vec![0u8; 10]; a.extend_from_slice(&[0xff, 0xff]); a }
        1 => vec![0u8; 12],
        _ => { let mut a = vec![0u8, 0x64, 0xff, 0x9b]; a.extend_from_slice(&[0u8; 8]); a }
    };
    a.extend_from_slice(&low);
    a
}
